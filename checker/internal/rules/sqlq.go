package rules

import (
	"fmt"
	"go/token"
	"go/types"
	"sort"
	"strings"

	"verif/checker/internal/core"

	"golang.org/x/tools/go/ssa"
)

// stmtText folds the SQL text handed to a query call: constants, package-level string variables (their initialiser),
// `a + b` and fmt.Sprintf with a constant format. Pieces that are not compile-time text render as "?".
func stmtText(v ssa.Value, d int) string { return stmtTextEnv(v, d, nil) }

func stmtTextEnv(v ssa.Value, d int, env map[ssa.Value]ssa.Value) string {
	if d > 8 || v == nil {
		return "?"
	}
	if p, ok := v.(*ssa.Parameter); ok && env != nil {
		if a, ok := env[p]; ok {
			return stmtTextEnv(a, d+1, nil)
		}
	}
	if s, ok := core.ConstString(v); ok {
		return s
	}
	switch x := v.(type) {
	case *ssa.UnOp:
		if g, ok := x.X.(*ssa.Global); ok && x.Op == token.MUL {
			out := "?"
			n := 0
			for _, m := range g.Pkg.Members {
				fn, ok := m.(*ssa.Function)
				if !ok || !isInitFn(fn) {
					continue
				}
				core.Instrs(fn, func(i ssa.Instruction) {
					if st, ok := i.(*ssa.Store); ok && st.Addr == ssa.Value(g) {
						out = stmtTextEnv(st.Val, d+1, env)
						n++
					}
				})
			}
			if n == 1 && len(globalWriters(g)) == 0 {
				return out
			}
		}
	case *ssa.BinOp:
		if x.Op == token.ADD {
			return stmtTextEnv(x.X, d+1, env) + stmtTextEnv(x.Y, d+1, env)
		}
	case *ssa.MakeInterface:
		return stmtTextEnv(x.X, d+1, env)
	case *ssa.Call:
		// a static helper that returns one string (e.g. SelectQuery(table)): fold its result with the arguments bound
		if callee := x.Call.StaticCallee(); callee != nil && len(callee.Blocks) > 0 && core.CallName(x) != "fmt.Sprintf" {
			rets := core.Returns(callee)
			if len(rets) == 1 && len(rets[0].Results) == 1 {
				e := map[ssa.Value]ssa.Value{}
				for i, p := range callee.Params {
					if i < len(x.Call.Args) {
						e[p] = x.Call.Args[i]
					}
				}
				return stmtTextEnv(rets[0].Results[0], d+1, e)
			}
		}
		if core.CallName(x) == "fmt.Sprintf" {
			format := stmtTextEnv(x.Call.Args[0], d+1, env)
			var args []string
			if sl, ok := x.Call.Args[1].(*ssa.Slice); ok {
				if arr, ok := sl.X.(*ssa.Alloc); ok {
					m := map[int64]string{}
					for _, r := range *arr.Referrers() {
						ia, ok := r.(*ssa.IndexAddr)
						if !ok {
							continue
						}
						k, _ := core.ConstInt(ia.Index)
						for _, r2 := range *ia.Referrers() {
							if st, ok := r2.(*ssa.Store); ok && st.Addr == ssa.Value(ia) {
								m[k] = stmtTextEnv(st.Val, d+1, env)
							}
						}
					}
					var ks []int64
					for k := range m {
						ks = append(ks, k)
					}
					sort.Slice(ks, func(i, j int) bool { return ks[i] < ks[j] })
					for _, k := range ks {
						args = append(args, m[k])
					}
				}
			}
			var sb strings.Builder
			ai := 0
			for i := 0; i < len(format); i++ {
				if format[i] == '%' && i+1 < len(format) {
					i++
					if format[i] == '%' {
						sb.WriteByte('%')
						continue
					}
					if ai < len(args) {
						sb.WriteString(args[ai])
					} else {
						sb.WriteString("?")
					}
					ai++
					continue
				}
				sb.WriteByte(format[i])
			}
			return sb.String()
		}
	}
	// a field of a struct that is written by exactly one store in the whole package (a statement prepared once in a
	// constructor: `stmts: treeStatements{selectLastRoot: fmt.Sprintf(…, rootTable)}`): fold what is stored there
	if ld, ok := v.(*ssa.UnOp); ok && ld.Op == token.MUL {
		if fa, ok := ld.X.(*ssa.FieldAddr); ok {
			if st := uniqueFieldStore(fa); st != nil {
				if s := stmtTextEnv(st.Val, d+1, nil); s != "?" {
					return s
				}
			}
		}
	}
	if b, ok := v.Type().Underlying().(*types.Basic); ok && b.Info()&types.IsString != 0 {
		t := stmtSx.Of(v).String()
		// a table-name variable is named by its last component: `t.rootTable`, a constructor's `rootTable` parameter and a
		// local copy of either are the same placeholder
		if i := strings.LastIndex(t, "."); i >= 0 && !strings.ContainsAny(t[i:], "()[]{} ") {
			t = t[i+1:]
		}
		var sb strings.Builder
		sb.WriteString("VAR_")
		for _, r := range t {
			if r >= 'a' && r <= 'z' || r >= 'A' && r <= 'Z' || r >= '0' && r <= '9' {
				sb.WriteRune(r)
			} else {
				sb.WriteByte('_')
			}
		}
		return sb.String()
	}
	return "?"
}

var stmtSx = core.NewSymx()

// globalWriters: functions other than the package initialiser that store to g.
func globalWriters(g *ssa.Global) []string {
	var out []string
	for _, m := range g.Pkg.Members {
		fn, ok := m.(*ssa.Function)
		if !ok || isInitFn(fn) {
			continue
		}
		core.InstrsDeep(fn, func(f *ssa.Function, i ssa.Instruction) {
			if st, ok := i.(*ssa.Store); ok && st.Addr == ssa.Value(g) {
				out = append(out, core.ShortFn(f))
			}
		})
	}
	return out
}

// boundArgs: the terms of the variadic arguments that follow the statement in the call that receives it.
func boundArgs(fn *ssa.Function, stmt string, sx *core.Symx) []string {
	var out []string
	core.Instrs(fn, func(i ssa.Instruction) {
		cc := core.AsCall(i)
		if cc == nil {
			return
		}
		for k, a := range cc.Args {
			if stmtText(a, 0) != stmt || k+1 >= len(cc.Args) {
				continue
			}
			t := sx.Of(cc.Args[k+1])
			out = []string{}
			if t.Op == "const" { // nil variadic
				return
			}
			t.Walk(func(x *core.Term) {
				if x.Op == "lit" && len(out) == 0 {
					for j := 0; j < len(x.Fields); j++ {
						if f := x.Fields[fmt.Sprintf("[const(%d)]", j)]; f != nil {
							// common.Hash.String() is Hex(): one spelling
							out = append(out, strings.ReplaceAll(f.String(), "go-ethereum/common.Hash).String(", "go-ethereum/common.Hash).Hex("))
						}
					}
				}
			})
		}
	})
	return out
}

// orderedStatements: the folded texts of every ORDER BY statement that fn hands to a call.
func orderedStatements(fn *ssa.Function) []string {
	var out []string
	seen := map[string]bool{}
	core.Instrs(fn, func(i ssa.Instruction) {
		cc := core.AsCall(i)
		if cc == nil {
			return
		}
		for _, a := range cc.Args {
			s := stmtText(a, 0)
			if strings.Contains(strings.ToUpper(s), "SELECT") && strings.Contains(strings.ToUpper(s), "FROM") && !seen[s] {
				seen[s] = true
				out = append(out, s)
			}
		}
	})
	return out
}

type orderedSpec struct {
	pkg, recv, fn, table, dir string
	where                     []string
	keys                      [][]string // accepted ORDER BY key lists (all equivalent chain orders)
	args                      []string   // terms bound to $1, $2, …
}

// checkOrdered: fn issues exactly one `SELECT … FROM table [WHERE conj] ORDER BY keys dir LIMIT 1` statement.
func checkOrdered(c *core.Ctx, rule string, specs []orderedSpec) {
	for _, w := range specs {
		fn := c.MustFn(rule, w.pkg, w.recv, w.fn)
		if fn == nil {
			continue
		}
		var stmts []string
		for _, s := range orderedStatements(fn) {
			if q := parseOrdered(s); q != nil && tableMatches(q.table, w.table) && (len(q.keys) > 0) == (w.keys != nil) {
				stmts = append(stmts, s)
			}
		}
		label := w.pkg + "." + w.fn + "#order"
		if w.recv != "" {
			label = w.pkg + ".(*" + w.recv + ")." + w.fn + "#order"
		}
		if len(stmts) != 1 {
			c.Violate(rule, label, fn.Pos(), fmt.Sprintf("expected one ordered statement over %s, found %d", w.table, len(stmts)))
			continue
		}
		q := parseOrdered(stmts[0])
		ok := fmt.Sprint(q.where) == fmt.Sprint(w.where)
		if w.keys == nil {
			// plain lookup: no ordering involved
			got := boundArgs(fn, stmts[0], core.NewSymx())
			ok = ok && len(q.keys) == 0 && fmt.Sprint(got) == fmt.Sprint(w.args)
			c.Decide(ok, rule, strings.TrimSuffix(label, "#order")+"#lookup", fn.Pos(), fmt.Sprintf("rows of %s with %v bound to %v", q.table, q.where, got))
			continue
		}
		ok = ok && q.limit == "1"
		if ok {
			ok = false
			for _, ks := range w.keys {
				if fmt.Sprint(ks) == fmt.Sprint(q.keys) {
					ok = true
				}
			}
			for _, d := range q.dirs {
				ok = ok && d == w.dir
			}
		}
		got := boundArgs(fn, stmts[0], core.NewSymx())
		ok = ok && fmt.Sprint(got) == fmt.Sprint(w.args)
		c.Decide(ok, rule, label, fn.Pos(), fmt.Sprintf("%s row among %v by %v: %+v bound to %v", map[string]string{"DESC": "last", "ASC": "first"}[w.dir], w.where, w.keys[0], *q, got))
	}
}

func isInitFn(fn *ssa.Function) bool {
	return fn.Name() == "init" || strings.HasPrefix(fn.Name(), "init#")
}

var fieldStoreCache = map[string][]*ssa.Store{}

// uniqueFieldStore: the only store in the package to the struct field addressed by fa (nil when there are none or several).
func uniqueFieldStore(fa *ssa.FieldAddr) *ssa.Store {
	fn := fa.Parent()
	if fn == nil || fn.Pkg == nil {
		return nil
	}
	pt, ok := fa.X.Type().Underlying().(*types.Pointer)
	if !ok {
		return nil
	}
	key := fn.Pkg.Pkg.Path() + "|" + types.TypeString(pt.Elem(), nil) + "|" + fmt.Sprint(fa.Field)
	stores, done := fieldStoreCache[key]
	if !done {
		for _, m := range fn.Pkg.Members {
			f, ok := m.(*ssa.Function)
			if !ok {
				continue
			}
			collect := func(g *ssa.Function, i ssa.Instruction) {
				st, ok := i.(*ssa.Store)
				if !ok {
					return
				}
				a, ok := st.Addr.(*ssa.FieldAddr)
				if !ok || a.Field != fa.Field {
					return
				}
				apt, ok := a.X.Type().Underlying().(*types.Pointer)
				if ok && types.Identical(apt.Elem(), pt.Elem()) {
					stores = append(stores, st)
				}
			}
			core.InstrsDeep(f, collect)
		}
		// methods
		for _, mem := range fn.Pkg.Members {
			if tn, ok := mem.(*ssa.Type); ok {
				for _, t := range []types.Type{tn.Type(), types.NewPointer(tn.Type())} {
					ms := fn.Prog.MethodSets.MethodSet(t)
					for k := 0; k < ms.Len(); k++ {
						if g := fn.Prog.MethodValue(ms.At(k)); g != nil && g.Pkg == fn.Pkg {
							core.InstrsDeep(g, func(gg *ssa.Function, i ssa.Instruction) {
								st, ok := i.(*ssa.Store)
								if !ok {
									return
								}
								a, ok := st.Addr.(*ssa.FieldAddr)
								if !ok || a.Field != fa.Field {
									return
								}
								apt, ok := a.X.Type().Underlying().(*types.Pointer)
								if ok && types.Identical(apt.Elem(), pt.Elem()) {
									dup := false
									for _, s0 := range stores {
										if s0 == st {
											dup = true
										}
									}
									if !dup {
										stores = append(stores, st)
									}
								}
							})
						}
					}
				}
			}
		}
		fieldStoreCache[key] = stores
	}
	if len(stores) == 1 {
		return stores[0]
	}
	return nil
}

// tableMatches: want is a table name, or `TREE:ROOT` / `TREE:RHT` for the two tables of a tree, whose names are a
// variable (prefix + "root" / "rht", held in a field, a parameter or computed in the constructor).
func tableMatches(got, want string) bool {
	if strings.HasPrefix(want, "TREE:") {
		g := strings.ToUpper(got)
		return strings.HasPrefix(g, "VAR_") && strings.HasSuffix(strings.TrimSuffix(g, "TABLE"), strings.TrimPrefix(want, "TREE:"))
	}
	return got == want
}
