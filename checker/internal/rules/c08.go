package rules

import (
	"strings"

	"golang.org/x/tools/go/ssa"

	"verif/checker/internal/core"
)

func c08Orient(c *core.Ctx) {
	const rule = "C08-orient"
	treeGetSiblings(c, rule)
	treeGetLeaf(c, rule)
	treeUpsert(c, rule)
	treeCalcRoot(c, rule)
	treeAddLeaf(c, rule)
	treeInitCache(c, rule)
}

func c08Pair(c *core.Ctx) {
	const rule = "C08-pair"
	sx := core.NewSymx()
	// GetProof: the siblings are those of (index, root) as asked
	gp := c.MustFn(rule, "tree", "Tree", "GetProof")
	if gp != nil {
		ok := false
		core.Instrs(gp, func(i ssa.Instruction) {
			if call, isC := i.(*ssa.Call); isC && core.CallName(call) == "(*tree.Tree).getSiblings" {
				a := call.Call.Args
				ok = sx.Of(a[2]).String() == "index" && sx.Of(a[3]).String() == "root"
			}
		})
		okRet := false
		for _, r := range core.Returns(gp) {
			if isNilConst(r.Results[1]) && strings.HasSuffix(sx.Of(r.Results[0]).String(), "getSiblings(t, t.db, index, root)#0") {
				okRet = true
			}
		}
		c.Decide(ok && okRet, rule, "tree.(*Tree).GetProof#args", gp.Pos(), "GetProof(index, root) returns getSiblings(index, root)")
	}
	// l1infotreesync: the proof is asked for the index and hash of ONE root
	f := c.MustFn(rule, "l1infotreesync", "processor", "GetL1InfoTreeMerkleProof")
	if f != nil {
		ok := false
		detail := ""
		core.Instrs(f, func(i ssa.Instruction) {
			if call, isC := i.(*ssa.Call); isC && core.CallName(call) == "(*tree.Tree).GetProof" {
				a := call.Call.Args
				idx, root := sx.Of(a[2]).String(), sx.Of(a[3]).String()
				detail = idx + " / " + root
				// root.Hash of the root found for that very index
				// index and hash of ONE root object (the root recorded for the requested index)
				ok = strings.HasSuffix(idx, "#0.Index") && strings.HasSuffix(root, "#0.Hash") &&
					strings.TrimSuffix(idx, ".Index") == strings.TrimSuffix(root, ".Hash") && strings.Contains(idx, "GetRootByIndex(p.l1InfoTree.Tree, ctx, index)")
			}
		})
		c.Decide(ok, rule, "l1infotreesync.(*processor).GetL1InfoTreeMerkleProof#pair", f.Pos(), "proof for (index, hash of the root recorded for that index): "+detail)
	}
	// aggsender query: proof to the finalized root uses (leaf index of the GER's leaf, that root)
	q := c.MustFn(rule, "aggsender/query", "L1InfoTreeDataQuerier", "GetProofForGER")
	if q != nil {
		ok := false
		detail := ""
		core.Instrs(q, func(i ssa.Instruction) {
			if strings.HasSuffix(core.CallName(i), ").GetL1InfoTreeMerkleProofFromIndexToRoot") {
				a := core.AsCall(i).Args
				idx, root := sx.Of(a[len(a)-2]).String(), sx.Of(a[len(a)-1]).String()
				detail = idx + " / " + root
				ok = strings.HasSuffix(idx, ").GetInfoByGlobalExitRoot(l.l1InfoTreeSyncer, ger)#0.L1InfoTreeIndex") && root == "rootFromWhichToProve"
			}
		})
		okRet := false
		for _, r := range core.Returns(q) {
			if len(r.Results) == 3 && isNilConst(r.Results[2]) {
				pr := sx.Of(r.Results[1]).String()
				okRet = strings.HasSuffix(sx.Of(r.Results[0]).String(), ").GetInfoByGlobalExitRoot(l.l1InfoTreeSyncer, ger)#0") && !strings.HasPrefix(sx.Of(r.Results[0]).String(), "phi{") &&
					strings.Contains(pr, ").GetL1InfoTreeMerkleProofFromIndexToRoot(") && strings.HasSuffix(pr, ", rootFromWhichToProve)#0") && !strings.HasPrefix(pr, "phi{")
			}
		}
		c.Decide(ok && okRet, rule, "aggsender/query.(*L1InfoTreeDataQuerier).GetProofForGER#pair", q.Pos(), "returns the leaf found by that GER and the proof for (its index, the root asked for): "+detail)
	}
	fd := c.MustFn(rule, "aggsender/query", "L1InfoTreeDataQuerier", "GetFinalizedL1InfoTreeData")
	if fd != nil {
		ok := false
		core.Instrs(fd, func(i ssa.Instruction) {
			if strings.HasSuffix(core.CallName(i), ").GetL1InfoTreeMerkleProofFromIndexToRoot") {
				a := core.AsCall(i).Args
				idx, root := sx.Of(a[len(a)-2]).String(), sx.Of(a[len(a)-1]).String()
				ok = strings.HasSuffix(idx, "#0.Index") && strings.HasSuffix(root, "#0.Hash") && strings.TrimSuffix(idx, ".Index") == strings.TrimSuffix(root, ".Hash")
			}
		})
		c.Decide(ok, rule, "aggsender/query.(*L1InfoTreeDataQuerier).GetFinalizedL1InfoTreeData#pair", fd.Pos(), "proof for (root.Index, root.Hash) of one finalized root")
	}
}

// c08Store: what the proofs are read from — every node of a path is stored, a missing node is reported as missing
// only when it is missing, and "the last root" is the last in (block, position-in-block) order.
func c08Store(c *core.Ctx) { storeRule(c, "C08-store") }

func storeRule(c *core.Ctx, rule string) {
	// the node / root lookups select by exactly the key they are given
	checkOrdered(c, rule, []orderedSpec{
		{"tree", "Tree", "getRHTNode", "TREE:RHT", "", []string{"HASH = $1"}, nil, []string{"(github.com/ethereum/go-ethereum/common.Hash).Hex(nodeHash)"}},
		{"tree", "Tree", "GetRootByIndex", "TREE:ROOT", "", []string{"POSITION = $1"}, nil, []string{"index"}},
		{"tree", "Tree", "GetRootByHash", "TREE:ROOT", "", []string{"HASH = $1"}, nil, []string{"(github.com/ethereum/go-ethereum/common.Hash).Hex(hash)"}},
	})
	// and answer "found" only with what the query read: no successful return that did not pass the query's nil error
	for _, name := range []string{"getRHTNode", "GetRootByIndex", "GetRootByHash"} {
		fn := c.MustFn(rule, "tree", "Tree", name)
		if fn == nil {
			continue
		}
		var q *ssa.Call
		core.Instrs(fn, func(i ssa.Instruction) {
			if core.IsCallTo(i, "github.com/russross/meddler.QueryRow") {
				q, _ = i.(*ssa.Call)
			}
		})
		ok := q != nil
		if q != nil {
			read := core.NilEdgesRes(fn, q, true)
			// … or of a translation of that error that is nil exactly when it is (db.ReturnErrNotFound and the like)
			core.Instrs(fn, func(i ssa.Instruction) {
				cl, isCall := i.(*ssa.Call)
				if !isCall || len(cl.Call.Args) != 1 || !sameLeafValue(cl.Call.Args[0], ssa.Value(q)) {
					return
				}
				if g := cl.Call.StaticCallee(); g != nil && nilPreserving(g) {
					read = append(read, core.NilEdgesRes(fn, cl, true)...)
				}
			})
			for _, rc := range core.ReturnCases(fn) {
				// a return that hands the query's own error on (`return row, translate(err)`) succeeds exactly when the query did
				if len(rc.Values) == 2 && isNilConst(rc.Values[1]) {
					ok = ok && len(read) > 0 && rc.ReachableOnlyVia(fn, read)
				}
			}
		}
		c.Decide(ok, rule, "tree.(*Tree)."+name+"#found-means-read", fn.Pos(), "a result without error is returned only after the row was read (no invented rows for special keys)")
	}
	sx := core.NewSymx()
	sn := c.MustFn(rule, "tree", "Tree", "storeNodes")
	if sn != nil {
		var done []core.IfEdge
		for _, b := range sn.Blocks {
			if iff, ok := b.Instrs[len(b.Instrs)-1].(*ssa.If); ok {
				s := sx.Of(iff.Cond).String()
				if s == "(loop{const(0)} < len(nodes))" || s == "((loop{const(-1)} + const(1)) < len(nodes))" {
					done = append(done, core.IfEdge{B: b, Succ: 1, If: iff})
				}
			}
		}
		ok := len(done) == 1
		for _, rc := range core.ReturnCases(sn) {
			if len(rc.Values) == 1 && isNilConst(rc.Values[0]) {
				ok = ok && rc.ReachableOnlyVia(sn, done)
			}
		}
		c.Decide(ok, rule, "tree.(*Tree).storeNodes#all-nodes", sn.Pos(), "storeNodes reports success only after the loop went over every node (a duplicate row skips that node only)")
	}
	// db.ErrNotFound is produced only for sql.ErrNoRows (or an absent node), never for other read errors
	n := 0
	for _, fn := range c.AllFuncs() {
		if fn.Pkg == nil || fn.Pkg.Pkg.Path() != core.P("tree") {
			continue
		}
		for _, rc := range core.ReturnCases(fn) {
			if len(rc.Values) == 0 {
				continue
			}
			last := rc.Values[len(rc.Values)-1]
			if sx.Of(last).String() != "db.ErrNotFound" {
				continue
			}
			n++
			noRows := core.TermEdges(fn, sx, func(s string, _ *core.Term) bool {
				return strings.HasPrefix(s, "errors.Is(") && strings.HasSuffix(s, ", database/sql.ErrNoRows)")
			}, true)
			absent := core.TermEdges(fn, sx, func(s string, _ *core.Term) bool {
				return strings.HasSuffix(s, "#0 == const(nil))") && strings.Contains(s, "getRHTNode(")
			}, true)
			c.Decide(rc.ReachableOnlyVia(fn, append(noRows, absent...)), rule, "tree.ErrNotFound@"+core.ShortFn(fn)+"@"+guardName(rc.Reach()), rc.Ret.Pos(), "db.ErrNotFound is returned only when the row really does not exist (sql.ErrNoRows); other read errors stay errors, so getSiblings never pads a failed read with zero hashes")
		}
	}
	if n == 0 {
		c.Undecide(rule, "tree.ErrNotFound", 0, "no ErrNotFound returns found in the tree package")
	}
	lr := c.MustFn(rule, "tree", "Tree", "getLastRootWithTx")
	if lr != nil {
		ok := false
		detail := ""
		core.Instrs(lr, func(i ssa.Instruction) {
			if core.CallName(i) != "github.com/russross/meddler.QueryRow" {
				return
			}
			// the statement text is folded through Sprintf / helpers' clause arguments (see sqlq.go)
			tk := " " + strings.Join(sqlTokensUpper(stmtText(core.AsCall(i).Args[2], 0)), " ") + " "
			handle := stripIface(core.AsCall(i).Args[0])
			ok = len(strings.Fields(tk)) > 3 && strings.HasPrefix(tk, " SELECT * FROM ") && tableMatches(strings.Fields(tk)[3], "TREE:ROOT") && strings.HasSuffix(tk, " ORDER BY BLOCK_NUM DESC , BLOCK_POSITION DESC LIMIT 1 ") &&
				(handle == ssa.Value(lr.Params[1]) || sx.Of(handle).String() == "tx")
			if !ok {
				detail = tk + " on " + sx.Of(handle).String()
			}
		})
		c.Decide(ok, rule, "tree.(*Tree).getLastRootWithTx#statement", lr.Pos(), "the last root is the last in (block_num, block_position) order, read on the caller's handle "+detail)
	}
}

func init() {
	register(&Property{
		ID:          "C08",
		Level:       "other",
		Explanation: "Decides the orientation agreement of the six functions that walk the 32-level tree (a necessary condition of 'every proof verifies against its root'): each has a per-level test of the index bit (recognised forms idx&(1<<h) {>,!=,==} 0 and (idx>>h)&1 {==,!=} {0,1}), covers levels 0..31 or 31..0 with the very variable used in the bit test, and on the bit-set edge treats the running node as a RIGHT child — builders hash (sibling[h], running) and (running, sibling[h]) on the clear edge; walkers descend into node.Right / node.Left of the node fetched for the running hash; getSiblings records node.Left / node.Right accordingly and substitutes zeroHashes[h] only when the node is absent; AddLeaf reads lastLeftCache[h] / zeroHashes[h] and writes the cache on the clear edge only; UpsertLeaf uses the siblings of the same index. This is the verifier's (CalculateRoot) and the contracts' convention, so a single flipped site is reported at that site. C08-pair: GetProof returns the siblings of the (index, root) asked, and callers pass index and root hash of one root. Not decided: that proof values recompute the root for all tree contents (an induction over contents), and 'last written as of that root' (content addressing of rht is trusted). Added after round 7: C08-schema, C08-feed (rollup-exit updates keyed by log index, shared with C11-feed), C08-trees (every reorg rewinds both trees, shared with C04), lookups answer found only with the row they read. Added after round 9: C08-frontier-mem (shared with C07 TX-mem, including the db.Tx obligations).",
		Rules: []Rule{
			{ID: "C08-schema", Floor: 3, Run: func(c *core.Ctx) { schemaTypesRule(c, "C08-schema", "tree") }, Text: "[SCHEMA-TYPES] integer columns have INTEGER affinity (numeric ORDER BY), big.Int text columns have TEXT affinity, references are not deferred to COMMIT"},
			{ID: "C08-feed", Floor: 40, Run: shared("C08-feed", c11Feed), Text: "(shared with C11-feed) rollup exit tree updates are keyed by (block, log index): the base root of an upsert is the latest one"},
			{ID: "C08-trees", Floor: 6, Run: shared("C08-trees", c04Trees), Text: "(shared with C04-trees) every reorg rewinds both trees"},
			{ID: "C08-orient", Floor: 12, Run: c08Orient, Text: "[TREE] bit test, level range and left/right roles agree in all six walkers"},
			{ID: "C08-node", Floor: 2, Run: func(c *core.Ctx) { nodeHashRule(c, "C08-node") }, Text: "(shared with C01-step) node hash = keccak(left ‖ right) from a hasher of its own; zero-hash recurrence"},
			{ID: "C08-frontier-mem", Floor: 9, Run: shared("C08-frontier-mem", c07TxMem), Text: "(shared with C07 TX-mem) a rolled-back block leaves no sibling in the frontier cache; the callbacks registered on a transaction run"},
			{ID: "C08-store", Floor: 9, Run: c08Store, Text: "[DOM]+SQL: every path node stored; ErrNotFound only for sql.ErrNoRows; last root by (block_num, block_position)"},
			{ID: "C08-pair", Floor: 3, Run: c08Pair, Text: "[PROV] (index, root) pairs passed to proof generation belong together"},
		},
	})
}

// nilPreserving: g(err error) error returns its parameter, or a package-level sentinel on an errors.Is(param, …) edge
// (which implies param != nil): the result is nil exactly when the parameter is.
func nilPreserving(g *ssa.Function) bool {
	if g.Blocks == nil || len(g.Params) != 1 || g.Signature.Results().Len() != 1 {
		return false
	}
	sx := core.NewSymx().Bind(g.Params[0], "ERR")
	isErr := core.TermEdges(g, sx, func(s string, _ *core.Term) bool { return strings.HasPrefix(s, "errors.Is(ERR, ") }, true)
	n := 0
	for _, rc := range core.ReturnCases(g) {
		if len(rc.Values) != 1 {
			return false
		}
		n++
		t := sx.Of(rc.Values[0])
		switch {
		case t.String() == "ERR":
		case t.Op == "global" && len(isErr) > 0 && rc.ReachableOnlyVia(g, isErr):
		default:
			return false
		}
	}
	return n > 0
}
