package rules

import (
	"encoding/hex"
	"fmt"
	"go/token"
	"go/types"
	"regexp"
	"sort"
	"strings"

	"golang.org/x/crypto/sha3"
	"golang.org/x/tools/go/ssa"

	"verif/checker/internal/core"
)

const (
	bindV2 = "github.com/0xPolygon/cdk-contracts-tooling/contracts/pp/l2-sovereign-chain/polygonzkevmbridgev2"
	bindV1 = "github.com/0xPolygon/cdk-contracts-tooling/contracts/fep/etrog/polygonzkevmbridge"
)

var dataIdxRe = regexp.MustCompile(`data\[const\((\d+)\)\]`)

func abiMethod(abi []core.ABIEntry, name string) *core.ABIEntry {
	for i := range abi {
		if abi[i].Type == "function" && abi[i].Name == name {
			return &abi[i]
		}
	}
	return nil
}

func inputIndex(m *core.ABIEntry, name string) int {
	for i, in := range m.Inputs {
		if in.Name == name {
			return i
		}
	}
	return -1
}

func selectorOf(sig string) string {
	h := sha3.NewLegacyKeccak256()
	h.Write([]byte(sig))
	return hex.EncodeToString(h.Sum(nil)[:4])
}

// dataIndexes returns the set of data[k] positions a value is derived from.
func dataIndexes(t *core.Term) []int {
	seen := map[int]bool{}
	for _, m := range dataIdxRe.FindAllStringSubmatch(t.String(), -1) {
		var k int
		fmt.Sscan(m[1], &k)
		seen[k] = true
	}
	var out []int
	for k := range seen {
		out = append(out, k)
	}
	sort.Ints(out)
	return out
}

func c20ABI(c *core.Ctx) {
	const rule = "C20-abi"
	type gen struct {
		fn, bind  string
		giName    string
		fieldName map[string]string // Claim field -> ABI input name
	}
	gens := []gen{
		{"decodeEtrogCalldata", bindV2, "globalIndex", map[string]string{
			"ProofLocalExitRoot": "smtProofLocalExitRoot", "ProofRollupExitRoot": "smtProofRollupExitRoot",
			"MainnetExitRoot": "mainnetExitRoot", "RollupExitRoot": "rollupExitRoot", "DestinationNetwork": "destinationNetwork", "Metadata": "metadata"}},
		{"decodePreEtrogCalldata", bindV1, "index", map[string]string{
			"ProofLocalExitRoot": "smtProof",
			"MainnetExitRoot":    "mainnetExitRoot", "RollupExitRoot": "rollupExitRoot", "DestinationNetwork": "destinationNetwork", "Metadata": "metadata"}},
	}
	sx := core.NewSymx()
	for _, g := range gens {
		fn := c.MustFn(rule, "bridgesync", "Claim", g.fn)
		if fn == nil {
			continue
		}
		abi, err := c.BindingABI(g.bind)
		if err != nil {
			c.Undecide(rule, "bridgesync.(*Claim)."+g.fn+"#abi", fn.Pos(), "cannot read the bridge ABI: "+err.Error())
			continue
		}
		asset, msg := abiMethod(abi, "claimAsset"), abiMethod(abi, "claimMessage")
		if asset == nil || msg == nil {
			c.Undecide(rule, "bridgesync.(*Claim)."+g.fn+"#abi", fn.Pos(), "claimAsset/claimMessage not in the ABI")
			continue
		}
		pos := func(name string) (int, bool) {
			a, m := inputIndex(asset, name), inputIndex(msg, name)
			return a, a >= 0 && a == m
		}
		// stores into the claim
		got := map[string][]int{}
		core.Instrs(fn, func(i ssa.Instruction) {
			st, ok := i.(*ssa.Store)
			if !ok {
				return
			}
			a := sx.Of(st.Addr)
			if a.Op == "field" && len(a.Args) == 1 && a.Args[0].String() == "c" {
				got[a.Name] = append(got[a.Name], dataIndexes(sx.Of(st.Val))...)
			}
		})
		names := make([]string, 0, len(g.fieldName))
		for k := range g.fieldName {
			names = append(names, k)
		}
		sort.Strings(names)
		for _, f := range names {
			want, okPos := pos(g.fieldName[f])
			ks := got[f]
			ok := okPos && len(ks) >= 1
			for _, k := range ks {
				if k != want {
					ok = false
				}
			}
			c.Decide(ok, rule, fmt.Sprintf("bridgesync.(*Claim).%s#%s", g.fn, f), fn.Pos(), fmt.Sprintf("claim.%s ← data%v; ABI position of %s = %d (same in claimAsset and claimMessage: %v)", f, ks, g.fieldName[f], want, okPos))
		}
		// the global index compared is the ABI's
		want, okPos := pos(g.giName)
		cmpIdx := []int{}
		for _, b := range fn.Blocks {
			if iff, ok := b.Instrs[len(b.Instrs)-1].(*ssa.If); ok {
				t := sx.Of(iff.Cond)
				if strings.Contains(t.String(), "(*math/big.Int).Cmp(") && strings.Contains(t.String(), "c.GlobalIndex") {
					cmpIdx = append(cmpIdx, dataIndexes(t)...)
				}
			}
		}
		c.Decide(okPos && len(cmpIdx) == 1 && cmpIdx[0] == want, rule, fmt.Sprintf("bridgesync.(*Claim).%s#globalIndex", g.fn), fn.Pos(), fmt.Sprintf("the index compared with the event's is data%v; ABI position of %s = %d", cmpIdx, g.giName, want))
	}
	// selectors
	sel := map[string]string{}
	if sp := c.SSA[core.P("bridgesync")]; sp != nil {
		if initFn := sp.Func("init"); initFn != nil {
			core.Instrs(initFn, func(i ssa.Instruction) {
				st, ok := i.(*ssa.Store)
				if !ok {
					return
				}
				g, ok := st.Addr.(*ssa.Global)
				if !ok || !strings.HasSuffix(g.Name(), "MethodID") {
					return
				}
				t := sx.Of(st.Val).String()
				if m := regexp.MustCompile(`Hex2Bytes\(const\("([0-9a-fA-F]+)"\)\)`).FindStringSubmatch(t); m != nil {
					sel[g.Name()] = strings.ToLower(m[1])
				}
			})
		}
	}
	for _, s := range []struct{ global, bind, method string }{
		{"claimAssetEtrogMethodID", bindV2, "claimAsset"}, {"claimMessageEtrogMethodID", bindV2, "claimMessage"},
		{"claimAssetPreEtrogMethodID", bindV1, "claimAsset"}, {"claimMessagePreEtrogMethodID", bindV1, "claimMessage"},
	} {
		abi, err := c.BindingABI(s.bind)
		if err != nil {
			c.Undecide(rule, "bridgesync."+s.global, 0, err.Error())
			continue
		}
		m := abiMethod(abi, s.method)
		if m == nil {
			c.Undecide(rule, "bridgesync."+s.global, 0, "method not in ABI")
			continue
		}
		want := selectorOf(m.Signature())
		c.Decide(sel[s.global] == want, rule, "bridgesync."+s.global, 0, fmt.Sprintf("selector %s; keccak(%s)[:4] = %s", sel[s.global], m.Signature(), want))
	}
	// dispatch: each generation's selectors go with its ABI and decoder
	td := c.MustFn(rule, "bridgesync", "Claim", "tryDecodeClaimCalldata")
	if td != nil {
		tbl := c20TableOf(td, sx)
		for _, d := range []struct{ dec, meta string }{
			{"decodeEtrogCalldata", "polygonzkevmbridgev2.Polygonzkevmbridgev2MetaData"},
			{"decodePreEtrogCalldata", "polygonzkevmbridge.PolygonzkevmbridgeMetaData"},
		} {
			calls := core.CallsTo(td, "(*bridgesync.Claim)."+d.dec)
			if len(calls) == 0 && tbl != nil && tbl.metaPhi != nil {
				// table form: every row that picks this decoder picks this metadata and is entered under a selector of
				// this generation; the shared tail unpacks with the picked metadata and hands the result to the picked decoder
				gen := "Etrog"
				if d.dec == "decodePreEtrogCalldata" {
					gen = "PreEtrog"
				}
				n, ok := 0, true
				for _, r := range tbl.rows {
					if r.dec != d.dec {
						continue
					}
					n++
					okSel := r.sel == "claimAsset"+gen+"MethodID" || r.sel == "claimMessage"+gen+"MethodID"
					ok = ok && okSel && strings.HasSuffix(r.meta, d.meta)
				}
				sb := core.NewSymx().Bind(tbl.metaPhi, "META")
				a := tbl.decCall.Call.Args
				data := sb.Of(a[1]).String()
				ok = ok && n == 2 && len(a) == 2 && strings.Contains(data, "GetAbi(META)") && strings.Contains(data, ").Unpack(") && strings.Contains(data, "input[const(4):]") &&
					strings.Contains(data, ").MethodById(") && sb.Of(a[0]).String() == "senderAddr"
				c.Decide(ok, rule, "bridgesync.(*Claim).tryDecodeClaimCalldata#"+d.dec, td.Pos(), d.dec+" (picked together with "+d.meta+" under its own selectors) receives the inputs unpacked with the method looked up by id in that metadata: "+data)
				continue
			}
			ok := len(calls) == 1
			if ok {
				a := core.AsCall(calls[0]).Args
				data := sx.Of(a[2]).String()
				ok = strings.Contains(data, d.meta) && strings.Contains(data, ").Unpack(") && strings.Contains(data, "input[const(4):]") &&
					strings.Contains(data, ").MethodById(") && sx.Of(a[1]).String() == "senderAddr" && sx.Of(a[0]).String() == "c"
			}
			c.Decide(ok, rule, "bridgesync.(*Claim).tryDecodeClaimCalldata#"+d.dec, td.Pos(), d.dec+" receives the inputs unpacked with the method looked up by id in "+d.meta)
		}
	}
}

// c20Row is one row of the table-driven form of tryDecodeClaimCalldata: a switch over the selector picks the contract
// metadata, the decoder (a bound method value) and the message flag together, and one shared tail unpacks and decodes.
type c20Row struct {
	sel     string // the selector global compared on the way into this row
	meta    string // term of the metadata picked
	dec     string // decodeEtrogCalldata / decodePreEtrogCalldata
	isMsg   ssa.Value
	hasFlag bool
}

type c20Table struct {
	rows    []c20Row
	decCall *ssa.Call // the call through the picked decoder
	metaPhi *ssa.Phi
	flagPhi *ssa.Phi
}

// c20TableOf recognises the table-driven form; nil when tryDecodeClaimCalldata calls its decoders directly.
func c20TableOf(td *ssa.Function, sx *core.Symx) *c20Table {
	var t *c20Table
	core.Instrs(td, func(i ssa.Instruction) {
		cl, ok := i.(*ssa.Call)
		if !ok || cl.Call.IsInvoke() || t != nil {
			return
		}
		dphi, ok := cl.Call.Value.(*ssa.Phi)
		if !ok {
			return
		}
		var rows []c20Row
		for _, e := range dphi.Edges {
			mc, ok := e.(*ssa.MakeClosure)
			if !ok || len(mc.Bindings) != 1 || sx.Of(mc.Bindings[0]).String() != "c" {
				return
			}
			name := strings.TrimSuffix(mc.Fn.Name(), "$bound")
			if name != "decodeEtrogCalldata" && name != "decodePreEtrogCalldata" {
				return
			}
			rows = append(rows, c20Row{dec: name})
		}
		t = &c20Table{rows: rows, decCall: cl}
		// sibling Phis of the same block: metadata and the message flag
		for _, ins := range dphi.Block().Instrs {
			ph, ok := ins.(*ssa.Phi)
			if !ok || ph == dphi {
				continue
			}
			switch {
			case isBoolType(ph.Type()):
				t.flagPhi = ph
				for k := range rows {
					t.rows[k].isMsg, t.rows[k].hasFlag = ph.Edges[k], true
				}
			case strings.HasSuffix(ph.Type().String(), "bind.MetaData"):
				t.metaPhi = ph
				for k := range rows {
					t.rows[k].meta = sx.Of(ph.Edges[k]).String()
				}
			}
		}
		// the selector compared on the way into each row
		for k, pred := range dphi.Block().Preds {
			for _, g := range []string{"claimAssetEtrogMethodID", "claimMessageEtrogMethodID", "claimAssetPreEtrogMethodID", "claimMessagePreEtrogMethodID"} {
				edges := core.TermEdges(td, sx, func(s string, _ *core.Term) bool {
					return strings.HasPrefix(s, "bytes.Equal(input[:const(4)], ") && strings.Contains(s, "."+g+")")
				}, true)
				first := pred.Instrs[0]
				if len(edges) > 0 && core.ReachableWithout(core.Entry(td), edges, func(x ssa.Instruction) bool { return x == first }) == nil {
					t.rows[k].sel = g
				}
			}
		}
	})
	return t
}

func isBoolType(t types.Type) bool {
	b, ok := t.Underlying().(*types.Basic)
	return ok && b.Kind() == types.Bool
}

func c20Match(c *core.Ctx) {
	const rule = "C20-match"
	c20ProofCodec(c, rule)
	sx := core.NewSymx()
	for _, name := range []string{"decodeEtrogCalldata", "decodePreEtrogCalldata"} {
		fn := c.MustFn(rule, "bridgesync", "Claim", name)
		if fn == nil {
			continue
		}
		same := core.TermEdges(fn, sx, func(s string, _ *core.Term) bool {
			return strings.HasPrefix(s, "((*math/big.Int).Cmp(") && strings.HasSuffix(s, ", c.GlobalIndex) != const(0))")
		}, false)
		same = append(same, core.TermEdges(fn, sx, func(s string, _ *core.Term) bool {
			return strings.HasPrefix(s, "((*math/big.Int).Cmp(") && strings.HasSuffix(s, ", c.GlobalIndex) == const(0))")
		}, true)...)
		okRet := len(same) > 0
		for _, rc := range core.ReturnCases(fn) {
			if len(rc.Values) == 2 && isConstBool(rc.Values[0], true) {
				okRet = okRet && rc.ReachableOnlyVia(fn, same)
			} else if len(rc.Values) == 2 && !isConstBool(rc.Values[0], false) {
				okRet = false
			}
		}
		c.Decide(okRet, rule, "bridgesync.(*Claim)."+name+"#found-only-on-index-match", fn.Pos(), "found=true only when the call's global index equals the event's")
		// nothing is written into the claim before the match
		var firstStore ssa.Instruction
		core.Instrs(fn, func(i ssa.Instruction) {
			if st, ok := i.(*ssa.Store); ok && firstStore == nil {
				a := sx.Of(st.Addr)
				if a.Op == "field" && len(a.Args) == 1 && a.Args[0].String() == "c" {
					f := core.ReachableWithout(core.Entry(fn), same, func(x ssa.Instruction) bool { return x == i })
					if f != nil {
						firstStore = i
					}
				}
			}
		})
		c.Decide(firstStore == nil, rule, "bridgesync.(*Claim)."+name+"#no-write-before-match", fn.Pos(), "claim fields are written only after the index matched (a non-matching call leaves the claim untouched)")
	}
	td := c.MustFn(rule, "bridgesync", "Claim", "tryDecodeClaimCalldata")
	if td != nil {
		if tbl := c20TableOf(td, sx); tbl != nil && tbl.flagPhi != nil {
			// table form: IsMessage ← the flag picked with the decoder, stored only past found == true, and the flag of each
			// row says whether the selector that row was entered under is the claimMessage selector (of the row's generation)
			found := core.ExtractOf(tbl.decCall, 0)
			edges := core.BoolEdges(td, found, true)
			var stores []*ssa.Store
			core.Instrs(td, func(i ssa.Instruction) {
				if st, ok := i.(*ssa.Store); ok && sx.Of(st.Addr).String() == "c.IsMessage" {
					stores = append(stores, st)
				}
			})
			for k, r := range tbl.rows {
				gen := "Etrog"
				if r.dec == "decodePreEtrogCalldata" {
					gen = "PreEtrog"
				}
				ok := len(stores) == 1 && stores[0].Val == ssa.Value(tbl.flagPhi) && len(edges) > 0 &&
					core.ReachableWithout(core.Entry(td), edges, func(x ssa.Instruction) bool { return x == ssa.Instruction(stores[0]) }) == nil
				ok = ok && r.hasFlag && (isConstBool(r.isMsg, true) && r.sel == "claimMessage"+gen+"MethodID" || isConstBool(r.isMsg, false) && r.sel == "claimAsset"+gen+"MethodID")
				c.Decide(ok, rule, fmt.Sprintf("bridgesync.(*Claim).tryDecodeClaimCalldata#IsMessage-row%d", k+1), td.Pos(),
					fmt.Sprintf("row entered under %s picks %s and flag %s; IsMessage ← the picked flag, only when that decoder found the claim", r.sel, r.dec, sx.Of(r.isMsg)))
			}
			return
		}
		n := 0
		core.Instrs(td, func(i ssa.Instruction) {
			st, ok := i.(*ssa.Store)
			if !ok || sx.Of(st.Addr).String() != "c.IsMessage" {
				return
			}
			n++
			v := sx.Of(st.Val).String()
			var dec string
			if strings.Contains(v, "claimMessageEtrogMethodID") {
				dec = "decodeEtrogCalldata"
			} else if strings.Contains(v, "claimMessagePreEtrogMethodID") {
				dec = "decodePreEtrogCalldata"
			}
			ok2 := dec != "" && strings.HasPrefix(v, "bytes.Equal(input[:const(4)], ")
			if ok2 {
				calls := core.CallsTo(td, "(*bridgesync.Claim)."+dec)
				ok2 = len(calls) == 1
				if ok2 {
					found := core.ExtractOf(calls[0].(*ssa.Call), 0)
					edges := core.BoolEdges(td, found, true)
					ok2 = len(edges) > 0 && core.ReachableWithout(core.Entry(td), edges, func(x ssa.Instruction) bool { return x == i }) == nil
				}
			}
			c.Decide(ok2, rule, fmt.Sprintf("bridgesync.(*Claim).tryDecodeClaimCalldata#IsMessage-%d", n), st.Pos(), "IsMessage ← (selector == claimMessage selector of that generation), only when that decoder found the claim: "+v)
		})
		if n != 2 {
			c.Violate(rule, "bridgesync.(*Claim).tryDecodeClaimCalldata#IsMessage", td.Pos(), fmt.Sprintf("expected 2 assignments of IsMessage, found %d", n))
		}
	}
}

// c20FreshFrame: the trace of THIS transaction is decoded into a frame nothing was decoded into before. encoding/json
// leaves fields whose keys are absent untouched (geth omits "error" on successful frames and "calls" on leaves), so a
// reused frame keeps the previous transaction's revert marker or children.
func c20FreshFrame(c *core.Ctx, rule string) {
	fn := c.MustFn(rule, "bridgesync", "Claim", "setClaimCalldata")
	if fn == nil {
		return
	}
	var trace *ssa.CallCommon
	var at ssa.Instruction
	core.Instrs(fn, func(i ssa.Instruction) {
		cc := core.AsCall(i)
		if cc != nil && cc.IsInvoke() && cc.Method.Name() == "Call" && len(cc.Args) >= 2 {
			if s, ok := core.ConstString(cc.Args[1]); ok && s == "debug_traceTransaction" {
				trace, at = cc, i
			} else if g, isG := cc.Args[1].(*ssa.UnOp); isG && strings.Contains(g.X.Name(), "debugTraceTxEndpoint") {
				trace, at = cc, i
			}
		}
	})
	if trace == nil {
		c.Undecide(rule, "bridgesync.(*Claim).setClaimCalldata#trace-call", fn.Pos(), "debug_traceTransaction call not found")
		return
	}
	dst := trace.Args[0]
	if mi, ok := dst.(*ssa.MakeInterface); ok {
		dst = mi.X
	}
	al, isAlloc := dst.(*ssa.Alloc)
	fresh := isAlloc
	if isAlloc {
		// no store into the frame before the trace call (zero value only)
		for _, r := range *al.Referrers() {
			if ri, ok := r.(ssa.Instruction); ok && ri != at {
				switch x := r.(type) {
				case *ssa.Store:
					if x.Addr == ssa.Value(al) && core.Dominates(x, at) {
						if _, isLit := x.Val.(*ssa.Const); !isLit {
							fresh = false
						}
					}
				}
			}
		}
	}
	c.Decide(fresh, rule, "bridgesync.(*Claim).setClaimCalldata#fresh-frame", at.Pos(), "the trace is decoded into a frame allocated by this call (not pooled / reused)")
}

func c20Revert(c *core.Ctx) {
	const rule = "C20-revert"
	c20FreshFrame(c, rule)
	fn := c.MustFn(rule, "bridgesync", "", "findCall")
	if fn == nil {
		return
	}
	sx := core.NewSymx()
	// the frame taken off the work list: stack.Pop(), or an element load from a []call work list that the loop carries
	// (`cur := pending[last]; pending = pending[:last]` … `pending = append(pending, child)`)
	var pop ssa.Instruction
	isPush := func(i ssa.Instruction) bool { return strings.HasSuffix(core.CallName(i), "stack.Stack).Push") }
	core.Instrs(fn, func(i ssa.Instruction) {
		if strings.HasSuffix(core.CallName(i), "stack.Stack).Pop") {
			pop = i
		}
	})
	popMark := "Pop("
	if pop == nil {
		var work *ssa.Phi
		core.Instrs(fn, func(i ssa.Instruction) {
			ld, ok := i.(*ssa.UnOp)
			if !ok || ld.Op != token.MUL || pop != nil {
				return
			}
			ia, ok := ld.X.(*ssa.IndexAddr)
			if !ok {
				return
			}
			ph, ok := ia.X.(*ssa.Phi)
			if !ok || !isCallSlice(ph.Type()) {
				return
			}
			pop, work = ld, ph
		})
		if work != nil {
			sx.Bind(pop.(ssa.Value), "FRAME")
			popMark = "FRAME"
			isPush = func(i ssa.Instruction) bool {
				cl, ok := i.(*ssa.Call)
				if !ok {
					return false
				}
				b, isB := cl.Call.Value.(*ssa.Builtin)
				return isB && b.Name() == "append" && isCallSlice(cl.Type())
			}
		}
	}
	if pop == nil {
		c.Undecide(rule, "bridgesync.findCall#pop", fn.Pos(), "no stack pop")
		return
	}
	okFrame := core.TermEdges(fn, sx, func(s string, _ *core.Term) bool {
		return strings.HasSuffix(s, ".Err != const(nil))") && strings.Contains(s, popMark) && !strings.Contains(s, ".Calls[")
	}, false)
	if len(okFrame) == 0 {
		c.Violate(rule, "bridgesync.findCall#frame-not-reverted", fn.Pos(), "the popped frame's Err is not tested")
		return
	}
	isUse := func(i ssa.Instruction) bool {
		cc := core.AsCall(i)
		if cc != nil && !cc.IsInvoke() {
			if p, ok := cc.Value.(*ssa.Parameter); ok && len(fn.Params) > 2 && p == fn.Params[2] {
				return true
			}
		}
		if r, ok := i.(*ssa.Return); ok && len(r.Results) == 2 && !isNilConst(r.Results[0]) {
			return true
		}
		if i != nil && isPush(i) {
			// pushing children (not the root push before the loop)
			return core.Dominates(pop, i)
		}
		return false
	}
	f := core.ReachableWithout(core.After(pop), okFrame, isUse)
	c.Decide(f == nil, rule, "bridgesync.findCall#frame-not-reverted", pop.Pos(), "a frame is offered to the callback, returned, or expanded into its children only past `currentCall.Err == nil` — so every visited frame and all its ancestors are non-reverted")
	// exhausted search → not found
	okNF := false
	for _, r := range core.Returns(fn) {
		if len(r.Results) == 2 && isNilConst(r.Results[0]) && sx.Of(r.Results[1]).String() == "db.ErrNotFound" {
			okNF = true
		}
	}
	c.Decide(okNF, rule, "bridgesync.findCall#not-found", fn.Pos(), "an exhausted search returns db.ErrNotFound")
	// only calls addressed to the bridge are offered
	toBridge := core.TermEdges(fn, sx, func(s string, _ *core.Term) bool { return strings.HasSuffix(s, ".To == targetAddr)") }, true)
	f2 := core.ReachableWithout(core.After(pop), toBridge, func(i ssa.Instruction) bool {
		cc := core.AsCall(i)
		if cc != nil && !cc.IsInvoke() {
			if p, ok := cc.Value.(*ssa.Parameter); ok && len(fn.Params) > 2 && p == fn.Params[2] {
				return true
			}
		}
		return false
	})
	c.Decide(len(toBridge) > 0 && f2 == nil, rule, "bridgesync.findCall#only-bridge-calls", pop.Pos(), "the callback sees only frames whose To is the bridge address")
	// setClaimCalldata: reverted root refused; search error propagated
	sc := c.MustFn(rule, "bridgesync", "Claim", "setClaimCalldata")
	if sc != nil {
		rootErr := core.TermEdges(sc, sx, func(s string, _ *core.Term) bool { return strings.HasSuffix(s, ".Err != const(nil))") }, true)
		ok := len(rootErr) > 0
		for _, e := range rootErr {
			start := core.Point{B: e.B.Succs[e.Succ], I: 0}
			if (&core.Walk{Target: func(i ssa.Instruction) bool { return core.IsCallTo(i, "bridgesync.findCall") }}).From(start, nil) != nil {
				ok = false
			}
		}
		okRet := false
		for _, r := range core.Returns(sc) {
			if strings.HasPrefix(sx.Of(r.Results[0]).String(), "bridgesync.findCall(") && strings.HasSuffix(sx.Of(r.Results[0]).String(), "#1") {
				okRet = true
			}
		}
		c.Decide(ok && okRet, rule, "bridgesync.(*Claim).setClaimCalldata#root-and-result", sc.Pos(), "a reverted root call is refused; the search's error (incl. not found) is returned")
	}
}

// isCallSlice: []bridgesync.call
func isCallSlice(t types.Type) bool {
	sl, ok := t.Underlying().(*types.Slice)
	if !ok {
		return false
	}
	n, ok := sl.Elem().(*types.Named)
	return ok && n.Obj().Name() == "call" && n.Obj().Pkg() != nil && strings.HasSuffix(n.Obj().Pkg().Path(), "/bridgesync")
}

// c20ProofCodec: the two proofs of a claim are stored as text and read back with common.HexToHash, which left-pads. Each
// sibling must therefore be written as its full 32-byte hex (Hash.Hex / Hash.String / hexutil.Encode of the whole
// array): a sibling written without its trailing zero bytes comes back shifted.
func c20ProofCodec(c *core.Ctx, rule string) {
	w := c.MustFn(rule, "db", "MerkleProofMeddler", "PreWrite")
	r := c.MustFn(rule, "db", "MerkleProofMeddler", "PostRead")
	if w == nil || r == nil {
		return
	}
	sx := core.NewSymx()
	full, partial := 0, []string{}
	core.Instrs(w, func(i ssa.Instruction) {
		cl, ok := i.(*ssa.Call)
		if !ok {
			return
		}
		n := core.CallName(cl)
		t := sx.Of(cl).String()
		if !strings.Contains(t, "typeassert") && !strings.Contains(t, "fieldPtr") {
			return
		}
		switch {
		case n == "(github.com/ethereum/go-ethereum/common.Hash).Hex" || n == "(github.com/ethereum/go-ethereum/common.Hash).String":
			full++
		case n == "github.com/ethereum/go-ethereum/common/hexutil.Encode":
			if sl, isSl := cl.Call.Args[0].(*ssa.Slice); isSl && sl.Low == nil && sl.High == nil {
				full++
			} else {
				partial = append(partial, t)
			}
		case strings.Contains(n, "Trim") && strings.Contains(n, "go-ethereum/common"):
			partial = append(partial, t)
		}
	})
	c.Decide(full > 0 && len(partial) == 0, rule, "db.MerkleProofMeddler.PreWrite#full-hex", w.Pos(), fmt.Sprintf("every sibling is written as its full 32-byte hex (partial encodings: %v)", partial))
	okRead := false
	core.Instrs(r, func(i ssa.Instruction) {
		if core.IsCallTo(i, "github.com/ethereum/go-ethereum/common.HexToHash") {
			okRead = true
		}
	})
	c.Decide(okRead, rule, "db.MerkleProofMeddler.PostRead#hex", r.Pos(), "siblings are read back with common.HexToHash")
}

func c20Error(c *core.Ctx) {
	const rule = "C20-error"
	c05Append(c, rule) // (shared with C05-retry) "no matching non-reverted call" is an error that is retried, never a skipped log
	sx := core.NewSymx()
	for _, h := range []string{"buildClaimEventHandler", "buildClaimEventHandlerPreEtrog"} {
		fn := c.MustFn(rule, "bridgesync", "", h)
		if fn == nil || len(fn.AnonFuncs) != 1 {
			continue
		}
		cl := fn.AnonFuncs[0]
		var set *ssa.Call
		core.Instrs(cl, func(i ssa.Instruction) {
			if core.IsCallTo(i, "(*bridgesync.Claim).setClaimCalldata") {
				set, _ = i.(*ssa.Call)
			}
		})
		if set == nil {
			c.Violate(rule, "bridgesync."+h+"#calldata", cl.Pos(), "the claim handler no longer fetches the claim calldata")
			continue
		}
		okE := core.NilEdgesRes(cl, set, true)
		okE = append(okE, core.TermEdges(cl, sx, func(s string, _ *core.Term) bool { return s == "syncFullClaims" }, false)...)
		var emit ssa.Instruction
		core.Instrs(cl, func(i ssa.Instruction) {
			if st, ok := i.(*ssa.Store); ok && strings.HasSuffix(sx.Of(st.Addr).String(), ".Events") {
				emit = i
			}
		})
		f := core.ReachableWithout(core.Entry(cl), okE, func(i ssa.Instruction) bool { return i == emit })
		c.Decide(emit != nil && f == nil, rule, "bridgesync."+h+"#record-only-after-calldata", set.Pos(), "the claim is recorded only when setClaimCalldata returned nil (or full claims are not synced)")
		// the claim decoded is the one built from this event; tx hash of the log
		a := set.Call.Args
		c.Decide(sx.Of(a[3]).String() == "l.TxHash" && sx.Of(a[2]).String() == "bridgeAddr", rule, "bridgesync."+h+"#trace-args", set.Pos(), "the trace is fetched for the log's transaction and searched for calls to the bridge")
		handlerEmits(c, rule, "bridgesync."+h, cl)
	}
}

func init() {
	register(&Property{
		ID:          "C20",
		Level:       "other",
		Explanation: "Decides the structural necessary conditions of 'claim details come only from the matching, non-reverted bridge call': C20-abi — the data[i] position used for every claim field and for the compared global index equals the position of the named input in claimAsset and claimMessage of the bridge ABI read from the binding package (the oracle is the contract interface, not a frozen number), the four method selectors equal keccak(signature)[:4] computed from the same ABI, and each generation's decoder receives the inputs unpacked with its own ABI; C20-match — a decoder returns found=true only on the edge where the decoded index equals the event's (big.Int Cmp == 0), writes nothing into the claim before that, and IsMessage is assigned only when found, from the selector comparison of the same generation; C20-revert — in findCall a popped frame is offered to the callback, returned, or expanded into children only past its Err == nil test (inductively: every visited frame and its ancestors are non-reverted), only frames addressed to the bridge reach the callback, an exhausted search returns ErrNotFound, and setClaimCalldata refuses a reverted root and propagates the search error; C20-error — the handlers record the claim only after setClaimCalldata returned nil. ABI decoding itself (go-ethereum) is trusted. Added after round 7: the trace is decoded into a frame of this call (C20-revert), proof siblings are stored as full 32-byte hex (C20-match), a failed appender is retried, never skipped (C20-error).",
		Rules: []Rule{
			{ID: "C20-abi", Floor: 18, Run: c20ABI, Text: "[FIELDMAP] vs ABI: data positions, selectors, decoder/ABI pairing"},
			{ID: "C20-match", Floor: 8, Run: c20Match, Text: "[DOM] found only on index match; no writes before; IsMessage only when found"},
			{ID: "C20-revert", Floor: 5, Run: c20Revert, Text: "[DOM] inductive non-reverted traversal; only bridge frames; not-found; root refused"},
			{ID: "C20-error", Floor: 7, Run: c20Error, Text: "[DOM] claim recorded only after its calldata was found"},
		},
	})
}
