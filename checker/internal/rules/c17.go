package rules

import (
	"fmt"
	"strings"

	"golang.org/x/tools/go/ssa"

	"verif/checker/internal/core"
)

// cmpEdges returns the edges on which `a <= b` holds, whichever way the comparison is written.
func leEdges(fn *ssa.Function, sx *core.Symx, a, b string) []core.IfEdge {
	forms := []struct {
		s    string
		want bool
	}{
		{"(" + a + " <= " + b + ")", true}, {"(" + b + " >= " + a + ")", true},
		{"(" + a + " > " + b + ")", false}, {"(" + b + " < " + a + ")", false},
	}
	var out []core.IfEdge
	for _, f := range forms {
		out = append(out, core.TermEdges(fn, sx, func(s string, _ *core.Term) bool { return s == f.s }, f.want)...)
	}
	return out
}

func c17Filter(c *core.Ctx) {
	const rule = "C17-filter"
	fn := c.MustFn(rule, "aggsender/types", "CertificateBuildParams", "Range")
	if fn == nil {
		return
	}
	sx := core.NewSymx()
	// the new certificate literal
	als := allocsOfType(fn, "types.CertificateBuildParams")
	if len(als) != 1 {
		c.Undecide(rule, "types.(*CertificateBuildParams).Range#literal", fn.Pos(), "new certificate literal not found")
		return
	}
	nc := als[0]
	lit := sx.Of(nc)
	want := map[string]string{"FromBlock": "fromBlock", "ToBlock": "toBlock"}
	for _, f := range []string{"CreatedAt", "RetryCount", "LastSentCertificate", "AggchainProof", "L1InfoTreeRootFromWhichToProve", "L1InfoTreeLeafCount", "CertificateType"} {
		want[f] = "c." + f
	}
	checkFields(c, rule, "types.(*CertificateBuildParams).Range#new", nc.Pos(), lit, want)
	// filters
	for _, kind := range []string{"Bridges", "Claims"} {
		elem := "c." + kind + rangeElemIdx
		if kind == "Bridges" {
			for _, b := range fn.Blocks {
				if iff, ok := b.Instrs[len(b.Instrs)-1].(*ssa.If); ok {
					core.Debugf("C17-filter cond: %s", sx.Of(iff.Cond))
				}
			}
		}
		lower := leEdges(fn, sx, "fromBlock", elem+".BlockNum")
		upper := leEdges(fn, sx, elem+".BlockNum", "toBlock")
		// the append into newCert.<kind>
		var app *ssa.Call
		var appStore *ssa.Store
		core.Instrs(fn, func(i ssa.Instruction) {
			st, ok := i.(*ssa.Store)
			if !ok {
				return
			}
			fa, ok := st.Addr.(*ssa.FieldAddr)
			if !ok || fa.X != ssa.Value(nc) || sx.Of(fa).Name != kind {
				return
			}
			if call, ok := st.Val.(*ssa.Call); ok {
				if b, ok := call.Call.Value.(*ssa.Builtin); ok && b.Name() == "append" {
					app, appStore = call, st
				}
			}
		})
		construct := "types.(*CertificateBuildParams).Range#filter-" + kind
		localAcc := false
		if app == nil {
			// the kept elements are collected in a local slice that becomes the field afterwards: the value stored into
			// the field is, through the Phis of the loop, a fresh empty slice extended by exactly one append
			var fieldVal ssa.Value
			core.Instrs(fn, func(i ssa.Instruction) {
				if st, ok := i.(*ssa.Store); ok {
					if fa, ok := st.Addr.(*ssa.FieldAddr); ok && fa.X == ssa.Value(nc) && sx.Of(fa).Name == kind {
						fieldVal = st.Val
					}
				}
			})
			if fieldVal != nil {
				seen := map[ssa.Value]bool{}
				var apps []*ssa.Call
				fresh := true
				var back func(v ssa.Value)
				back = func(v ssa.Value) {
					if seen[v] {
						return
					}
					seen[v] = true
					switch x := v.(type) {
					case *ssa.Phi:
						for _, e := range x.Edges {
							back(e)
						}
					case *ssa.Call:
						if b, ok := x.Call.Value.(*ssa.Builtin); ok && b.Name() == "append" && len(x.Call.Args) == 2 {
							apps = append(apps, x)
							back(x.Call.Args[0])
							return
						}
						fresh = false
					case *ssa.MakeSlice:
						if k, ok := core.ConstInt(x.Len); !ok || k != 0 {
							fresh = false
						}
					case *ssa.ChangeType:
						back(x.X)
					default:
						fresh = false
					}
				}
				back(fieldVal)
				if fresh && len(apps) == 1 {
					app, localAcc = apps[0], true
				}
			}
		}
		if app == nil {
			c.Violate(rule, construct, fn.Pos(), "no append into the new certificate's "+kind)
			continue
		}
		// appended value: exactly the element, onto the new certificate's own slice
		appArgs := sx.Of(app.Call.Args[1]).String()
		ownSlice := localAcc
		if u, ok := app.Call.Args[0].(*ssa.UnOp); ok {
			if fa, ok := u.X.(*ssa.FieldAddr); ok && fa.X == ssa.Value(nc) && sx.Of(fa).Name == kind {
				ownSlice = true
			}
		}
		okVal := strings.Contains(appArgs, "{[const(0)]: "+elem+"}") && ownSlice
		okLower := len(lower) > 0 && core.ReachableWithout(core.Entry(fn), lower, func(i ssa.Instruction) bool { return i == ssa.Instruction(app) }) == nil
		okUpper := len(upper) > 0 && core.ReachableWithout(core.Entry(fn), upper, func(i ssa.Instruction) bool { return i == ssa.Instruction(app) }) == nil
		// nothing else filters: from the edge where both bounds hold, the loop cannot advance without appending
		kept := ssa.Instruction(appStore)
		if localAcc {
			kept = app
		}
		okOnly := true
		for _, e := range upper {
			// only consider the upper-bound test taken after the lower bound held (or vice versa): start after both
			start := core.Point{B: e.B.Succs[e.Succ], I: 0}
			if core.ReachableWithout(core.Entry(fn), lower, func(i ssa.Instruction) bool { return i == firstInstr(start) }) != nil {
				continue
			}
			skip := (&core.Walk{Stop: func(i ssa.Instruction) bool { return i == kept }, Target: func(i ssa.Instruction) bool {
				// advancing the range index or returning
				if _, isRet := i.(*ssa.Return); isRet {
					return true
				}
				if p, isPhi := i.(*ssa.Phi); isPhi && p.Comment == "rangeindex" {
					return true
				}
				return false
			}}).From(start, nil)
			if skip != nil {
				okOnly = false
			}
		}
		// also when the lower test comes second
		for _, e := range lower {
			start := core.Point{B: e.B.Succs[e.Succ], I: 0}
			if core.ReachableWithout(core.Entry(fn), upper, func(i ssa.Instruction) bool { return i == firstInstr(start) }) != nil {
				continue
			}
			skip := (&core.Walk{Stop: func(i ssa.Instruction) bool { return i == kept }, Target: func(i ssa.Instruction) bool {
				if _, isRet := i.(*ssa.Return); isRet {
					return true
				}
				if p, isPhi := i.(*ssa.Phi); isPhi && p.Comment == "rangeindex" {
					return true
				}
				return false
			}}).From(start, nil)
			if skip != nil {
				okOnly = false
			}
		}
		hasRange := false
		for _, b := range fn.Blocks {
			if iff, ok := b.Instrs[len(b.Instrs)-1].(*ssa.If); ok && sx.Of(iff.Cond).String() == "((loop{const(-1)} + const(1)) < len(c."+kind+"))" {
				hasRange = true
			}
		}
		c.Decide(okVal && okLower && okUpper && okOnly && hasRange, rule, construct, app.Pos(),
			fmt.Sprintf("an element of c.%s (ranged in order) is kept iff fromBlock <= BlockNum <= toBlock, and the kept value is the element itself (value=%v lower=%v upper=%v nothing-else=%v range=%v)", kind, okVal, okLower, okUpper, okOnly, hasRange))
	}
	// precondition: a new certificate is produced only for c.FromBlock <= fromBlock <= toBlock <= c.ToBlock
	p1 := leEdges(fn, sx, "c.FromBlock", "fromBlock")
	p2 := leEdges(fn, sx, "fromBlock", "toBlock")
	p3 := leEdges(fn, sx, "toBlock", "c.ToBlock")
	okPre := true
	for _, es := range [][]core.IfEdge{p1, p2, p3} {
		if len(es) == 0 || core.ReachableWithout(core.Entry(fn), es, func(i ssa.Instruction) bool { return i == ssa.Instruction(nc) }) != nil {
			okPre = false
		}
	}
	c.Decide(okPre, rule, "types.(*CertificateBuildParams).Range#precondition", nc.Pos(), "a sub-range is built only when c.FromBlock <= fromBlock <= toBlock <= c.ToBlock")
	// the unchanged receiver is returned only for the identical range
	eqF := core.TermEdges(fn, sx, func(s string, _ *core.Term) bool {
		return s == "(c.FromBlock == fromBlock)" || s == "(fromBlock == c.FromBlock)"
	}, true)
	eqT := core.TermEdges(fn, sx, func(s string, _ *core.Term) bool {
		return s == "(c.ToBlock == toBlock)" || s == "(toBlock == c.ToBlock)"
	}, true)
	okSame := true
	for _, rc := range core.ReturnCases(fn) {
		if len(rc.Values) == 2 && isNilConst(rc.Values[1]) && sx.Of(rc.Values[0]).String() == "c" {
			okSame = okSame && rc.ReachableOnlyVia(fn, eqF) && rc.ReachableOnlyVia(fn, eqT)
		}
	}
	c.Decide(okSame, rule, "types.(*CertificateBuildParams).Range#identity", fn.Pos(), "the receiver itself is returned only for exactly its own range")
}

func c17First(c *core.Ctx) {
	const rule = "C17-first"
	sx := core.NewSymx()
	n := 0
	for _, cs := range c.AllCallsTo("(*aggsender/types.CertificateBuildParams).Range") {
		n++
		a := core.AsCall(cs.Instr).Args
		recv, from := sx.Of(a[0]).String(), sx.Of(a[1]).String()
		ok := from == recv+".FromBlock"
		if strings.HasPrefix(recv, "loop{") || strings.HasPrefix(recv, "phi{") {
			// loop-carried certificate (limitCertSize): compare on the SSA value
			sb := core.NewSymx().Bind(a[0], "CERT")
			ok = sb.Of(a[1]).String() == "CERT.FromBlock"
		}
		c.Decide(ok, rule, "call-Range@"+core.ShortFn(cs.Fn), cs.Instr.Pos(), "a cut keeps the certificate's first block: Range(cert.FromBlock, …), got "+from)
	}
	if n < 3 {
		c.Undecide(rule, "call-Range", 0, fmt.Sprintf("expected at least 3 callers of Range, found %d", n))
	}
}

// c17Typed: EstimatedSize depends on the certificate type (an FEP certificate carries the proof and per-claim data); the
// parameters that are measured and cut by limitCertSize must already carry the type the certificate will have.
func c17Typed(c *core.Ctx, rule string) {
	fn := c.MustFn(rule, "aggsender/flows", "baseFlow", "GetCertificateBuildParamsInternal")
	if fn == nil {
		return
	}
	sx := core.NewSymx()
	n := 0
	core.Instrs(fn, func(i ssa.Instruction) {
		if !core.IsCallTo(i, "(*aggsender/flows.baseFlow).limitCertSize") {
			return
		}
		n++
		arg := sx.Of(i.(*ssa.Call).Call.Args[1])
		f := arg.Fields["CertificateType"]
		// the field must be part of the value at the time of the call: its store dominates the call
		dominated := false
		if al, ok := i.(*ssa.Call).Call.Args[1].(*ssa.Alloc); ok {
			for _, r := range *al.Referrers() {
				if fa, isFA := r.(*ssa.FieldAddr); isFA && fieldNameOf(fa) == "CertificateType" {
					for _, r2 := range *fa.Referrers() {
						if st, isSt := r2.(*ssa.Store); isSt && core.Dominates(st, i) {
							dominated = true
						}
					}
				}
			}
		}
		c.Decide(arg.Op == "lit" && f != nil && f.String() == "certType" && dominated, rule, "flows.(*baseFlow).GetCertificateBuildParamsInternal#typed-before-cut", i.Pos(),
			"the parameters handed to limitCertSize carry CertificateType ← certType")
	})
	if n == 0 {
		c.Violate(rule, "flows.(*baseFlow).GetCertificateBuildParamsInternal#typed-before-cut", fn.Pos(), "limitCertSize is no longer called")
	}
}

func c17Exit(c *core.Ctx) {
	const rule = "C17-exit"
	c17Typed(c, rule)
	fn := c.MustFn(rule, "aggsender/flows", "baseFlow", "limitCertSize")
	if fn == nil {
		return
	}
	var rng *ssa.Call
	core.Instrs(fn, func(i ssa.Instruction) {
		if core.IsCallTo(i, "(*aggsender/types.CertificateBuildParams).Range") {
			rng, _ = i.(*ssa.Call)
		}
	})
	if rng == nil {
		c.Violate(rule, "flows.(*baseFlow).limitCertSize#shrink", fn.Pos(), "limitCertSize no longer shrinks through Range")
		return
	}
	cur := rng.Call.Args[0]
	sx := core.NewSymx().Bind(cur, "CERT")
	c.Decide(sx.Of(rng.Call.Args[2]).String() == "(CERT.ToBlock - const(1))", rule, "flows.(*baseFlow).limitCertSize#shrink-step", rng.Pos(), "each step drops exactly the last block: "+sx.Of(rng.Call.Args[2]).String())
	// the loop variable is the parameter, then the result of the previous cut
	okLoop := false
	if phi, ok := cur.(*ssa.Phi); ok {
		okLoop = true
		plain := core.NewSymx()
		for _, e := range phi.Edges {
			if e != ssa.Value(fn.Params[1]) && e != core.ExtractOf(rng, 0) {
				okLoop = false
				_ = plain
			}
		}
	}
	c.Decide(okLoop, rule, "flows.(*baseFlow).limitCertSize#loop-variable", rng.Pos(), "the certificate being shrunk is the input, then each cut's result")
	fits := core.TermEdges(fn, sx, func(s string, _ *core.Term) bool {
		return s == "(f.cfg.MaxCertSize == const(0))" || s == "((*aggsender/types.CertificateBuildParams).EstimatedSize(CERT) <= f.cfg.MaxCertSize)"
	}, true)
	single := core.TermEdges(fn, sx, func(s string, _ *core.Term) bool {
		return s == "((*aggsender/types.CertificateBuildParams).NumberOfBlocks(CERT) <= const(1))"
	}, true)
	okRet := len(fits) >= 2 && len(single) == 1
	for _, rc := range core.ReturnCases(fn) {
		if len(rc.Values) != 2 || !isNilConst(rc.Values[1]) {
			continue
		}
		if v := sx.Of(rc.Values[0]).String(); v != "CERT" && rc.Values[0] != ssa.Value(fn.Params[1]) {
			okRet = false // neither the certificate being shrunk nor the untouched input
			continue
		}
		if !rc.ReachableOnlyVia(fn, append(append([]core.IfEdge{}, fits...), single...)) {
			okRet = false
		}
	}
	// every certificate the flow builds went through the limiter
	if gp := c.MustFn(rule, "aggsender/flows", "baseFlow", "GetCertificateBuildParamsInternal"); gp != nil {
		sg := core.NewSymx()
		okAll, nOK := true, 0
		for _, rc := range core.ReturnCases(gp) {
			if len(rc.Values) != 2 || !isNilConst(rc.Values[1]) {
				continue
			}
			nOK++
			if t := sg.Of(rc.Values[0]).String(); !strings.HasPrefix(t, "(*aggsender/flows.baseFlow).limitCertSize(") || !strings.HasSuffix(t, "#0") {
				okAll = false
			}
		}
		c.Decide(okAll && nOK > 0, rule, "flows.(*baseFlow).GetCertificateBuildParamsInternal#always-limited", gp.Pos(), "every successful result is what limitCertSize returned (retries included)")
	}
	c.Decide(okRet, rule, "flows.(*baseFlow).limitCertSize#exit", fn.Pos(), "a certificate is returned only when no limit is set, it fits, or it is down to one block")
	// a Range error aborts
	nilE := core.NilEdgesRes(fn, core.ErrValueOf(rng), true)
	var back ssa.Instruction
	if phi, ok := cur.(*ssa.Phi); ok {
		back = phi
	}
	_ = back
	c.Decide(len(nilE) > 0, rule, "flows.(*baseFlow).limitCertSize#range-error-checked", rng.Pos(), "a failed cut is reported")
	// last-block clamp
	ad := c.MustFn(rule, "aggsender/flows", "MaxL2BlockNumberLimiter", "AdaptCertificate")
	if ad != nil {
		sa := core.NewSymx()
		var r2 *ssa.Call
		core.Instrs(ad, func(i ssa.Instruction) {
			if core.IsCallTo(i, "(*aggsender/types.CertificateBuildParams).Range") {
				r2, _ = i.(*ssa.Call)
			}
		})
		if r2 == nil {
			c.Violate(rule, "flows.(*MaxL2BlockNumberLimiter).AdaptCertificate#clamp", ad.Pos(), "the last-block clamp no longer cuts through Range")
		} else {
			okArg := sa.Of(r2.Call.Args[2]).String() == "f.maxL2BlockNumber"
			allowed := core.TermEdges(ad, sa, func(s string, _ *core.Term) bool {
				return s == "(*aggsender/flows.MaxL2BlockNumberLimiter).IsAllowedBlockNumber(f, buildParams.ToBlock)"
			}, false)
			beyond := leEdges(ad, sa, "buildParams.FromBlock", "f.maxL2BlockNumber")
			okGuard := len(allowed) > 0 && core.ReachableWithout(core.Entry(ad), allowed, func(i ssa.Instruction) bool { return i == ssa.Instruction(r2) }) == nil &&
				len(beyond) > 0 && core.ReachableWithout(core.Entry(ad), beyond, func(i ssa.Instruction) bool { return i == ssa.Instruction(r2) }) == nil
			c.Decide(okArg && okGuard, rule, "flows.(*MaxL2BlockNumberLimiter).AdaptCertificate#clamp", r2.Pos(), "cut to exactly maxL2BlockNumber, only when ToBlock exceeds it and FromBlock does not")
			// untouched when allowed
			okSame := true
			for _, rc := range core.ReturnCases(ad) {
				if len(rc.Values) == 2 && isNilConst(rc.Values[1]) && sa.Of(rc.Values[0]).String() == "buildParams" {
					en := core.TermEdges(ad, sa, func(s string, _ *core.Term) bool {
						return s == "(*aggsender/flows.MaxL2BlockNumberLimiter).IsEnabled(f)"
					}, false)
					al := core.TermEdges(ad, sa, func(s string, _ *core.Term) bool {
						return s == "(*aggsender/flows.MaxL2BlockNumberLimiter).IsAllowedBlockNumber(f, buildParams.ToBlock)"
					}, true)
					okSame = okSame && rc.ReachableOnlyVia(ad, append(en, al...))
				}
			}
			c.Decide(okSame, rule, "flows.(*MaxL2BlockNumberLimiter).AdaptCertificate#untouched", ad.Pos(), "the parameters are returned unchanged only when the limiter is off or ToBlock is allowed")
		}
		ia := c.MustFn(rule, "aggsender/flows", "MaxL2BlockNumberLimiter", "IsAllowedBlockNumber")
		if ia != nil {
			ok := false
			for _, rc := range core.ReturnCases(ia) {
				if core.NewSymx().Of(rc.Values[0]).String() == "(toBlock <= f.maxL2BlockNumber)" {
					ok = true
				}
			}
			c.Decide(ok, rule, "flows.(*MaxL2BlockNumberLimiter).IsAllowedBlockNumber", ia.Pos(), "allowed ≡ toBlock <= maxL2BlockNumber (when enabled)")
		}
	}
}

// c17Gap: the touch/overlap test of BlockRange.Gap must not wrap at the ends of the uint64 range. Structural part:
// the branch conditions of Gap compare endpoints directly or through the saturating getBlockMinusOne helper — no
// +1 / -1 arithmetic on an endpoint inside a condition — and the helper subtracts only on the x > 0 edge.
// c17SettledRange: the range VerifyBlockRangeGaps compares the new certificate against is what is really settled: the last
// certificate's own [FromBlock, ToBlock] when it is not InError, and [0, FromBlock-1] (saturating) when it is — never an
// inverted range, which Gap would read as "far apart".
func c17SettledRange(c *core.Ctx, rule string) {
	fn := c.MustFn(rule, "aggsender/flows", "baseFlow", "VerifyBlockRangeGaps")
	if fn == nil {
		return
	}
	sx := core.NewSymx()
	var inErr *ssa.Call
	var gap *ssa.Call
	core.Instrs(fn, func(i ssa.Instruction) {
		cl, ok := i.(*ssa.Call)
		if !ok {
			return
		}
		switch {
		case strings.HasSuffix(core.CallName(cl), "CertificateStatus).IsInError") && strings.Contains(sx.Of(cl).String(), "lastSentCertificate.Status"):
			inErr = cl
		case core.CallName(cl) == "(aggsender/types.BlockRange).Gap":
			gap = cl
		}
	})
	construct := "flows.(*baseFlow).VerifyBlockRangeGaps#settled-range"
	if inErr == nil || gap == nil {
		c.Undecide(rule, construct, fn.Pos(), "IsInError test or the Gap call not found")
		return
	}
	rangeCall := gap
	errTrue, errFalse := core.BoolEdges(fn, inErr, true), core.BoolEdges(fn, inErr, false)
	sideOf := func(chain []phiEdge) string {
		side := ""
		for _, ce := range chain {
			pb := ce.phi.Block().Preds[ce.idx]
			for name, edges := range map[string][]core.IfEdge{"err": errTrue, "ok": errFalse} {
				for _, e := range edges {
					to := e.B.Succs[e.Succ]
					if len(to.Preds) == 1 && (pb == to || to.Dominates(pb)) {
						side = name
					}
				}
			}
		}
		return side
	}
	// the last-settled range is the argument of Gap: NewBlockRange(from, to) calls (or literals), merged by Phis; every
	// (from, to) leaf is judged on the side of the InError test it comes from
	type ends struct {
		from, to ssa.Value
		chain    []phiEdge
	}
	var rs []ends
	for _, lf := range phiLeaves(core.ResolveLoad(gap.Call.Args[1])) {
		v := lf.val
		if u, isLoad := v.(*ssa.UnOp); isLoad {
			v = core.ResolveLoad(u)
		}
		if nc, isCall := v.(*ssa.Call); isCall && core.CallName(nc) == "aggsender/types.NewBlockRange" {
			rs = append(rs, ends{nc.Call.Args[0], nc.Call.Args[1], lf.chain})
		}
	}
	ok := len(errTrue) > 0 && len(rs) > 0
	var got []string
	for _, r := range rs {
		for k, v := range []ssa.Value{r.from, r.to} {
			want := []struct{ err, other []string }{
				{[]string{"const(0)"}, []string{"lastSentCertificate.FromBlock"}},
				{[]string{"const(0)", "(lastSentCertificate.FromBlock - const(1))"}, []string{"lastSentCertificate.ToBlock"}},
			}[k]
			for _, lf := range phiLeaves(v) {
				t := sx.Of(lf.val).String()
				side := sideOf(append(append([]phiEdge{}, lf.chain...), r.chain...))
				got = append(got, fmt.Sprintf("arg%d:%s(side=%s)", k, t, side))
				in := func(list []string) bool {
					for _, w := range list {
						if t == w {
							return true
						}
					}
					return false
				}
				switch side {
				case "err":
					ok = ok && in(want.err)
				case "ok":
					ok = ok && in(want.other)
				default:
					ok = ok && in(want.err) && in(want.other) // not tied to a side: must be right on both
				}
			}
		}
	}
	// FromBlock-1 only behind FromBlock > 0
	pos := core.TermEdges(fn, sx, func(s string, _ *core.Term) bool {
		return s == "(lastSentCertificate.FromBlock > const(0))" || s == "(lastSentCertificate.FromBlock != const(0))"
	}, true)
	core.Instrs(fn, func(i ssa.Instruction) {
		if bo, isB := i.(*ssa.BinOp); isB && sx.Of(bo).String() == "(lastSentCertificate.FromBlock - const(1))" {
			if len(pos) == 0 || core.ReachableWithout(core.Entry(fn), pos, func(x ssa.Instruction) bool { return x == i }) != nil {
				ok = false
			}
		}
	})
	c.Decide(ok, rule, construct, rangeCall.Pos(), fmt.Sprintf("last settled range = [FromBlock, ToBlock] of a certificate that is not InError, [0, FromBlock-1] (saturating) of one that is: %v", got))
}

func c17Gap(c *core.Ctx) {
	const rule = "C17-gap"
	c17SettledRange(c, rule)
	sx := core.NewSymx()
	g := c.MustFn(rule, "aggsender/types", "BlockRange", "Gap")
	if g != nil {
		var bad []string
		n := 0
		for _, b := range g.Blocks {
			iff, ok := b.Instrs[len(b.Instrs)-1].(*ssa.If)
			if !ok {
				continue
			}
			n++
			t := sx.Of(iff.Cond)
			t.Walk(func(x *core.Term) {
				if x.Op == "binop" && (x.Name == "+" || x.Name == "-") {
					bad = append(bad, t.String())
				}
			})
		}
		c.Decide(len(bad) == 0 && n >= 2, rule, "types.BlockRange.Gap#conditions-do-not-wrap", g.Pos(), fmt.Sprintf("no endpoint arithmetic inside the touch/overlap and ordering tests (offending: %v)", bad))
		// an empty range is returned for touching/overlapping ranges: the first return of the zero range is reached only
		// through both >= edges on the saturating predecessor
		touch1 := core.TermEdges(g, sx, func(s string, _ *core.Term) bool {
			return s == "(b.ToBlock >= aggsender/types.getBlockMinusOne(other.FromBlock))"
		}, true)
		touch2 := core.TermEdges(g, sx, func(s string, _ *core.Term) bool {
			return s == "(other.ToBlock >= aggsender/types.getBlockMinusOne(b.FromBlock))"
		}, true)
		ok := len(touch1) > 0 && len(touch2) > 0
		zero := 0
		for _, rc := range core.ReturnCases(g) {
			t := sx.Of(rc.Values[0])
			if t.Op == "const" || (t.Op == "lit" && len(t.Fields) == 0) || strings.HasPrefix(t.String(), "const(zero:") || t.Op == "alloc" {
				zero++
				ok = ok && rc.ReachableOnlyVia(g, touch1) && rc.ReachableOnlyVia(g, touch2)
			}
		}
		c.Decide(ok && zero == 1, rule, "types.BlockRange.Gap#empty-iff-touching", g.Pos(), "the empty gap is returned exactly on the edge where each range's end reaches the other's start minus one (saturating)")
	}
	m := c.MustFn(rule, "aggsender/types", "", "getBlockMinusOne")
	if m != nil {
		pos := core.TermEdges(m, sx, func(s string, _ *core.Term) bool {
			return s == "(fromBlock > const(0))" || s == "(fromBlock != const(0))"
		}, true)
		ok := len(pos) > 0
		var got []string
		for _, rc := range core.ReturnCases(m) {
			switch sx.Of(rc.Values[0]).String() {
			case "(fromBlock - const(1))":
				ok = ok && rc.ReachableOnlyVia(m, pos)
			case "const(0)":
			case "(builtin.max(fromBlock, const(1)) - const(1))", "(builtin.max(const(1), fromBlock) - const(1))":
				// max(x, 1) >= 1: the subtraction cannot wrap, and the result is 0 exactly for x in {0, 1}
				ok = true
			default:
				got = append(got, sx.Of(rc.Values[0]).String())
				ok = false
			}
		}
		c.Decide(ok, rule, "types.getBlockMinusOne#saturating", m.Pos(), fmt.Sprintf("x-1 only when x > 0, otherwise 0 %v", got))
	}
}

func init() {
	register(&Property{
		ID:          "C17",
		Level:       "other",
		Explanation: "Decides the comparison-only part of 'cutting a certificate's block range never drops, duplicates or reorders events': C17-filter — in Range both filter loops range over the source slice in order and append the element itself iff fromBlock <= BlockNum <= toBlock (each append is dominated by both bound edges, and from the point where both hold the loop cannot advance without appending; the comparisons are recognised in all four written forms, so the result is exact for this comparison-only code), the new parameters take the requested bounds and copy every other field, a sub-range is built only for c.FromBlock <= fromBlock <= toBlock <= c.ToBlock and the receiver is returned only for its own range; C17-first — every caller of Range passes the certificate's own FromBlock; C17-exit — limitCertSize drops exactly the last block per step, iterates on each cut's result and returns only when no limit is set, the estimate fits, or one block is left; the last-block clamp cuts to exactly maxL2BlockNumber only when ToBlock exceeds it. C17-gap — the shape of BlockRange.Gap's touch test: no +1/-1 arithmetic on an endpoint inside a branch condition (endpoints are compared directly or through getBlockMinusOne), getBlockMinusOne subtracts only on its x > 0 edge and returns 0 otherwise, and the empty gap is returned exactly on the two >= edges against the saturating predecessor. Declined: maximality of the cut and monotonicity of EstimatedSize (float arithmetic), and the numeric values of the non-empty gap (needs a relational numeric domain or a solver, outside this family as practised here). C17-exit also requires every successful result of GetCertificateBuildParamsInternal to be what limitCertSize returned. Added after round 7: parameters are typed before limitCertSize measures them (C17-exit), the last-settled range handed to Gap is [FromBlock, ToBlock] or [0, FromBlock-1] by the InError edge (C17-gap).",
		Rules: []Rule{
			{ID: "C17-filter", Floor: 13, Run: c17Filter, Text: "[ORD]-style exact comparison analysis of the Range filters and precondition; literal field map"},
			{ID: "C17-first", Floor: 3, Run: c17First, Text: "[PROV] every cut keeps the first block"},
			{ID: "C17-gap", Floor: 4, Run: c17Gap, Text: "structure of the gap test: no wrapping arithmetic in conditions; saturating predecessor; empty iff touching (gap values not decided)"},
			{ID: "C17-exit", Floor: 9, Run: c17Exit, Text: "[DOM] shrink step, loop variable, exit conditions; last-block clamp"},
		},
	})
}
