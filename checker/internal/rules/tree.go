package rules

import (
	"fmt"
	"go/token"
	"go/types"
	"strings"

	"golang.org/x/tools/go/ssa"

	"verif/checker/internal/core"
)

// [TREE] Merkle-step orientation agreement (DESIGN.md section 3).
//
// Convention of the bridge / global-exit-root contracts (and of the verifier CalculateRoot): at level h, if bit h
// of the leaf index is set the running node is a RIGHT child (its sibling is the left operand / the node's Left),
// otherwise it is a LEFT child.

type levelLoop struct {
	fn       *ssa.Function
	iff      *ssa.If
	idx      ssa.Value
	h        ssa.Value // the level variable (conversions stripped)
	setBlk   *ssa.BasicBlock
	clrBlk   *ssa.BasicBlock
	cur      *ssa.Phi // running hash
	sx       *core.Symx
	problem  string
	hPhi     *ssa.Phi // the loop-carried counter (== h, or h-1 in the range form)
	maskForm bool     // the loop carries mask = 1<<h instead of h (top-down only)
}

// isShiftedMask: a loop Phi whose back edge is the Phi itself shifted right by one.
func isShiftedMask(p *ssa.Phi) bool {
	for k, e := range p.Edges {
		if !p.Block().Dominates(p.Block().Preds[k]) {
			continue
		}
		if shr, ok := stripConv(e).(*ssa.BinOp); ok && shr.Op == token.SHR && stripConv(shr.X) == ssa.Value(p) && constIs(shr.Y, 1) {
			return true
		}
	}
	return false
}

func stripConv(v ssa.Value) ssa.Value {
	for {
		c, ok := v.(*ssa.Convert)
		if !ok {
			return v
		}
		v = c.X
	}
}

func constIs(v ssa.Value, k int64) bool {
	c, ok := core.ConstInt(stripConv(v))
	return ok && c == k
}

// findLevelLoop locates the bit test `idx & (1<<h) {>,!=,==} 0` or `(idx>>h)&1 {==,!=} {0,1}`.
func findLevelLoop(fn *ssa.Function) *levelLoop {
	for _, b := range fn.Blocks {
		iff, ok := b.Instrs[len(b.Instrs)-1].(*ssa.If)
		if !ok {
			continue
		}
		v, pos := core.CondOf(iff.Cond)
		cmp, ok := v.(*ssa.BinOp)
		if !ok {
			continue
		}
		and, ok := stripConv(cmp.X).(*ssa.BinOp)
		if !ok || and.Op != token.AND {
			continue
		}
		var idx, h ssa.Value
		setWhenTrue := false
		okForm := false
		if shl, ok := stripConv(and.Y).(*ssa.BinOp); ok && shl.Op == token.SHL && constIs(shl.X, 1) {
			idx, h = and.X, shl.Y
			switch {
			case (cmp.Op == token.GTR || cmp.Op == token.NEQ) && constIs(cmp.Y, 0):
				setWhenTrue, okForm = true, true
			case cmp.Op == token.EQL && constIs(cmp.Y, 0):
				setWhenTrue, okForm = false, true
			}
		} else if shr, ok := stripConv(and.X).(*ssa.BinOp); ok && shr.Op == token.SHR && constIs(and.Y, 1) {
			idx, h = shr.X, shr.Y
			switch {
			case cmp.Op == token.EQL && constIs(cmp.Y, 1), cmp.Op == token.NEQ && constIs(cmp.Y, 0), cmp.Op == token.GTR && constIs(cmp.Y, 0):
				setWhenTrue, okForm = true, true
			case cmp.Op == token.EQL && constIs(cmp.Y, 0), cmp.Op == token.NEQ && constIs(cmp.Y, 1):
				setWhenTrue, okForm = false, true
			}
		}
		maskForm := false
		if !okForm {
			// `idx & mask` with a loop-carried one-bit mask that is shifted right once per level (mask = 1<<h, descending)
			for _, pr := range [][2]ssa.Value{{and.X, and.Y}, {and.Y, and.X}} {
				mp, isPhi := stripConv(pr[1]).(*ssa.Phi)
				if !isPhi || !isShiftedMask(mp) {
					continue
				}
				idx, h = pr[0], mp
				switch {
				case (cmp.Op == token.GTR || cmp.Op == token.NEQ) && constIs(cmp.Y, 0):
					setWhenTrue, okForm, maskForm = true, true, true
				case cmp.Op == token.EQL && constIs(cmp.Y, 0):
					setWhenTrue, okForm, maskForm = false, true, true
				}
			}
		}
		if !okForm {
			continue
		}
		ll := &levelLoop{fn: fn, iff: iff, idx: stripConv(idx), h: stripConv(h), maskForm: maskForm}
		condTrueIsSet := setWhenTrue == pos
		if condTrueIsSet {
			ll.setBlk, ll.clrBlk = b.Succs[0], b.Succs[1]
		} else {
			ll.setBlk, ll.clrBlk = b.Succs[1], b.Succs[0]
		}
		// the running hash: a Phi of 32-byte array type in the block of the level variable's Phi
		hp, ok := ll.h.(*ssa.Phi)
		if !ok {
			// `for h := range x` / `for h, s := range proof`: the level is phi{-1, …}+1
			if add, isAdd := ll.h.(*ssa.BinOp); isAdd && add.Op == token.ADD && constIs(add.Y, 1) {
				hp, ok = add.X.(*ssa.Phi)
			}
		}
		if !ok {
			ll.problem = "the level variable is not a loop variable"
			return ll
		}
		ll.hPhi = hp
		for _, ins := range hp.Block().Instrs {
			p, ok := ins.(*ssa.Phi)
			if !ok {
				break
			}
			if at, ok := p.Type().Underlying().(*types.Array); ok && at.Len() == 32 && p != hp {
				ll.cur = p
			}
		}
		if ll.cur == nil {
			ll.problem = "no running 32-byte hash variable in the level loop"
			return ll
		}
		ll.sx = core.NewSymx()
		ll.sx.ElideConv = true
		ll.sx.Bind(ll.h, "H").Bind(ll.cur, "CUR").Bind(ll.idx, "IDX")
		return ll
	}
	return nil
}

// loopRange checks that the level variable covers 0..31 (ascending) or 31..0 (descending).
func (ll *levelLoop) loopRange() (string, bool) {
	hp := ll.hPhi
	if ssa.Value(hp) != ll.h {
		// range form: the level is hp+1, hp starts at -1 and is stepped to the level itself; bound `level < 32`
		var init, step ssa.Value
		for k, e := range hp.Edges {
			if pb := hp.Block().Preds[k]; hp.Block().Dominates(pb) {
				step = e
			} else {
				init = e
			}
		}
		sx := core.NewSymx()
		sx.ElideConv = true
		sx.Bind(ll.h, "H")
		bound := ""
		if iff, ok := hp.Block().Instrs[len(hp.Block().Instrs)-1].(*ssa.If); ok {
			bound = sx.Of(iff.Cond).String()
		}
		ok := init != nil && constIs(init, -1) && step == ll.h && (bound == "(H < const(32))" || bound == "(H < len(proof))" && false)
		return fmt.Sprintf("range form: init=-1+1 step=+1 bound=%s", bound), ok
	}
	var init, step ssa.Value
	for k, e := range hp.Edges {
		if pb := hp.Block().Preds[k]; hp.Block().Dominates(pb) {
			step = e
		} else {
			init = e
		}
	}
	if init == nil || step == nil {
		return "cannot identify init/step of the level variable", false
	}
	sx := core.NewSymx()
	sx.ElideConv = true
	sx.Bind(hp, "H")
	// bound test
	bound := ""
	if iff, ok := hp.Block().Instrs[len(hp.Block().Instrs)-1].(*ssa.If); ok {
		bound = sx.Of(iff.Cond).String()
	}
	if ll.maskForm {
		// mask = 1<<31, 1<<30, …, 1: the 32 levels top-down; the loop ends when the bit is shifted out
		ok := constIs(init, 1<<31) && sx.Of(step).String() == "(H >> const(1))" && (bound == "(H != const(0))" || bound == "(H > const(0))")
		return fmt.Sprintf("mask form: init=%s step=%s bound=%s", sx.Of(init), sx.Of(step), bound), ok
	}
	desc := fmt.Sprintf("init=%s step=%s bound=%s", sx.Of(init), sx.Of(step), bound)
	up := constIs(init, 0) && sx.Of(step).String() == "(H + const(1))" && bound == "(H < const(32))"
	down := constIs(init, 31) && sx.Of(step).String() == "(H - const(1))" && bound == "(H >= const(0))"
	return desc, up || down
}

func inSide(b, side *ssa.BasicBlock) bool { return b == side || side.Dominates(b) }

// builderStep checks a bottom-up hashing step: on the bit-set edge hash(sibling[H], CUR), on the clear edge hash(CUR, sibling[H]).
func (ll *levelLoop) builderStep(hashCallee string, setArr, clrArr []string) (string, bool) {
	type pair struct{ a, b string }
	ifBlk := ll.iff.Block()
	exclusive := func(side *ssa.BasicBlock) bool { return len(side.Preds) == 1 }
	// resolve: the value a Phi takes when the level loop body was entered through `side`
	var resolve func(v ssa.Value, side *ssa.BasicBlock, d int) ssa.Value
	resolve = func(v ssa.Value, side *ssa.BasicBlock, d int) ssa.Value {
		phi, ok := v.(*ssa.Phi)
		if !ok || d > 4 || phi == ll.cur || phi == ll.hPhi {
			return v
		}
		var pick ssa.Value
		n := 0
		for k, e := range phi.Edges {
			pb := phi.Block().Preds[k]
			via := false
			switch {
			case pb == ifBlk:
				via = phi.Block() == side // direct edge of the bit test
			case exclusive(side) && inSide(pb, side):
				via = true
			}
			if via {
				if pick != e {
					n++
				}
				pick = e
			}
		}
		if n != 1 {
			return v
		}
		return resolve(pick, side, d+1)
	}
	hashArgs := func(call *ssa.Call) (a, b ssa.Value, ok bool) {
		if hashCallee == "github.com/ethereum/go-ethereum/crypto.Keccak256Hash" {
			sl, isS := call.Call.Args[0].(*ssa.Slice)
			if !isS {
				return nil, nil, false
			}
			arr, isA := sl.X.(*ssa.Alloc)
			if !isA {
				return nil, nil, false
			}
			vals := map[int64]ssa.Value{}
			for _, r := range *arr.Referrers() {
				if ia, isIA := r.(*ssa.IndexAddr); isIA {
					k, _ := core.ConstInt(ia.Index)
					for _, r2 := range *ia.Referrers() {
						if st, isSt := r2.(*ssa.Store); isSt && st.Addr == ssa.Value(ia) {
							vals[k] = st.Val
						}
					}
				}
			}
			if len(vals) != 2 {
				return nil, nil, false
			}
			strip := func(v ssa.Value) ssa.Value {
				if c, isC := v.(*ssa.Call); isC && strings.HasSuffix(core.CallName(c), "common.Hash).Bytes") {
					return c.Call.Args[0]
				}
				// x[:] of a local copy that is written once (`left := a; … left[:]`)
				if sl, isS := v.(*ssa.Slice); isS && sl.Low == nil && sl.High == nil {
					if al, isA := sl.X.(*ssa.Alloc); isA {
						var stored []ssa.Value
						for _, r := range *al.Referrers() {
							if st, isSt := r.(*ssa.Store); isSt && st.Addr == ssa.Value(al) {
								stored = append(stored, st.Val)
							}
						}
						if len(stored) == 1 {
							return stored[0]
						}
					}
				}
				return v
			}
			return strip(vals[0]), strip(vals[1]), true
		}
		return call.Call.Args[0], call.Call.Args[1], true
	}
	get := func(side, other *ssa.BasicBlock) []pair {
		var out []pair
		for _, b := range ll.fn.Blocks {
			if b != ifBlk && !ifBlk.Dominates(b) {
				continue
			}
			if exclusive(other) && inSide(b, other) {
				continue // only executed on the other edge
			}
			onlyThisSide := exclusive(side) && inSide(b, side)
			for _, ins := range b.Instrs {
				call, ok := ins.(*ssa.Call)
				if !ok || core.CallName(call) != hashCallee {
					continue
				}
				x, y, ok := hashArgs(call)
				if !ok {
					out = append(out, pair{"?", "?"})
					continue
				}
				if !onlyThisSide {
					x, y = resolve(x, side, 0), resolve(y, side, 0)
				}
				out = append(out, pair{ll.sx.Of(x).String(), ll.sx.Of(y).String()})
			}
		}
		return out
	}
	in := func(s string, arrs []string) bool {
		for _, a := range arrs {
			if s == a+"[H]" {
				return true
			}
		}
		return false
	}
	s, c := get(ll.setBlk, ll.clrBlk), get(ll.clrBlk, ll.setBlk)
	desc := fmt.Sprintf("bit set: %v; bit clear: %v", s, c)
	if len(s) != 1 || len(c) != 1 {
		return desc + " (expected exactly one node hash per edge)", false
	}
	ok := in(s[0].a, setArr) && s[0].b == "CUR" && c[0].a == "CUR" && in(c[0].b, clrArr)
	return desc, ok
}

// walkerStep checks a top-down descent: bit set → continue with node.Right, bit clear → node.Left.
func (ll *levelLoop) walkerStep() (string, bool) {
	var back ssa.Value
	for k, e := range ll.cur.Edges {
		if ll.cur.Block().Dominates(ll.cur.Block().Preds[k]) {
			back = e
		}
	}
	phi, ok := back.(*ssa.Phi)
	if !ok {
		return "the running hash is not updated from a two-way merge", false
	}
	var setV, clrV []string
	problem := ""
	var collect func(phi *ssa.Phi, d int)
	collect = func(phi *ssa.Phi, d int) {
		for k, e := range phi.Edges {
			p := phi.Block().Preds[k]
			s := ll.sx.Of(e).String()
			switch {
			case inSide(p, ll.setBlk) && len(ll.setBlk.Preds) == 1:
				setV = append(setV, s)
			case inSide(p, ll.clrBlk) && len(ll.clrBlk.Preds) == 1:
				clrV = append(clrV, s)
			default:
				// other paths into the merge (e.g. the not-found `continue` of getSiblings) keep CUR; a value merged
				// earlier (helper expanded in place) is looked into
				if inner, isPhi := e.(*ssa.Phi); isPhi && inner != ll.cur && d < 3 {
					collect(inner, d+1)
				} else if s != "CUR" {
					problem = "unexpected update of the running hash: " + s
				}
			}
		}
	}
	collect(phi, 0)
	if problem != "" {
		return problem, false
	}
	desc := fmt.Sprintf("bit set → %v; bit clear → %v", setV, clrV)
	isNode := func(s, f string) bool {
		return strings.HasPrefix(s, "(*tree.Tree).getRHTNode(") && strings.Contains(s, ", CUR)#0") && strings.HasSuffix(s, "#0."+f)
	}
	ok = len(setV) == 1 && len(clrV) == 1 && isNode(setV[0], "Right") && isNode(clrV[0], "Left")
	return desc, ok
}

// resolveSide: the value a Phi takes when the level loop body was entered through `side` (the other operands belong
// to the other edge of the bit test).
func (ll *levelLoop) resolveSide(v ssa.Value, side *ssa.BasicBlock, d int) ssa.Value {
	phi, ok := v.(*ssa.Phi)
	if !ok || d > 4 || phi == ll.cur || phi == ll.hPhi {
		return v
	}
	ifBlk := ll.iff.Block()
	exclusive := len(side.Preds) == 1
	var pick ssa.Value
	n := 0
	for k, e := range phi.Edges {
		pb := phi.Block().Preds[k]
		via := false
		switch {
		case pb == ifBlk:
			via = phi.Block() == side
		case exclusive && inSide(pb, side):
			via = true
		}
		if via {
			if pick != e {
				n++
			}
			pick = e
		}
	}
	if n != 1 {
		return v
	}
	return ll.resolveSide(pick, side, d+1)
}

// storesInto lists `arr[H] <- v` stores on a side (or anywhere when side is nil) as "arr <- v".
func (ll *levelLoop) storesInto(side *ssa.BasicBlock) []string {
	var out []string
	other := ll.clrBlk
	if side == ll.clrBlk {
		other = ll.setBlk
	}
	for _, b := range ll.fn.Blocks {
		onSide := side == nil || inSide(b, side) && len(side.Preds) == 1
		// a store after the two edges merged again carries a Phi: it counts for a side with the operand of that side
		merged := side != nil && !onSide && ll.iff.Block().Dominates(b) && !(len(other.Preds) == 1 && inSide(b, other)) && b != ll.iff.Block()
		// a merge that is also reached around the bit test (the `(zero, err)` exit of an expanded helper): accepted when
		// every operand of the stored Phi that does not come from one of the two sides cannot reach the store
		around := side != nil && !onSide && !merged && !ll.iff.Block().Dominates(b) && b != ll.iff.Block() &&
			!(len(other.Preds) == 1 && inSide(b, other)) && !(len(side.Preds) == 1 && inSide(b, side))
		if !onSide && !merged && !around {
			continue
		}
		for _, ins := range b.Instrs {
			st, ok := ins.(*ssa.Store)
			if !ok {
				continue
			}
			ia, ok := st.Addr.(*ssa.IndexAddr)
			if !ok {
				continue
			}
			if at, ok := st.Val.Type().Underlying().(*types.Array); !ok || at.Len() != 32 {
				continue
			}
			val := st.Val
			if around {
				phi, isPhi := val.(*ssa.Phi)
				if !isPhi {
					continue
				}
				okAll := true
				for k := range phi.Edges {
					pb := phi.Block().Preds[k]
					fromSide := func(sd *ssa.BasicBlock) bool {
						return pb == ll.iff.Block() && phi.Block() == sd || len(sd.Preds) == 1 && inSide(pb, sd)
					}
					if fromSide(ll.setBlk) || fromSide(ll.clrBlk) {
						continue
					}
					if core.PhiEdgeReaches(phi, k, func(x ssa.Instruction) bool { return x == ins }) {
						okAll = false
					}
				}
				if !okAll {
					continue
				}
			}
			if merged || around {
				r := ll.resolveSide(val, side, 0)
				if r == val {
					continue // not decided by the bit test
				}
				val = r
			}
			out = append(out, ll.sx.Of(ia).String()+" <- "+ll.sx.Of(val).String())
		}
	}
	return out
}

func treeObl(c *core.Ctx, rule, recv, name string, check func(ll *levelLoop) (string, bool)) {
	fn := c.MustFn(rule, "tree", recv, name)
	if fn == nil {
		return
	}
	label := "tree." + name
	if recv != "" {
		label = "tree.(*" + recv + ")." + name
	}
	ll := findLevelLoop(fn)
	if ll == nil {
		c.Violate(rule, label+"#bit-test", fn.Pos(), "no per-level test of the index bit found (`idx&(1<<h)` or `(idx>>h)&1`)")
		return
	}
	if ll.problem != "" {
		c.Undecide(rule, label+"#shape", ll.iff.Pos(), ll.problem)
		return
	}
	desc, ok := ll.loopRange()
	c.Decide(ok, rule, label+"#levels", ll.iff.Pos(), "walks all 32 levels with the variable used in the bit test: "+desc)
	desc, ok = check(ll)
	c.Decide(ok, rule, label+"#orientation", ll.iff.Pos(), desc)
}

func nodeOf(ll *levelLoop) string {
	return "(*tree.Tree).getRHTNode(t"
}

func treeAddLeaf(c *core.Ctx, rule string) {
	treeObl(c, rule, "AppendOnlyTree", "AddLeaf", func(ll *levelLoop) (string, bool) {
		d, ok := ll.builderStep("tree.newTreeNode", []string{"t.lastLeftCache"}, []string{"t.Tree.zeroHashes"})
		// the cache is written with the running hash on the bit-clear edge only
		s, cl := ll.storesInto(ll.setBlk), ll.storesInto(ll.clrBlk)
		okC := len(s) == 0 && len(cl) == 1 && cl[0] == "t.lastLeftCache[H] <- CUR"
		return d + fmt.Sprintf("; cache writes: set=%v clear=%v", s, cl), ok && okC
	})
}

func treeInitCache(c *core.Ctx, rule string) {
	treeObl(c, rule, "AppendOnlyTree", "initCache", func(ll *levelLoop) (string, bool) {
		d, ok := ll.walkerStep()
		// the left sibling at every level is remembered (frontier of an append-only tree)
		all := ll.storesInto(nil)
		okS := false
		for _, s := range all {
			if strings.HasSuffix(s, "[H] <- (*tree.Tree).getRHTNode(t.Tree, tx, CUR)#0.Left") {
				okS = true
			} else if strings.Contains(s, "[H] <- ") {
				return d + "; unexpected frontier write " + s, false
			}
		}
		// any other write into a 32-hash array (e.g. a "reverse the siblings" loop) must be dead code: the frontier is indexed
		// by level exactly as the walk fills it
		var live []string
		core.Instrs(ll.fn, func(i ssa.Instruction) {
			st, ok := i.(*ssa.Store)
			if !ok {
				return
			}
			ia, ok := st.Addr.(*ssa.IndexAddr)
			if !ok {
				return
			}
			if at, isArr := st.Val.Type().Underlying().(*types.Array); !isArr || at.Len() != 32 {
				return
			}
			if ll.sx.Of(ia.Index).String() == "H" {
				return
			}
			if !deadLoopAtEntry(st.Block()) {
				live = append(live, ll.sx.Of(ia).String()+" <- "+ll.sx.Of(st.Val).String())
			}
		})
		if len(live) > 0 {
			return d + fmt.Sprintf("; the frontier is rewritten outside the level walk: %v", live), false
		}
		return d + fmt.Sprintf("; frontier writes: %v", all), ok && okS
	})
}

func treeGetSiblings(c *core.Ctx, rule string) {
	treeObl(c, rule, "Tree", "getSiblings", func(ll *levelLoop) (string, bool) {
		d, ok := ll.walkerStep()
		s, cl := ll.storesInto(ll.setBlk), ll.storesInto(ll.clrBlk)
		okS := len(s) == 1 && strings.HasSuffix(s[0], "[H] <- (*tree.Tree).getRHTNode(t, tx, CUR)#0.Left") &&
			len(cl) == 1 && strings.HasSuffix(cl[0], "[H] <- (*tree.Tree).getRHTNode(t, tx, CUR)#0.Right")
		// zero hashes only on the not-found edge
		okZ := true
		for _, w := range ll.storesInto(nil) {
			if strings.HasSuffix(w, "<- t.zeroHashes[H]") {
				okZ = false
				nf := core.TermEdges(ll.fn, ll.sx, func(s string, t *core.Term) bool {
					if strings.HasPrefix(s, "errors.Is((*tree.Tree).getRHTNode(t, tx, CUR)#1, db.ErrNotFound)") {
						return true
					}
					// the error travelled through a merge with nil placeholders: errors.Is(nil, …) is false, so on the true
					// edge the operand is the lookup's error
					return t != nil && t.Op == "call" && t.Name == "errors.Is" && len(t.Args) == 2 &&
						core.NonNilAlts(t.Args[0]).String() == "(*tree.Tree).getRHTNode(t, tx, CUR)#1" && t.Args[1].String() == "db.ErrNotFound"
				}, true)
				var zst ssa.Instruction
				core.Instrs(ll.fn, func(i ssa.Instruction) {
					if st, ok := i.(*ssa.Store); ok && ll.sx.Of(st.Val).String() == "t.zeroHashes[H]" {
						zst = i
					}
				})
				if zst != nil && len(nf) > 0 && core.ReachableWithout(core.Entry(ll.fn), nf, func(i ssa.Instruction) bool { return i == zst }) == nil {
					okZ = true
				}
			}
		}
		return d + fmt.Sprintf("; sibling writes: set=%v clear=%v; zero hash only when the node is absent=%v", s, cl, okZ), ok && okS && okZ
	})
}

func treeGetLeaf(c *core.Ctx, rule string) {
	treeObl(c, rule, "Tree", "GetLeaf", func(ll *levelLoop) (string, bool) { return ll.walkerStep() })
}

func treeUpsert(c *core.Ctx, rule string) {
	treeObl(c, rule, "UpdatableTree", "UpsertLeaf", func(ll *levelLoop) (string, bool) {
		sib := ""
		core.Instrs(ll.fn, func(i ssa.Instruction) {
			if call, ok := i.(*ssa.Call); ok && core.CallName(call) == "(*tree.Tree).getSiblings" {
				if v := core.ExtractOf(call, 0); v != nil {
					ll.sx.Bind(v, "SIBLINGS")
					sib = "SIBLINGS"
					// the siblings are those of the same index under the last root
					plain := core.NewSymx()
					plain.ElideConv = true
					if a := plain.Of(call.Call.Args[2]).String(); a != plain.Of(ll.idx).String() {
						sib = "siblings-of-other-index:" + a
					}
				}
			}
		})
		d, ok := ll.builderStep("tree.newTreeNode", []string{sib}, []string{sib})
		return d + " (siblings = getSiblings(tx, IDX, last root))", ok && sib == "SIBLINGS"
	})
}

func treeCalcRoot(c *core.Ctx, rule string) {
	treeObl(c, rule, "", "CalculateRoot", func(ll *levelLoop) (string, bool) {
		return ll.builderStep("github.com/ethereum/go-ethereum/crypto.Keccak256Hash", []string{"proof"}, []string{"proof"})
	})
}

// deadLoopAtEntry: b lies in a `for init; cond; post` loop whose condition compares loop variables that start at constants
// and is false for those constants: the body never runs (the condition is evaluated before the first iteration).
func deadLoopAtEntry(b *ssa.BasicBlock) bool {
	for _, h := range b.Parent().Blocks {
		if !h.Dominates(b) || h == b {
			continue
		}
		iff, ok := h.Instrs[len(h.Instrs)-1].(*ssa.If)
		if !ok {
			continue
		}
		// b must be reached through the true edge only
		if !(h.Succs[0] == b || h.Succs[0].Dominates(b)) || len(h.Succs[0].Preds) != 1 {
			continue
		}
		bo, ok := iff.Cond.(*ssa.BinOp)
		if !ok {
			continue
		}
		initOf := func(v ssa.Value) (int64, bool) {
			if k, ok := core.ConstInt(v); ok {
				return k, true
			}
			ph, ok := v.(*ssa.Phi)
			if !ok || ph.Block() != h {
				return 0, false
			}
			var init ssa.Value
			n := 0
			for k, e := range ph.Edges {
				if !h.Dominates(h.Preds[k]) {
					init = e
					n++
				}
			}
			if n != 1 {
				return 0, false
			}
			return core.ConstInt(init)
		}
		x, okx := initOf(bo.X)
		y, oky := initOf(bo.Y)
		if !okx || !oky {
			continue
		}
		var holds bool
		switch bo.Op {
		case token.EQL:
			holds = x == y
		case token.NEQ:
			holds = x != y
		case token.LSS:
			holds = x < y
		case token.LEQ:
			holds = x <= y
		case token.GTR:
			holds = x > y
		case token.GEQ:
			holds = x >= y
		default:
			continue
		}
		if !holds {
			return true
		}
	}
	return false
}
