package rules

import (
	"fmt"
	"go/token"
	"go/types"
	"strings"

	"golang.org/x/tools/go/ssa"

	"verif/checker/internal/core"
)

// ---------------------------------------------------------------------------------------------
// [TX] transaction discipline (DESIGN.md section 3)

// txScope is one acquisition of a transaction inside a function.
type txScope struct {
	fn     *ssa.Function
	begin  *ssa.Call
	txVal  ssa.Value
	errVal ssa.Value
	txCell *ssa.Alloc
}

func hasMethod(t types.Type, name string) bool {
	ms := types.NewMethodSet(t)
	for i := 0; i < ms.Len(); i++ {
		if ms.At(i).Obj().Name() == name {
			return true
		}
	}
	return false
}

func isTxType(t types.Type) bool {
	return hasMethod(t, "Commit") && hasMethod(t, "Rollback") && hasMethod(t, "Exec")
}

// findTxScopes returns the begin sites of fn: calls returning (T, error) with T a transaction type.
func findTxScopes(fn *ssa.Function) []*txScope {
	var out []*txScope
	core.Instrs(fn, func(i ssa.Instruction) {
		call, ok := i.(*ssa.Call)
		if !ok {
			return
		}
		res := call.Call.Signature().Results()
		if res.Len() != 2 || !isTxType(res.At(0).Type()) {
			return
		}
		sc := &txScope{fn: fn, begin: call, txVal: core.ExtractOf(call, 0), errVal: core.ExtractOf(call, 1)}
		if sc.txVal != nil {
			for _, ref := range *sc.txVal.Referrers() {
				if st, ok := ref.(*ssa.Store); ok && st.Val == sc.txVal {
					if al, ok := st.Addr.(*ssa.Alloc); ok {
						sc.txCell = al
					}
				}
			}
		}
		out = append(out, sc)
	})
	return out
}

// isTx reports whether v denotes this scope's transaction (in fn or in one of its closures).
func (s *txScope) isTx(v ssa.Value) bool {
	return s.isTxD(v, 0)
}

func (s *txScope) isTxD(v ssa.Value, d int) bool {
	if v == nil || d > 12 {
		return false
	}
	if v == s.txVal {
		return true
	}
	switch x := v.(type) {
	case *ssa.MakeInterface:
		return s.isTxD(x.X, d+1)
	case *ssa.ChangeInterface:
		return s.isTxD(x.X, d+1)
	case *ssa.ChangeType:
		return s.isTxD(x.X, d+1)
	case *ssa.TypeAssert:
		return s.isTxD(x.X, d+1)
	case *ssa.Phi:
		for _, e := range x.Edges {
			if !s.isTxD(e, d+1) {
				return false
			}
		}
		return len(x.Edges) > 0
	case *ssa.UnOp:
		if x.Op != token.MUL {
			return false
		}
		switch a := x.X.(type) {
		case *ssa.Alloc:
			return s.txCell != nil && a == s.txCell && s.cellOnlyTx()
		case *ssa.FreeVar:
			b := bindingOf(a)
			return b != nil && s.txCell != nil && b == ssa.Value(s.txCell) && s.cellOnlyTx()
		}
	}
	return false
}

func (s *txScope) cellOnlyTx() bool {
	for _, ref := range *s.txCell.Referrers() {
		if st, ok := ref.(*ssa.Store); ok && st.Addr == ssa.Value(s.txCell) && st.Val != s.txVal {
			return false
		}
	}
	return true
}

// bindingOf maps a closure's free variable to the value bound at the (unique) MakeClosure site.
func bindingOf(fv *ssa.FreeVar) ssa.Value {
	fn := fv.Parent()
	idx := -1
	for i, f := range fn.FreeVars {
		if f == fv {
			idx = i
		}
	}
	if idx < 0 || fn.Parent() == nil {
		return nil
	}
	var out ssa.Value
	core.InstrsDeep(fn.Parent(), func(_ *ssa.Function, i ssa.Instruction) {
		if mc, ok := i.(*ssa.MakeClosure); ok && mc.Fn == ssa.Value(fn) && idx < len(mc.Bindings) {
			out = mc.Bindings[idx]
		}
	})
	// nested closure: the binding may itself be a free variable of the parent
	if fv2, ok := out.(*ssa.FreeVar); ok {
		return bindingOf(fv2)
	}
	return out
}

func methodName(cc *ssa.CallCommon) string {
	if cc == nil {
		return ""
	}
	if cc.IsInvoke() {
		return cc.Method.Name()
	}
	if f := cc.StaticCallee(); f != nil && f.Signature.Recv() != nil {
		return f.Name()
	}
	return ""
}

func recvOf(cc *ssa.CallCommon) ssa.Value {
	if cc.IsInvoke() {
		return cc.Value
	}
	if f := cc.StaticCallee(); f != nil && f.Signature.Recv() != nil && len(cc.Args) > 0 {
		return cc.Args[0]
	}
	return nil
}

// rollsBackParam: helper functions such as (*processor).rollbackTransaction(tx): every path calls Rollback on param i.
func rollsBackParam(f *ssa.Function, i int) bool {
	if f == nil || f.Blocks == nil || i >= len(f.Params) {
		return false
	}
	p := f.Params[i]
	isRb := func(ins ssa.Instruction) bool {
		cc := core.AsCall(ins)
		if cc == nil || methodName(cc) != "Rollback" {
			return false
		}
		r := recvOf(cc)
		for {
			switch x := r.(type) {
			case *ssa.ChangeInterface:
				r = x.X
				continue
			case *ssa.MakeInterface:
				r = x.X
				continue
			}
			break
		}
		return r == ssa.Value(p)
	}
	leak := (&core.Walk{Target: core.IsExit, Stop: isRb}).From(core.Entry(f), nil)
	has := false
	core.Instrs(f, func(ins ssa.Instruction) {
		if isRb(ins) {
			has = true
		}
	})
	return has && leak == nil
}

// closes: instruction ends the transaction on this path (Commit / Rollback, directly or through a helper).
func (s *txScope) closes(ins ssa.Instruction) bool {
	if _, isDefer := ins.(*ssa.Defer); isDefer {
		return false
	}
	cc := core.AsCall(ins)
	if cc == nil {
		return false
	}
	if n := methodName(cc); n == "Commit" || n == "Rollback" {
		if s.isTx(recvOf(cc)) {
			return true
		}
	}
	if f := cc.StaticCallee(); f != nil && f.Blocks != nil {
		for i, a := range cc.Args {
			if s.isTx(a) && rollsBackParam(f, i) {
				return true
			}
		}
	}
	return false
}

func (s *txScope) isCommit(ins ssa.Instruction) bool {
	cc := core.AsCall(ins)
	return cc != nil && methodName(cc) == "Commit" && s.isTx(recvOf(cc))
}

// deferGuard describes a deferred rollback.
type deferGuard struct {
	instr *ssa.Defer
	flag  *ssa.Alloc // nil = unconditional
	ok    bool
	why   string
	// nilFlag: the condition is `cell == nil` on a captured pointer/interface cell ("nothing stored yet"), instead of a
	// boolean flag being true
	nilFlag bool
	// disarmedBy: the boolean value that disarms the rollback (false for `shouldRollback`, true for `committed`)
	disarmedBy bool
}

// deferredRollback classifies a Defer instruction: does it guarantee Rollback of this tx at function exit
// (unconditionally, or exactly when a captured boolean flag is true)?
func (s *txScope) deferredRollback(d *ssa.Defer) *deferGuard {
	cc := &d.Call
	// defer tx.Rollback() / defer helper(tx)
	if n := methodName(cc); n == "Rollback" && s.isTx(recvOf(cc)) {
		return &deferGuard{instr: d, ok: true}
	}
	if f := cc.StaticCallee(); f != nil && f.Blocks != nil && d.Call.Value != nil {
		if _, isClosure := d.Call.Value.(*ssa.MakeClosure); !isClosure {
			for i, a := range cc.Args {
				if s.isTx(a) && rollsBackParam(f, i) {
					return &deferGuard{instr: d, ok: true}
				}
			}
			return nil
		}
	}
	mc, ok := d.Call.Value.(*ssa.MakeClosure)
	if !ok {
		return nil
	}
	cl := mc.Fn.(*ssa.Function)
	isRb := func(ins ssa.Instruction) bool { return s.closesRollback(ins) }
	has := false
	core.Instrs(cl, func(ins ssa.Instruction) {
		if isRb(ins) {
			has = true
		}
	})
	if !has {
		return nil
	}
	if (&core.Walk{Target: core.IsExit, Stop: isRb}).From(core.Entry(cl), nil) == nil {
		return &deferGuard{instr: d, ok: true}
	}
	// conditional: find the flag
	for _, fv := range cl.FreeVars {
		pt, isPtr := fv.Type().Underlying().(*types.Pointer)
		if !isPtr {
			continue
		}
		if b, isB := pt.Elem().Underlying().(*types.Basic); !isB || b.Kind() != types.Bool {
			continue
		}
		// either polarity: `if shouldRollback { rollback }` (disarmed by false) or `if committed { return }; rollback` (by true)
		isFlag := func(v ssa.Value) bool {
			u, ok := v.(*ssa.UnOp)
			return ok && u.Op == token.MUL && u.X == ssa.Value(fv)
		}
		disarmedBy, found := false, false
		for _, val := range []bool{false, true} {
			disarm := core.IfEdgesWhere(cl, isFlag, val)
			if len(disarm) == 0 {
				continue
			}
			if leak := (&core.Walk{Target: core.IsExit, Stop: isRb, EdgeOK: core.Forbid(disarm)}).From(core.Entry(cl), nil); leak == nil {
				disarmedBy, found = val, true
				break
			}
		}
		if !found {
			continue
		}
		// the closure must not write the flag
		for _, r := range *fv.Referrers() {
			if st, ok := r.(*ssa.Store); ok && st.Addr == ssa.Value(fv) {
				return &deferGuard{instr: d, why: "deferred closure writes the rollback flag"}
			}
		}
		al, _ := bindingOf(fv).(*ssa.Alloc)
		if al == nil {
			return &deferGuard{instr: d, why: "rollback flag is not a local variable"}
		}
		return &deferGuard{instr: d, flag: al, ok: true, disarmedBy: disarmedBy}
	}
	// conditional on a captured pointer / interface cell being nil ("the value only exists after a successful commit")
	for _, fv := range cl.FreeVars {
		pt, isPtr := fv.Type().Underlying().(*types.Pointer)
		if !isPtr {
			continue
		}
		switch pt.Elem().Underlying().(type) {
		case *types.Pointer, *types.Interface:
		default:
			continue
		}
		nonNil := core.IfEdgesWhere(cl, func(v ssa.Value) bool {
			x, trueMeansNil, ok := core.NilCheck(v)
			if !ok {
				return false
			}
			u, isLoad := x.(*ssa.UnOp)
			return isLoad && u.Op == token.MUL && u.X == ssa.Value(fv) && trueMeansNil
		}, false)
		nonNil = append(nonNil, core.IfEdgesWhere(cl, func(v ssa.Value) bool {
			x, trueMeansNil, ok := core.NilCheck(v)
			if !ok {
				return false
			}
			u, isLoad := x.(*ssa.UnOp)
			return isLoad && u.Op == token.MUL && u.X == ssa.Value(fv) && !trueMeansNil
		}, true)...)
		if len(nonNil) == 0 {
			continue
		}
		if leak := (&core.Walk{Target: core.IsExit, Stop: isRb, EdgeOK: core.Forbid(nonNil)}).From(core.Entry(cl), nil); leak != nil {
			continue
		}
		for _, r := range *fv.Referrers() {
			if st, ok := r.(*ssa.Store); ok && st.Addr == ssa.Value(fv) {
				return &deferGuard{instr: d, why: "deferred closure writes the cell its rollback depends on"}
			}
		}
		al, _ := bindingOf(fv).(*ssa.Alloc)
		if al == nil {
			return &deferGuard{instr: d, why: "the cell the rollback depends on is not a local variable"}
		}
		return &deferGuard{instr: d, flag: al, nilFlag: true, ok: true}
	}
	return &deferGuard{instr: d, why: "deferred closure rolls back only on some paths and the condition is neither a captured boolean flag nor a captured nil-able cell"}
}

func (s *txScope) closesRollback(ins ssa.Instruction) bool {
	cc := core.AsCall(ins)
	if cc == nil {
		return false
	}
	if methodName(cc) == "Rollback" && s.isTx(recvOf(cc)) {
		return true
	}
	if f := cc.StaticCallee(); f != nil && f.Blocks != nil {
		for i, a := range cc.Args {
			if s.isTx(a) && rollsBackParam(f, i) {
				return true
			}
		}
	}
	return false
}

// returnsTx: the function hands the open transaction to its caller (begin wrapper such as db.NewTx).
func (s *txScope) returnsTx() bool {
	found := false
	sx := core.NewSymx()
	for _, r := range core.Returns(s.fn) {
		for _, v := range r.Results {
			if s.isTx(v) {
				found = true
				continue
			}
			var contains func(t *core.Term, d int) bool
			contains = func(t *core.Term, d int) bool {
				if t == nil || d > 6 {
					return false
				}
				if t.Val != nil && s.isTx(t.Val) {
					return true
				}
				switch t.Op {
				case "lit":
					for _, f := range t.Fields {
						if contains(f, d+1) {
							return true
						}
					}
				case "phi":
					for _, a := range t.Args {
						if contains(a, d+1) {
							return true
						}
					}
				}
				return false
			}
			if contains(sx.Of(v), 0) {
				found = true
			}
		}
	}
	return found
}

// commitNilEdges: If edges on which Commit() of this tx returned nil.
func (s *txScope) commitNilEdges() []core.IfEdge {
	var out []core.IfEdge
	core.Instrs(s.fn, func(i ssa.Instruction) {
		if s.isCommit(i) {
			if cv, ok := i.(*ssa.Call); ok {
				out = append(out, core.NilEdgesRes(s.fn, cv, true)...)
			}
		}
	})
	return out
}

// ruleTxPair decides TX-pair for every tx scope of fn. Returns the number of scopes with an obligation.
func ruleTxPair(c *core.Ctx, rule string, fn *ssa.Function) int {
	n := 0
	for k, s := range findTxScopes(fn) {
		if s.txVal == nil || s.errVal == nil {
			c.Undecide(rule, fmt.Sprintf("%s#tx%d", core.ShortFn(fn), k+1), s.begin.Pos(), "transaction or error result of the begin call is dropped")
			n++
			continue
		}
		if s.returnsTx() {
			continue
		}
		n++
		c.FuncsSeen[fn.String()] = true
		construct := fmt.Sprintf("%s#tx%d", core.ShortFn(fn), k+1)
		okEdges := core.NilEdgesRes(fn, s.errVal, true)
		if len(okEdges) == 0 {
			c.Undecide(rule, construct, s.begin.Pos(), "cannot find the `err == nil` edge of the begin call")
			continue
		}
		var guards []*deferGuard
		var bad *deferGuard
		core.Instrs(fn, func(i ssa.Instruction) {
			if d, ok := i.(*ssa.Defer); ok {
				if g := s.deferredRollback(d); g != nil {
					if g.ok {
						guards = append(guards, g)
					} else {
						bad = g
					}
				}
			}
		})
		if bad != nil {
			c.Undecide(rule, construct, bad.instr.Pos(), bad.why)
			continue
		}
		isGuard := func(i ssa.Instruction) bool {
			for _, g := range guards {
				if ssa.Instruction(g.instr) == i {
					return true
				}
			}
			return false
		}
		violated := false
		for _, e := range okEdges {
			start := core.Point{B: e.B.Succs[e.Succ], I: 0}
			leak := (&core.Walk{Target: core.IsExit, Stop: func(i ssa.Instruction) bool { return s.closes(i) || isGuard(i) }}).From(start, nil)
			if leak != nil {
				c.Violate(rule, construct, leak.Instr.Pos(), fmt.Sprintf("a path from the successful begin reaches this exit without Commit, Rollback or a registered deferred rollback (%s)", core.PathStr(leak)))
				violated = true
				break
			}
		}
		if violated {
			continue
		}
		// flag discipline
		commitNil := s.commitNilEdges()
		flagOK := true
		for _, g := range guards {
			if g.flag == nil {
				continue
			}
			if g.nilFlag {
				// the cell is nil when the defer is registered and receives a non-nil value only after a nil Commit
				for _, ref := range *g.flag.Referrers() {
					st, ok := ref.(*ssa.Store)
					if !ok || st.Addr != ssa.Value(g.flag) {
						continue
					}
					for _, lf := range phiLeaves(st.Val) {
						if isNilConst(lf.val) {
							continue
						}
						var f *core.Found
						if lf.phi == nil {
							f = (&core.Walk{EdgeOK: core.Forbid(commitNil), Target: func(i ssa.Instruction) bool { return i == ssa.Instruction(st) }}).From(core.Entry(fn), nil)
						} else {
							pred, to := lf.phi.Block().Preds[lf.idx], lf.phi.Block()
							f = (&core.Walk{EdgeOK: core.Forbid(commitNil), TargetEdge: func(from *ssa.BasicBlock, si int) bool { return from == pred && from.Succs[si] == to }}).From(core.Entry(fn), nil)
						}
						if f != nil || len(commitNil) == 0 {
							c.Violate(rule, construct, st.Pos(), "the cell that disarms the deferred rollback receives a non-nil value on a path where Commit did not return nil")
							flagOK = false
						}
					}
					if core.Dominates(st, g.instr) && !isNilConst(st.Val) {
						c.Violate(rule, construct, st.Pos(), "the cell that disarms the deferred rollback is already set when the rollback is registered")
						flagOK = false
					}
				}
				continue
			}
			// the flag must be true when the defer is registered and false only after a nil Commit
			for _, ref := range *g.flag.Referrers() {
				st, ok := ref.(*ssa.Store)
				if !ok || st.Addr != ssa.Value(g.flag) {
					continue
				}
				switch {
				case isConstBool(st.Val, !g.disarmedBy):
				case isConstBool(st.Val, g.disarmedBy):
					f := (&core.Walk{EdgeOK: core.Forbid(commitNil), Target: func(i ssa.Instruction) bool { return i == ssa.Instruction(st) }}).From(core.Entry(fn), nil)
					if f != nil || len(commitNil) == 0 {
						c.Violate(rule, construct, st.Pos(), "the rollback flag is cleared on a path where Commit did not return nil: a failed or skipped commit would leave the transaction open")
						flagOK = false
					}
				default:
					c.Undecide(rule, construct, st.Pos(), "rollback flag assigned a non-constant value")
					flagOK = false
				}
			}
			// flag must be true at registration: the initial store dominates the defer
			initTrue := false
			for _, ref := range *g.flag.Referrers() {
				if st, ok := ref.(*ssa.Store); ok && st.Addr == ssa.Value(g.flag) && isConstBool(st.Val, !g.disarmedBy) && core.Dominates(st, g.instr) {
					initTrue = true
				}
			}
			if !initTrue {
				c.Violate(rule, construct, g.instr.Pos(), "the rollback flag is not in its armed state when the deferred rollback is registered")
				flagOK = false
			}
		}
		if flagOK {
			c.Hold(rule, construct, "every path from the successful begin commits, rolls back, or runs a deferred rollback; flag cleared only after Commit()==nil")
		}
	}
	return n
}

// ---------------------------------------------------------------------------------------------
// SQL writes and TX-through

type sqlWrite struct {
	instr  ssa.Instruction
	handle ssa.Value
	what   string
}

func sqlWriteOf(i ssa.Instruction) *sqlWrite {
	cc := core.AsCall(i)
	if cc == nil {
		return nil
	}
	name := core.FullName(core.CalleeObj(cc))
	switch name {
	case "github.com/russross/meddler.Insert", "github.com/russross/meddler.Update", "github.com/russross/meddler.Save":
		return &sqlWrite{i, cc.Args[0], name[strings.LastIndex(name, "/")+1:]}
	}
	if m := methodName(cc); m == "Exec" || m == "ExecContext" {
		r := recvOf(cc)
		if r == nil {
			return nil
		}
		t := r.Type()
		if hasMethod(t, "QueryRow") || hasMethod(t, "Query") {
			return &sqlWrite{i, r, m}
		}
	}
	return nil
}

// cone walks the static callee cone of a tx scope, tracking which parameters carry the transaction.
type coneVisitor struct {
	c       *core.Ctx
	visited map[string]bool
	onWrite func(fn *ssa.Function, w *sqlWrite, isTx bool, chain string)
	onFn    func(fn *ssa.Function, chain string, isTxVal func(ssa.Value) bool)
	onCall  func(fn *ssa.Function, call ssa.Instruction, callee *ssa.Function, chain string)
}

// implementations resolves an interface method to the repository's concrete methods (CHA restricted to repo types).
func implementations(c *core.Ctx, m *types.Func) []*ssa.Function {
	recv := m.Type().(*types.Signature).Recv()
	if recv == nil {
		return nil
	}
	iface, ok := recv.Type().Underlying().(*types.Interface)
	if !ok {
		return nil
	}
	var out []*ssa.Function
	for path, p := range c.ByPath {
		if core.IsMockPkg(path) {
			continue
		}
		sc := p.Types.Scope()
		for _, n := range sc.Names() {
			tn, ok := sc.Lookup(n).(*types.TypeName)
			if !ok || tn.IsAlias() {
				continue
			}
			if _, isIface := tn.Type().Underlying().(*types.Interface); isIface {
				continue
			}
			for _, t := range []types.Type{tn.Type(), types.NewPointer(tn.Type())} {
				if !types.Implements(t, iface) {
					continue
				}
				sel := c.Prog.MethodSets.MethodSet(t).Lookup(m.Pkg(), m.Name())
				if sel == nil {
					continue
				}
				if f := c.Prog.MethodValue(sel); f != nil {
					// unwrap promoted-method wrappers
					if f.Synthetic != "" {
						if o, ok := sel.Obj().(*types.Func); ok {
							if f2 := c.Prog.FuncValue(o); f2 != nil {
								f = f2
							}
						}
					}
					if f.Blocks != nil {
						out = append(out, f)
					}
				}
				break
			}
		}
	}
	return out
}

func inRepo(f *ssa.Function) bool {
	return f != nil && f.Blocks != nil && f.Pkg != nil && strings.HasPrefix(f.Pkg.Pkg.Path(), core.Mod) && !core.IsMockPkg(f.Pkg.Pkg.Path())
}

// nilGuardedAlt: phi alternative `other` is only taken when param == nil (idiom: if tx == nil { tx = kv.DB }).
func nilGuardedAlt(phi *ssa.Phi, edgeIdx int, param ssa.Value) bool {
	pred := phi.Block().Preds[edgeIdx]
	fn := phi.Parent()
	for _, e := range core.NilEdgesOf(fn, param, true) {
		succ := e.B.Succs[e.Succ]
		if succ == pred || succ.Dominates(pred) {
			// make sure succ is entered only through this edge
			if len(succ.Preds) == 1 {
				return true
			}
		}
	}
	return false
}

func (cv *coneVisitor) visit(fn *ssa.Function, isTxVal func(ssa.Value) bool, chain string, depth int) {
	if depth > 8 {
		return
	}
	var classify func(v ssa.Value, d int) bool
	classify = func(v ssa.Value, d int) bool {
		if d > 10 || v == nil {
			return false
		}
		if isTxVal(v) {
			return true
		}
		switch x := v.(type) {
		case *ssa.MakeInterface:
			return classify(x.X, d+1)
		case *ssa.ChangeInterface:
			return classify(x.X, d+1)
		case *ssa.ChangeType:
			return classify(x.X, d+1)
		case *ssa.Phi:
			any := false
			for i, e := range x.Edges {
				if classify(e, d+1) {
					any = true
					continue
				}
				// ignore the alternative taken only when a tx parameter is nil
				guarded := false
				for _, e2 := range x.Edges {
					if e2 != e && isTxVal(e2) && nilGuardedAlt(x, i, e2) {
						guarded = true
					}
				}
				if !guarded {
					return false
				}
			}
			return any
		}
		return false
	}
	if cv.onFn != nil {
		cv.onFn(fn, chain, func(v ssa.Value) bool { return classify(v, 0) })
	}
	walkFn := func(f *ssa.Function, isTxHere func(ssa.Value) bool) {}
	_ = walkFn
	var doFn func(f *ssa.Function)
	doFn = func(f *ssa.Function) {
		core.Instrs(f, func(i ssa.Instruction) {
			if w := sqlWriteOf(i); w != nil {
				cv.onWrite(f, w, classify(w.handle, 0), chain)
				return
			}
			cc := core.AsCall(i)
			if cc == nil {
				return
			}
			var callees []*ssa.Function
			if cc.IsInvoke() {
				callees = implementations(cv.c, cc.Method)
			} else if sc := cc.StaticCallee(); sc != nil {
				callees = []*ssa.Function{sc}
			}
			for _, g := range callees {
				if !inRepo(g) {
					continue
				}
				if cv.onCall != nil {
					cv.onCall(f, i, g, chain)
				}
				args := cc.Args
				params := g.Params
				if cc.IsInvoke() {
					params = g.Params[1:]
				}
				mask := ""
				tainted := map[ssa.Value]bool{}
				for k, a := range args {
					if k < len(params) && classify(a, 0) {
						tainted[params[k]] = true
						mask += fmt.Sprint(k) + ","
					}
				}
				key := g.String() + "|" + mask
				if cv.visited[key] {
					continue
				}
				cv.visited[key] = true
				cv.visit(g, func(v ssa.Value) bool { return tainted[v] }, chain+"→"+g.Name(), depth+1)
			}
		})
		for _, a := range f.AnonFuncs {
			doFn(a)
		}
	}
	doFn(fn)
}

// ruleTxThrough: inside every tx scope of fn and its callee cone, every SQL write goes through the transaction.
func ruleTxThrough(c *core.Ctx, rule string, fn *ssa.Function) int {
	n := 0
	for k, s := range findTxScopes(fn) {
		if s.txVal == nil || s.returnsTx() {
			continue
		}
		root := fmt.Sprintf("%s#tx%d", core.ShortFn(fn), k+1)
		ord := map[string]int{}
		cv := &coneVisitor{c: c, visited: map[string]bool{}}
		cv.onWrite = func(f *ssa.Function, w *sqlWrite, isTx bool, chain string) {
			c.FuncsSeen[f.String()] = true
			base := fmt.Sprintf("%s:%s@%s", root, w.what, core.ShortFn(f))
			ord[base]++
			construct := fmt.Sprintf("%s#%d", base, ord[base])
			n++
			if isTx {
				c.Hold(rule, construct, "SQL write uses the transaction ("+chain+")")
			} else {
				c.Violate(rule, construct, w.instr.Pos(), fmt.Sprintf("SQL write inside the transaction scope does not go through the transaction (handle: %s; call chain %s): it would survive a rollback", core.NewSymx().Of(w.handle), chain))
			}
		}
		cv.visit(fn, s.isTx, fn.Name(), 0)
	}
	return n
}

// ruleTxErr: no error of an SQL write inside a tx scope is dropped. On the err != nil edge of every write in the cone,
// every path returns an error derived from it; the single accepted exception is the duplicate-row idiom on the
// content-addressed rht table: SQLite extended code 1555 (SQLITE_CONSTRAINT_PRIMARYKEY) of that very error.
func ruleTxErr(c *core.Ctx, rule string, fn *ssa.Function) int {
	n := 0
	for k, s := range findTxScopes(fn) {
		if s.txVal == nil || s.returnsTx() {
			continue
		}
		root := fmt.Sprintf("%s#tx%d", core.ShortFn(fn), k+1)
		ord := map[string]int{}
		cv := &coneVisitor{c: c, visited: map[string]bool{}}
		var site func(f *ssa.Function, w *sqlWrite, chain string)
		cv.onWrite = func(f *ssa.Function, w *sqlWrite, isTx bool, chain string) { site(f, w, chain) }
		seenCall := map[ssa.Instruction]bool{}
		cv.onCall = func(f *ssa.Function, call ssa.Instruction, g *ssa.Function, chain string) {
			if seenCall[call] || !fnWritesSQL(c, g, 0) {
				return
			}
			seenCall[call] = true
			res := g.Signature.Results()
			if res.Len() == 0 || !types.Identical(res.At(res.Len()-1).Type(), types.Universe.Lookup("error").Type()) {
				return
			}
			site(f, &sqlWrite{instr: call, what: "call:" + g.Name()}, chain)
		}
		site = func(f *ssa.Function, w *sqlWrite, chain string) {
			base := fmt.Sprintf("%s:%s@%s", root, w.what, core.ShortFn(f))
			ord[base]++
			construct := fmt.Sprintf("%s#%d", base, ord[base])
			n++
			call, ok := w.instr.(*ssa.Call)
			if !ok {
				c.Violate(rule, construct, w.instr.Pos(), "SQL write in a defer/go statement: its error is dropped")
				return
			}
			ev := core.ErrValueOf(call)
			if ev == nil {
				c.Violate(rule, construct, call.Pos(), "the error result of the SQL write is dropped")
				return
			}
			if r, isRet := directReturnOf(ev); isRet {
				_ = r
				c.Hold(rule, construct, "error returned directly to the caller")
				return
			}
			// `return wrap(err)`: the error's only use is as argument of a call whose result is returned
			if refs := ev.Referrers(); refs != nil && len(*refs) == 1 {
				if wc, ok := (*refs)[0].(*ssa.Call); ok {
					if _, isRet := directReturnOf(wc); isRet {
						c.Hold(rule, construct, "error handed to "+core.CallName(wc)+" whose result is returned")
						return
					}
				}
			}
			errEdges := core.NilEdgesRes(f, ev, false)
			type startAt struct {
				p   core.Point
				env core.Env
			}
			var starts []startAt
			for _, e := range errEdges {
				p0, env0 := core.AfterEdge(e)
				starts = append(starts, startAt{p0, env0})
			}
			if len(errEdges) == 0 {
				// the error is not tested where it is produced (`r = write(); break` of an expanded helper, then
				// `if r != nil`): follow the paths from the write itself under the fact "the error is non-nil"; the
				// nil-ness of the Phi it travels through follows that fact
				evi, isInstr := ev.(ssa.Instruction)
				if !isInstr {
					c.Violate(rule, construct, call.Pos(), "the error result of the SQL write is never tested")
					return
				}
				starts = append(starts, startAt{core.After(evi), core.Env{ev: false}})
			}
			sx := core.NewSymx().Bind(ev, "ERR")
			dup := core.TermEdges(f, sx, func(s string, _ *core.Term) bool {
				return s == "(db.SQLiteErr(ERR)#0.ExtendedCode == const(1555))"
			}, true)
			// the same test behind a boolean helper that could not be expanded (it stands under || / &&): `isDup(err)` is
			// accepted when every result of the helper is false or the very comparison above on its parameter
			core.Instrs(f, func(i ssa.Instruction) {
				cl, ok := i.(*ssa.Call)
				if !ok {
					return
				}
				g := cl.Call.StaticCallee()
				if g == nil || g.Blocks == nil || len(cl.Call.Args) != 1 || cl.Call.Args[0] != ev || len(g.Params) != 1 {
					return
				}
				gx := core.NewSymx().Bind(g.Params[0], "ERR")
				all := true
				n := 0
				for _, rc := range core.ReturnCases(g) {
					if len(rc.Values) != 1 {
						all = false
						continue
					}
					n++
					if isConstBool(rc.Values[0], false) {
						continue
					}
					if gx.Of(rc.Values[0]).String() != "(db.SQLiteErr(ERR)#0.ExtendedCode == const(1555))" {
						all = false
					}
				}
				if all && n > 0 {
					dup = append(dup, core.BoolEdges(f, cl, true)...)
				}
			})
			// an error return is acceptable when it is certainly non-nil: it wraps / is the failed write's error, is a
			// freshly built error, or a package-level sentinel error
			derives := func(v ssa.Value) bool {
				for _, alt := range sx.Of(v).Alts() {
					ok := false
					alt.Walk(func(t *core.Term) {
						if t.Op == "param" && t.Name == "ERR" {
							ok = true
						}
					})
					if alt.Op == "call" && (alt.Name == "fmt.Errorf" || alt.Name == "errors.New") {
						ok = true
					}
					if alt.Op == "global" {
						ok = true
					}
					if !ok {
						return false
					}
				}
				return true
			}
			var bad *core.Found
			for _, st := range starts {
				start, env0 := st.p, st.env
				fnd := (&core.Walk{EdgeOK: core.Forbid(dup), TargetPath: func(i ssa.Instruction, path []int) bool {
					if r, ok := i.(*ssa.Return); ok {
						if len(r.Results) == 0 {
							return true
						}
						return !derives(core.ResolveOnPath(r.Results[len(r.Results)-1], path))
					}
					if i != w.instr && sqlWriteOf(i) != nil {
						return true
					}
					if f == fn && s.isCommit(i) {
						return true
					}
					return false
				}}).From(start, env0)
				if fnd != nil {
					bad = fnd
				}
			}
			if bad != nil {
				c.Violate(rule, construct, bad.Instr.Pos(), "after this SQL write failed, a path carries on (next write / commit / return without that error) although the failure is not the accepted duplicate-row case: the block would be committed with part of its data missing ("+chain+")")
			} else {
				c.Hold(rule, construct, "a failure of this write always ends the function with that error (duplicate rht rows excepted)")
			}
		}
		cv.visit(fn, s.isTx, fn.Name(), 0)
	}
	return n
}

// directReturnOf: the value is only used as a return operand (e.g. `return meddler.Insert(...)`).
func directReturnOf(v ssa.Value) (*ssa.Return, bool) {
	refs := v.Referrers()
	if refs == nil {
		return nil, false
	}
	var ret *ssa.Return
	for _, r := range *refs {
		switch x := r.(type) {
		case *ssa.Return:
			ret = x
		case *ssa.DebugRef:
		case *ssa.Store:
			// defer-spill of the result: *ret = v
			if al, ok := x.Addr.(*ssa.Alloc); ok && al.Comment == "" {
				continue
			}
			return nil, false
		default:
			return nil, false
		}
	}
	if ret != nil {
		return ret, true
	}
	// spilled-only: accept when every use is a spill store
	return nil, len(*refs) > 0
}

// txWrapperRule: db.Tx is the transaction every store uses. (1) Commit reports a failed commit: a nil return lies behind the
// edge on which the underlying Commit returned nil — a rewind or a block whose commit was lost (sql.ErrTxDone after the
// context ended: database/sql has rolled it back) must not be reported as done. (2) The callbacks registered on the
// transaction run: Rollback / Commit call the elements of the field as it was before the function stored anything into it
// (the frontier invalidation of the append-only tree is such a callback).
func txWrapperRule(c *core.Ctx, rule string) {
	for _, m := range []struct{ name, field string }{{"Commit", "commitCallbacks"}, {"Rollback", "rollbackCallbacks"}} {
		fn := c.MustFn(rule, "db", "Tx", m.name)
		if fn == nil {
			continue
		}
		var inner ssa.Value
		core.Instrs(fn, func(i ssa.Instruction) {
			cc := core.AsCall(i)
			if cc == nil {
				return
			}
			hit := methodName(cc) == m.name
			if mc, ok := cc.Value.(*ssa.MakeClosure); ok && !hit {
				// the method value `s.SQLTxer.Commit` handed to a helper and called there
				hit = mc.Fn.Name() == m.name+"$bound"
			}
			if hit {
				if v, ok := i.(ssa.Value); ok {
					inner = v
				}
			}
		})
		if inner == nil {
			c.Undecide(rule, "db.(*Tx)."+m.name+"#inner", fn.Pos(), "no call of the underlying "+m.name)
			continue
		}
		if m.name == "Commit" {
			nilEdges := core.RelEdges(fn, core.IsValue(inner), isNilConst, token.EQL)
			ok, n := true, 0
			for _, rc := range core.ReturnCases(fn) {
				if len(rc.Values) != 1 {
					continue
				}
				n++
				if isNilConst(rc.Values[0]) {
					ok = ok && rc.ReachableOnlyVia(fn, nilEdges)
				}
				// any other value is the error itself (`return err` on both outcomes) or a wrapped form of it
			}
			c.Decide(ok && n > 0, rule, "db.(*Tx).Commit#failure-reported", fn.Pos(), "nil is returned only where the underlying Commit returned nil")
		}
		// the callbacks that are called
		called, stale := 0, false
		core.Instrs(fn, func(i ssa.Instruction) {
			cc := core.AsCall(i)
			if cc == nil || cc.IsInvoke() || cc.StaticCallee() != nil {
				return
			}
			ld, ok := cc.Value.(*ssa.UnOp)
			if !ok {
				return
			}
			ia, ok := ld.X.(*ssa.IndexAddr)
			if !ok {
				return
			}
			src, ok := ia.X.(*ssa.UnOp)
			if !ok {
				return
			}
			fa, ok := src.X.(*ssa.FieldAddr)
			if !ok || fieldNameOf(fa) != m.field {
				return
			}
			called++
			// a store into the field that can run before the load
			core.Instrs(fn, func(j ssa.Instruction) {
				st, ok := j.(*ssa.Store)
				if !ok {
					return
				}
				sfa, ok := st.Addr.(*ssa.FieldAddr)
				if !ok || fieldNameOf(sfa) != m.field {
					return
				}
				if (&core.Walk{NoEnv: true, Target: func(x ssa.Instruction) bool { return x == ssa.Instruction(src) }}).From(core.After(st), nil) != nil {
					stale = true
				}
			})
		})
		if called == 0 {
			// the callbacks may be run from a copy taken first: accept a call through an element of any []func() local whose
			// value is a load of the field taken before any store
			core.Instrs(fn, func(i ssa.Instruction) {
				cc := core.AsCall(i)
				if cc == nil || cc.IsInvoke() || cc.StaticCallee() != nil {
					return
				}
				if ld, ok := cc.Value.(*ssa.UnOp); ok {
					if _, ok := ld.X.(*ssa.IndexAddr); ok {
						called++
					}
				}
			})
		}
		c.Decide(called > 0 && !stale, rule, "db.(*Tx)."+m.name+"#callbacks-run", fn.Pos(), fmt.Sprintf("the registered %s are called (%d call sites) from the list as registered (emptied first: %v)", m.field, called, stale))
	}
}
