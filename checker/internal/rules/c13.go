package rules

import (
	"fmt"
	"go/token"
	"sort"
	"strings"

	"golang.org/x/tools/go/ssa"

	"verif/checker/internal/core"
)

func c13PK(c *core.Ctx) {
	const rule = "C13-pk"
	c13NullComparisons(c, rule)
	files, probs := c.MigrationFiles("aggsender/db/migrations")
	s := c.LoadSchema(files, "")
	for _, p := range append(probs, s.Problems...) {
		c.Undecide(rule, "aggsender#schema-problem:"+p, token.NoPos, p)
	}
	ci := s.Tables["certificate_info"]
	c.Decide(ci != nil && ci.HasUnique("height"), rule, "aggsender.certificate_info#pk-height", token.NoPos, "certificate_info PRIMARY KEY(height): at most one certificate per height")
	h := s.Tables["certificate_info_history"]
	c.Decide(h != nil && h.HasUnique("height", "retry_count"), rule, "aggsender.certificate_info_history#pk", token.NoPos, "history PRIMARY KEY(height, retry_count)")
	// history and live table have the same columns in the same order (INSERT ... SELECT * relies on it)
	same := ci != nil && h != nil && len(ci.Cols) == len(h.Cols)
	if same {
		for i := range ci.Cols {
			if !strings.EqualFold(ci.Cols[i].Name, h.Cols[i].Name) {
				same = false
			}
		}
	}
	c.Decide(same, rule, "aggsender.certificate_info_history#same-columns", token.NoPos, "`INSERT INTO certificate_info_history SELECT * FROM certificate_info` relies on identical column lists")
}

// c13StatusUpdate: UpdateCertificateStatus writes the status it is given to the row of that certificate, whatever the
// row said before (the Agglayer may re-open a certificate: InError → Pending is a transition the recovery relies on).
func c13StatusUpdate(c *core.Ctx, rule string) {
	fn := c.MustFn(rule, "aggsender/db", "AggSenderSQLStorage", "UpdateCertificateStatus")
	if fn == nil {
		return
	}
	sx := core.NewSymx()
	n := 0
	core.Instrs(fn, func(i ssa.Instruction) {
		cc := core.AsCall(i)
		if cc == nil || !cc.IsInvoke() || cc.Method.Name() != "Exec" || len(cc.Args) < 2 {
			return
		}
		stmt := stmtText(cc.Args[0], 0)
		tk := sqlTokensUpper(stmt)
		if len(tk) < 4 || tk[0] != "UPDATE" {
			return
		}
		n++
		// UPDATE t SET a = $i, b = $j WHERE c = $k [AND …]
		set, where := map[string]string{}, map[string]string{}
		okShape := tk[1] == "CERTIFICATE_INFO" && tk[2] == "SET"
		j := 3
		for ; j+2 < len(tk) && tk[j] != "WHERE"; j += 3 {
			if tk[j+1] != "=" {
				okShape = false
				break
			}
			set[tk[j]] = tk[j+2]
			if j+3 < len(tk) && tk[j+3] == "," {
				j++
			}
		}
		if j < len(tk) && tk[j] == "WHERE" {
			rest := strings.Join(tk[j+1:], " ")
			for _, conj := range strings.Split(rest, " AND ") {
				f := strings.Fields(conj)
				if len(f) == 3 && f[1] == "=" {
					where[f[0]] = f[2]
				} else {
					where["?"+conj] = "?"
				}
			}
		} else {
			okShape = false
		}
		args := boundArgs(fn, stmt, sx)
		arg := func(ph string) string {
			var k int
			if _, err := fmt.Sscanf(ph, "$%d", &k); err != nil || k < 1 || k > len(args) {
				return "?"
			}
			return args[k-1]
		}
		ok := okShape && len(set) == 2 && arg(set["STATUS"]) == "newStatus" && arg(set["UPDATED_AT"]) == "updatedAt" &&
			len(where) == 1 && strings.HasSuffix(arg(where["CERTIFICATE_ID"]), "Hash).Hex(certificateID)")
		c.Decide(ok, rule, "aggsender/db.(*AggSenderSQLStorage).UpdateCertificateStatus#statement", i.Pos(),
			fmt.Sprintf("sets status←newStatus, updated_at←updatedAt for exactly the row certificate_id = certificateID, unconditionally: SET %v WHERE %v args %v", set, where, args))
	})
	if n == 0 {
		c.Violate(rule, "aggsender/db.(*AggSenderSQLStorage).UpdateCertificateStatus#statement", fn.Pos(), "no UPDATE statement found")
	}
}

// c13StoreRetry: a certificate the Agglayer accepted is recorded: the retry loop around SaveLastSentCertificate gives up
// only on the edge `retries == maxRetries` — with the documented maxRetries = 0 ("retry indefinitely") that never holds;
// an ordering comparison would give up after the first failure.
func c13StoreRetry(c *core.Ctx, rule string) {
	fn := c.MustFn(rule, "aggsender", "AggSender", "saveCertificateToStorage")
	if fn == nil || len(fn.Params) < 4 {
		return
	}
	eq := core.RelEdges(fn, func(ssa.Value) bool { return true }, core.IsValue(fn.Params[3]), token.EQL)
	eq = append(eq, core.RelEdges(fn, core.IsValue(fn.Params[3]), func(ssa.Value) bool { return true }, token.EQL)...)
	// equivalent spellings of "0 = for ever": the give-up edge may also lie behind a test that maxRetries is positive
	isMax := core.IsValue(fn.Params[3])
	eq = append(eq, core.RelEdges(fn, isMax, core.IsConstInt(0), token.GTR)...)
	eq = append(eq, core.RelEdges(fn, isMax, core.IsConstInt(0), token.NEQ)...)
	eq = append(eq, core.RelEdges(fn, isMax, core.IsConstInt(1), token.GEQ)...)
	ok := len(eq) > 0
	n := 0
	for _, rc := range core.ReturnCases(fn) {
		if len(rc.Values) == 1 && !isNilConst(rc.Values[0]) {
			n++
			ok = ok && rc.ReachableOnlyVia(fn, eq)
		}
	}
	c.Decide(ok && n > 0, rule, "aggsender.(*AggSender).saveCertificateToStorage#gives-up-only-at-max", fn.Pos(), "the save is abandoned only when the attempt counter equals maxRetries (0 = never)")
}

// c13NullComparisons: `x = NULL` / `x <> NULL` in a migration is never true in SQL: a data fix written that way is a no-op
// and rows written by older versions stay unreadable (NULL into a non-pointer Go field).
func c13NullComparisons(c *core.Ctx, rule string) {
	files, _ := c.MigrationFiles("aggsender/db/migrations")
	n := 0
	for _, f := range files {
		b, err := c.ReadFile(f)
		if err != nil {
			continue
		}
		up := string(b)
		if i := strings.Index(up, "-- +migrate Up"); i >= 0 {
			up = up[i:]
		}
		if i := strings.Index(up, "-- +migrate Down"); i >= 0 {
			up = up[:i]
		}
		var lines []string
		for _, l := range strings.Split(up, "\n") {
			if i := strings.Index(l, "--"); i >= 0 {
				l = l[:i]
			}
			lines = append(lines, l)
		}
		tk := sqlTokensUpper(strings.Join(lines, "\n"))
		bad := false
		for i := 0; i+1 < len(tk); i++ {
			if tk[i+1] == "NULL" && (tk[i] == "=" || tk[i] == "!=" || tk[i] == ">" && i > 0 && tk[i-1] == "<") {
				// `SET col = NULL` is an assignment: only comparisons (after WHERE / AND / OR … up to the next clause) count
				for j := i; j >= 0; j-- {
					if tk[j] == "WHERE" || tk[j] == "AND" || tk[j] == "OR" || tk[j] == "ON" || tk[j] == "WHEN" {
						bad = true
						break
					}
					if tk[j] == "SET" || tk[j] == ";" || tk[j] == "," {
						break
					}
				}
			}
		}
		n++
		c.Decide(!bad, rule, "aggsender/db/migrations:"+f[strings.LastIndex(f, "/")+1:]+"#null-comparison", token.NoPos, "no `= NULL` / `<> NULL` comparison (always unknown in SQL): NULL is tested with IS [NOT] NULL")
	}
	if n == 0 {
		c.Undecide(rule, "aggsender/db/migrations#files", token.NoPos, "no migration files found")
	}
}

func c13Replace(c *core.Ctx) {
	const rule = "C13-replace"
	c13StatusUpdate(c, rule)
	c13StoreRetry(c, rule)
	names := []string{"SaveLastSentCertificate", "UpdateCertificateStatus", "DeleteCertificate", "SaveNonAcceptedCertificate", "GetLastSentCertificateHeaderWithProofIfInError"}
	for _, n := range names {
		fn := c.MustFn(rule, "aggsender/db", "AggSenderSQLStorage", n)
		if fn == nil {
			continue
		}
		k := ruleTxPair(c, rule, fn)
		k += ruleTxThrough(c, rule, fn)
		k += ruleTxErr(c, rule, fn)
		if k == 0 {
			c.Violate(rule, "aggsender/db.(*AggSenderSQLStorage)."+n+"#tx", fn.Pos(), "no transaction scope found")
		}
	}
	// any other function of the package that begins a transaction
	for _, fn := range c.AllFuncs() {
		if fn.Pkg == nil || fn.Pkg.Pkg.Path() != core.P("aggsender/db") {
			continue
		}
		skip := false
		for _, n := range names {
			if fn.Name() == n {
				skip = true
			}
		}
		if !skip {
			ruleTxPair(c, rule, fn)
		}
	}
	// SaveLastSentCertificate: lookup by the new certificate's height on the tx; replace before insert
	fn := c.MustFn(rule, "aggsender/db", "AggSenderSQLStorage", "SaveLastSentCertificate")
	if fn == nil {
		return
	}
	sx := core.NewSymx()
	scopes := findTxScopes(fn)
	var get, move, ins *ssa.Call
	core.Instrs(fn, func(i ssa.Instruction) {
		if call, ok := i.(*ssa.Call); ok {
			switch core.CallName(call) {
			case "aggsender/db.getCertificateByHeight":
				get = call
			case "(*aggsender/db.AggSenderSQLStorage).moveCertificateToHistoryOrDelete":
				move = call
			case "github.com/russross/meddler.Insert":
				ins = call
			}
		}
	})
	if get == nil || move == nil || ins == nil || len(scopes) != 1 {
		c.Violate(rule, "aggsender/db.SaveLastSentCertificate#shape", fn.Pos(), "expected lookup-by-height, move/delete, insert inside one transaction")
		return
	}
	s := scopes[0]
	conv := "aggsender/db.convertCertificateToCertificateInfo(certificate)#0"
	okGet := s.isTx(get.Call.Args[0]) && sx.Of(get.Call.Args[1]).String() == conv+".Height"
	c.Decide(okGet, rule, "aggsender/db.SaveLastSentCertificate#lookup", get.Pos(), "existing record is looked up on the tx by the new certificate's height: "+sx.Of(get.Call.Args[1]).String())
	okMove := s.isTx(move.Call.Args[1]) && move.Call.Args[2] == core.ExtractOf(get, 0)
	c.Decide(okMove, rule, "aggsender/db.SaveLastSentCertificate#move-args", move.Pos(), "the record found is the one moved to history / deleted, on the same tx")
	tbl, _ := core.ConstString(ins.Call.Args[1])
	c.Decide(tbl == "certificate_info" && sx.Of(ins.Call.Args[2]).String() == conv, rule, "aggsender/db.SaveLastSentCertificate#insert", ins.Pos(), "the converted certificate is inserted into certificate_info")
	// the insert is reached only when no record existed or the old one was moved away successfully
	got := core.ExtractOf(get, 0)
	none := core.NilEdgesOf(fn, got, true)
	moved := core.NilEdgesRes(fn, move, true)
	f := core.ReachableWithout(core.After(get), append(none, moved...), func(i ssa.Instruction) bool { return i == ssa.Instruction(ins) })
	c.Decide(f == nil && len(none) > 0 && len(moved) > 0, rule, "aggsender/db.SaveLastSentCertificate#replace-before-insert", ins.Pos(), "insert only if no certificate at that height existed or it was moved/deleted first")
	// a lookup failure other than not-found aborts
	getErr := core.ExtractOf(get, 1)
	bad := false
	for _, e := range core.NilEdgesRes(fn, getErr, false) {
		start := core.Point{B: e.B.Succs[e.Succ], I: 0}
		notFound := core.TermEdges(fn, core.NewSymx().Bind(getErr, "ERR"), func(s string, _ *core.Term) bool { return s == "errors.Is(ERR, db.ErrNotFound)" }, true)
		if (&core.Walk{EdgeOK: core.Forbid(notFound), Target: func(i ssa.Instruction) bool { return i == ssa.Instruction(ins) }}).From(start, nil) != nil {
			bad = true
		}
	}
	c.Decide(!bad, rule, "aggsender/db.SaveLastSentCertificate#lookup-error-aborts", get.Pos(), "a failed lookup (other than not found) does not lead to the insert")
	// moveCertificateToHistoryOrDelete statements
	mv := c.MustFn(rule, "aggsender/db", "AggSenderSQLStorage", "moveCertificateToHistoryOrDelete")
	if mv != nil {
		core.Instrs(mv, func(i ssa.Instruction) {
			w := sqlWriteOf(i)
			if w == nil {
				return
			}
			q, _ := execQuery(core.AsCall(i))
			cc := core.AsCall(i)
			argsT := sx.Of(cc.Args[len(cc.Args)-1]).String()
			okQ := tokensEqual(sqlTokensUpper(q), "INSERT", "INTO", "CERTIFICATE_INFO_HISTORY", "SELECT", "*", "FROM", "CERTIFICATE_INFO", "WHERE", "HEIGHT", "=", "$1")
			okA := strings.Contains(argsT, "[const(0)]: certificate.Height}")
			c.Decide(okQ && okA && stripIface(w.handle) == ssa.Value(mv.Params[1]), rule, "aggsender/db.moveCertificateToHistoryOrDelete#history-insert", i.Pos(), "history row copied from the record at certificate.Height on the tx")
		})
		dc := core.CallsTo(mv, "aggsender/db.deleteCertificate")
		okD := len(dc) == 1
		if okD {
			call := dc[0].(*ssa.Call)
			okD = call.Call.Args[0] == ssa.Value(mv.Params[1]) && sx.Of(call.Call.Args[1]).String() == "certificate.CertificateID"
			// delete happens on every successful path
			f := (&core.Walk{Stop: func(i ssa.Instruction) bool { return i == dc[0] }, Target: func(i ssa.Instruction) bool {
				r, ok := i.(*ssa.Return)
				return ok && isNilConst(r.Results[0])
			}}).From(core.Entry(mv), nil)
			okD = okD && f == nil
		}
		c.Decide(okD, rule, "aggsender/db.moveCertificateToHistoryOrDelete#delete", mv.Pos(), "the old record is deleted (by its id, on the tx) on every successful path")
	}
	del := c.MustFn(rule, "aggsender/db", "", "deleteCertificate")
	if del != nil {
		core.Instrs(del, func(i ssa.Instruction) {
			w := sqlWriteOf(i)
			if w == nil {
				return
			}
			q, _ := execQuery(core.AsCall(i))
			cc := core.AsCall(i)
			argsT := sx.Of(cc.Args[len(cc.Args)-1]).String()
			c.Decide(tokensEqual(sqlTokensUpper(q), "DELETE", "FROM", "CERTIFICATE_INFO", "WHERE", "CERTIFICATE_ID", "=", "$1") &&
				strings.Contains(argsT, "[const(0)]: (github.com/ethereum/go-ethereum/common.Hash).String(certificateID)}") && stripIface(w.handle) == ssa.Value(del.Params[0]),
				rule, "aggsender/db.deleteCertificate#statement", i.Pos(), "DELETE FROM certificate_info WHERE certificate_id = $1 bound to the id, on the given handle")
		})
	}
}

func c13First(c *core.Ctx) {
	const rule = "C13-first"
	fn := c.MustFn(rule, "aggsender", "AggSender", "Start")
	if fn != nil {
		f := (&core.Walk{Stop: func(i ssa.Instruction) bool {
			_, sync := i.(*ssa.Call) // a `go` statement does not wait for the reconciliation
			return sync && core.IsCallTo(i, "(aggsender/types.CertificateStatusChecker).CheckInitialStatus")
		}, Target: func(i ssa.Instruction) bool { return core.IsCallTo(i, "(*aggsender.AggSender).sendCertificates") }}).From(core.Entry(fn), nil)
		has := len(core.CallsTo(fn, "(*aggsender.AggSender).sendCertificates")) > 0
		c.Decide(has && f == nil, rule, "aggsender.(*AggSender).Start#reconcile-before-send", fn.Pos(), "the send loop starts only after CheckInitialStatus returned")
	}
	ci := c.MustFn(rule, "aggsender/statuschecker", "certStatusChecker", "CheckInitialStatus")
	if ci != nil {
		var chk *ssa.Call
		core.Instrs(ci, func(i ssa.Instruction) {
			if core.IsCallTo(i, "(*aggsender/statuschecker.certStatusChecker).checkLastCertificateFromAgglayer") {
				chk, _ = i.(*ssa.Call)
			}
		})
		if chk == nil {
			c.Violate(rule, "statuschecker.CheckInitialStatus#reconciles", ci.Pos(), "CheckInitialStatus no longer reconciles with the agglayer")
		} else {
			allowed := append(core.NilEdgesRes(ci, chk, true), core.CtxDoneEdges(ci)...)
			n := 0
			for _, r := range core.Returns(ci) {
				n++
				f := core.ReachableWithout(core.Entry(ci), allowed, func(i ssa.Instruction) bool { return i == ssa.Instruction(r) })
				c.Decide(f == nil, rule, fmt.Sprintf("statuschecker.CheckInitialStatus#return-%d@%s", n, guardName(r)), r.Pos(), "CheckInitialStatus returns only after a successful reconciliation or on cancellation")
			}
		}
	}
	// the reconciliation executes what process() decided
	ex := c.MustFn(rule, "aggsender/statuschecker", "certStatusChecker", "checkLastCertificateFromAgglayer")
	if ex != nil {
		sx := core.NewSymx()
		ok := false
		for _, r := range core.Returns(ex) {
			s := sx.Of(r.Results[0]).String()
			if strings.HasPrefix(s, "(*aggsender/statuschecker.certStatusChecker).executeInitialStatusAction(c, ctx, (*aggsender/statuschecker.initialStatus).process(") && strings.HasSuffix(s, "#0.LocalCert)") {
				ok = true
			}
		}
		c.Decide(ok, rule, "statuschecker.checkLastCertificateFromAgglayer#executes-decision", ex.Pos(), "the decided action is executed with the local certificate of the same snapshot")
		// an error of process() aborts
		var pr *ssa.Call
		core.Instrs(ex, func(i ssa.Instruction) {
			if core.IsCallTo(i, "(*aggsender/statuschecker.initialStatus).process") {
				pr, _ = i.(*ssa.Call)
			}
		})
		if pr != nil {
			nilE := core.NilEdgesRes(ex, core.ErrValueOf(pr), true)
			f := core.ReachableWithout(core.After(pr), nilE, func(i ssa.Instruction) bool {
				return core.IsCallTo(i, "(*aggsender/statuschecker.certStatusChecker).executeInitialStatusAction")
			})
			c.Decide(len(nilE) > 0 && f == nil, rule, "statuschecker.checkLastCertificateFromAgglayer#contradiction-aborts", pr.Pos(), "when process() reports a contradiction nothing is executed and the error is returned")
		}
	}
}

func c13Recover(c *core.Ctx) {
	const rule = "C13-recover"
	fn := c.MustFn(rule, "aggsender/statuschecker", "", "newCertificateInfoFromAgglayerCertHeader")
	if fn == nil {
		return
	}
	sx := core.NewSymx()
	var lit *core.Term
	core.Instrs(fn, func(i ssa.Instruction) {
		al, ok := i.(*ssa.Alloc)
		if ok && al.Heap && strings.HasSuffix(al.Type().String(), "types.CertificateHeader") {
			lit = sx.Of(al)
		}
	})
	if lit == nil || lit.Op != "lit" {
		c.Undecide(rule, "statuschecker.newCertificateInfoFromAgglayerCertHeader#header", fn.Pos(), "header literal not found")
		return
	}
	meta := "aggsender/types.NewCertificateMetadataFromHash(c.Metadata)#0"
	g := func(k string) string {
		if lit.Fields[k] == nil {
			return "<unset>"
		}
		return lit.Fields[k].String()
	}
	want := map[string]string{"Height": "c.Height", "CertificateID": "c.CertificateID", "NewLocalExitRoot": "c.NewLocalExitRoot", "Status": "c.Status", "FromBlock": meta + ".FromBlock"}
	for _, k := range []string{"Height", "CertificateID", "NewLocalExitRoot", "Status", "FromBlock"} {
		c.Decide(g(k) == want[k], rule, "statuschecker.newCertificateInfoFromAgglayerCertHeader#"+k, fn.Pos(), k+" ← "+g(k))
	}
	// ToBlock: per metadata version. Operands that can only travel with an error (placeholders of a helper expanded in
	// place) are ignored.
	tb := lit.Fields["ToBlock"]
	isOKRet := func(x ssa.Instruction) bool {
		r, isR := x.(*ssa.Return)
		return isR && len(r.Results) == 2 && isNilConst(r.Results[1])
	}
	ver := func(k string) []core.IfEdge {
		return core.TermEdges(fn, sx, func(s string, _ *core.Term) bool { return s == "("+meta+".Version == const("+k+"))" }, true)
	}
	okTB, okV := tb != nil && tb.Val != nil, true
	seen := map[string]bool{}
	if okTB {
		for _, lf := range phiLeaves(tb.Val) {
			if lf.phi == nil {
				okTB = false // not a merge of per-version values
				continue
			}
			if !core.PhiEdgeReaches(lf.phi, lf.idx, isOKRet) {
				continue
			}
			t := sx.Of(lf.val).String()
			seen[t] = true
			pred := lf.phi.Block().Preds[lf.idx]
			si := 0
			for j, sc := range pred.Succs {
				if sc == lf.phi.Block() {
					si = j
				}
			}
			rc := core.RetCase{Pred: pred, Succ: si}
			switch t {
			case meta + ".ToBlock":
				okV = okV && rc.ReachableOnlyVia(fn, ver("0"))
			case "(" + meta + ".FromBlock + conv:uint64(" + meta + ".Offset))":
				okV = okV && rc.ReachableOnlyVia(fn, append(ver("1"), ver("2")...))
			default:
				okTB = false
			}
		}
		okTB = okTB && len(seen) == 2
	}
	c.Decide(okTB, rule, "statuschecker.newCertificateInfoFromAgglayerCertHeader#ToBlock", fn.Pos(), "ToBlock ← FromBlock+Offset (v1/v2) or the v0 ToBlock: "+g("ToBlock"))
	if okTB {
		c.Decide(okV, rule, "statuschecker.newCertificateInfoFromAgglayerCertHeader#ToBlock-per-version", fn.Pos(), "the v0 ToBlock is used only for metadata version 0, FromBlock+Offset only for versions 1 and 2 (a one-block certificate has Offset 0)")
	} else {
		c.Undecide(rule, "statuschecker.newCertificateInfoFromAgglayerCertHeader#ToBlock-per-version", fn.Pos(), "ToBlock is not a merge of per-version values")
	}
	// the v0 form only for version 0
	// previous LER copied when present
	okPrev := false
	core.Instrs(fn, func(i ssa.Instruction) {
		st, ok := i.(*ssa.Store)
		if ok && strings.HasSuffix(sx.Of(st.Addr).String(), ".PreviousLocalExitRoot") && sx.Of(st.Val).String() == "c.PreviousLocalExitRoot" {
			okPrev = true
		}
	})
	c.Decide(okPrev, rule, "statuschecker.newCertificateInfoFromAgglayerCertHeader#PreviousLocalExitRoot", fn.Pos(), "PreviousLocalExitRoot ← header's")
	// a metadata decoding error aborts
	// stored through SaveLastSentCertificate
	up := c.MustFn(rule, "aggsender/statuschecker", "certStatusChecker", "updateLocalStorageWithAggLayerCert")
	if up != nil {
		ok := false
		for _, r := range core.Returns(up) {
			if len(r.Results) == 2 && strings.Contains(sx.Of(r.Results[1]).String(), ").SaveLastSentCertificate(c.storage, ctx, *aggsender/statuschecker.newCertificateInfoFromAgglayerCertHeader(aggLayerCert)#0)") {
				ok = true
			}
		}
		c.Decide(ok, rule, "statuschecker.updateLocalStorageWithAggLayerCert#saves", up.Pos(), "the rebuilt record is saved through SaveLastSentCertificate")
		// nothing is skipped: "no record, no error" is answered only when the Agglayer has no certificate at all (the
		// rebuilt record is nil), never by status — an InError certificate on top of settled history still fixes the height
		var rebuilt *ssa.Call
		core.Instrs(up, func(i ssa.Instruction) {
			if core.IsCallTo(i, "aggsender/statuschecker.newCertificateInfoFromAgglayerCertHeader") {
				rebuilt, _ = i.(*ssa.Call)
			}
		})
		okSkip := rebuilt != nil
		if rebuilt != nil {
			none := core.NilEdgesRes(up, core.ExtractOf(rebuilt, 0), true)
			for _, rc := range core.ReturnCases(up) {
				if len(rc.Values) == 2 && isNilConst(rc.Values[0]) && isNilConst(rc.Values[1]) {
					okSkip = okSkip && len(none) > 0 && rc.ReachableOnlyVia(up, none)
				}
			}
		}
		c.Decide(okSkip, rule, "statuschecker.updateLocalStorageWithAggLayerCert#nothing-skipped", up.Pos(), "(nil, nil) only when there is no Agglayer certificate to rebuild from")
	}
	// metadata codec: writer/reader agreement (C03-meta) is decided under C03; here: BuildCertificate's offset argument
}

// c13Inputs: the start-up decision is taken on complete information. newInitialStatus hands out a status only when all
// three lookups (latest settled, latest pending on the Agglayer; last sent locally) succeeded, and the status carries
// exactly their results: an error treated as "nothing there" would let recovery conclude that nothing is in flight.
func c13Inputs(c *core.Ctx) {
	const rule = "C13-inputs"
	fn := c.MustFn(rule, "aggsender/statuschecker", "", "newInitialStatus")
	if fn == nil {
		return
	}
	sx := core.NewSymx()
	want := map[string]string{
		"SettledCert": ").GetLatestSettledCertificateHeader",
		"PendingCert": ").GetLatestPendingCertificateHeader",
		"LocalCert":   ").GetLastSentCertificateHeader",
	}
	calls := map[string]*ssa.Call{}
	core.Instrs(fn, func(i ssa.Instruction) {
		if cl, ok := i.(*ssa.Call); ok {
			for f, suffix := range want {
				if strings.HasSuffix(core.CallName(cl), suffix) {
					calls[f] = cl
				}
			}
		}
	})
	for _, f := range []string{"SettledCert", "PendingCert", "LocalCert"} {
		cl := calls[f]
		construct := "statuschecker.newInitialStatus#" + f
		if cl == nil {
			c.Violate(rule, construct, fn.Pos(), "the lookup behind "+f+" is gone")
			continue
		}
		okEdges := core.NilEdgesRes(fn, core.ErrValueOf(cl), true)
		ok := len(okEdges) > 0
		n := 0
		for _, rc := range core.ReturnCases(fn) {
			if len(rc.Values) != 2 || !isNilConst(rc.Values[1]) {
				continue
			}
			n++
			t := sx.Of(rc.Values[0])
			fld := t.Fields[f]
			ok = ok && rc.ReachableOnlyVia(fn, okEdges) && t.Op == "lit" && fld != nil && fld.Val == core.ExtractOf(cl, 0)
		}
		c.Decide(ok && n > 0, rule, construct, cl.Pos(), "a status is returned only when this lookup succeeded, and "+f+" is its result")
	}
}

func c13Decide(c *core.Ctx) {
	const rule = "C13-decide"
	fn := c.MustFn(rule, "aggsender/statuschecker", "initialStatus", "process")
	if fn == nil {
		return
	}
	sx := core.NewSymx()
	agg := "(*aggsender/statuschecker.initialStatus).getLatestAggLayerCert(i)"
	acts := constsOfType(c.Pkg("aggsender/statuschecker").Types.Scope(), c.Named("aggsender/statuschecker", "initialStatusAction"))
	aNone, aUpd, aIns := "const("+acts["InitialStatusActionNone"]+")", "const("+acts["InitialStatusActionUpdateCurrentCert"]+")", "const("+acts["InitialStatusActionInsertNewCert"]+")"
	edge := func(pred string, want bool) []core.IfEdge {
		return core.TermEdges(fn, sx, func(s string, _ *core.Term) bool { return s == pred }, want)
	}
	either := func(p1 string, w1 bool, p2 string, w2 bool) []core.IfEdge {
		return append(edge(p1, w1), edge(p2, w2)...)
	}
	localNil := either("(i.LocalCert == const(nil))", true, "(i.LocalCert != const(nil))", false)
	localSet := either("(i.LocalCert == const(nil))", false, "(i.LocalCert != const(nil))", true)
	aggNil := either("("+agg+" == const(nil))", true, "("+agg+" != const(nil))", false)
	aggSet := either("("+agg+" == const(nil))", false, "("+agg+" != const(nil))", true)
	settledNil := either("(i.SettledCert == const(nil))", true, "(i.SettledCert != const(nil))", false)
	pendSet := either("(i.PendingCert != const(nil))", true, "(i.PendingCert == const(nil))", false)
	pendH0 := edge("(i.PendingCert.Height == const(0))", true)
	pendHpos := edge("(i.PendingCert.Height > const(0))", true)
	pendErr := edge("(agglayer/types.CertificateStatus).IsInError(i.PendingCert.Status)", true)
	lower := edge("("+agg+".Height < i.LocalCert.Height)", true)
	notLower := edge("("+agg+".Height < i.LocalCert.Height)", false)
	next := edge("("+agg+".Height == (i.LocalCert.Height + const(1)))", true)
	notNext := edge("("+agg+".Height == (i.LocalCert.Height + const(1)))", false)
	sameID := edge("(i.LocalCert.CertificateID != "+agg+".CertificateID)", false)
	diffID := edge("(i.LocalCert.CertificateID != "+agg+".CertificateID)", true)
	only := func(rc core.RetCase, sets ...[]core.IfEdge) bool {
		for _, es := range sets {
			if !rc.ReachableOnlyVia(fn, es) {
				return false
			}
		}
		return true
	}
	n := 0
	for _, rc := range core.ReturnCases(fn) {
		if len(rc.Values) != 2 || !isNilConst(rc.Values[1]) {
			continue
		}
		res := sx.Of(rc.Values[0])
		if res.Op != "lit" {
			c.Undecide(rule, "statuschecker.(*initialStatus).process#result", rc.Ret.Pos(), "non-literal result: "+res.String())
			continue
		}
		n++
		act, cert := res.Fields["action"].String(), "const(nil)"
		if res.Fields["cert"] != nil {
			cert = res.Fields["cert"].String()
		}
		construct := fmt.Sprintf("statuschecker.(*initialStatus).process#action=%s,cert=%s@%s", act, core.NewSymx().Of(res.Fields["action"].Val).Brief()+"/"+briefOf(res.Fields["cert"]), guardName(rc.Ret))
		ok, why := false, ""
		switch {
		case act == aUpd:
			ok = cert == agg && only(rc, localSet, aggSet, notLower, notNext, sameID)
			why = "update only when both exist, agglayer height is neither lower nor local+1, and the ids are equal"
		case act == aIns && cert == agg:
			ok = only(rc, aggSet) && (only(rc, localNil) || only(rc, localSet, notLower, next))
			why = "insert the agglayer's certificate only when nothing is stored locally, or its height is exactly local+1"
		case act == aIns && cert == "i.PendingCert":
			ok = only(rc, localNil, settledNil, pendSet, pendH0)
			why = "adopt the pending certificate only when nothing is stored or settled and its height is 0"
		case act == aNone:
			ok = cert == "const(nil)" && only(rc, localNil) && (only(rc, aggNil) || only(rc, settledNil, pendSet, pendErr, pendHpos))
			why = "nothing to do only when neither side has a certificate, or the only agglayer certificate is an in-error pending one at a wrong height"
		default:
			why = "unknown action"
		}
		if ok {
			c.Hold(rule, construct, why)
		} else {
			c.Violate(rule, construct, rc.Ret.Pos(), "reconciliation decides action="+act+" cert="+cert+" on a path where that is not justified: "+why)
		}
	}
	if n < 5 {
		c.Undecide(rule, "statuschecker.(*initialStatus).process#cases", fn.Pos(), fmt.Sprintf("expected at least 5 deciding returns, found %d", n))
	}
	// contradictions refuse
	refuse := func(name string, edges []core.IfEdge, also ...[]core.IfEdge) {
		if len(edges) == 0 {
			c.Violate(rule, "statuschecker.(*initialStatus).process#refuses:"+name, fn.Pos(), "the contradiction '"+name+"' is no longer tested")
			return
		}
		bad := false
		for _, e := range edges {
			start := core.Point{B: e.B.Succs[e.Succ], I: 0}
			if (&core.Walk{Target: func(i ssa.Instruction) bool {
				r, ok := i.(*ssa.Return)
				return ok && len(r.Results) == 2 && isNilConst(r.Results[1])
			}}).From(start, nil) != nil {
				bad = true
			}
		}
		c.Decide(!bad, rule, "statuschecker.(*initialStatus).process#refuses:"+name, edges[0].If.Pos(), "contradiction '"+name+"' always ends in an error")
	}
	// a lone pending certificate (nothing local, nothing settled) at a non-zero height that is not InError is never
	// adopted: recovery waits. Decided by enumerating the branch literals of the paths from the lone-pending region to a
	// successful return; a literal the rule does not know (e.g. `Height > 1`) is free, so a case that is no longer
	// exhaustive shows up as a satisfiable path. Unsigned: Height == 0 ⇔ ¬(Height > 0).
	{
		var region *ssa.BasicBlock
		for _, e := range pendSet {
			to := e.B.Succs[e.Succ]
			first := to.Instrs[0]
			if len(localNil) > 0 && len(settledNil) > 0 &&
				core.ReachableWithout(core.Entry(fn), localNil, func(i ssa.Instruction) bool { return i == first }) == nil &&
				core.ReachableWithout(core.Entry(fn), settledNil, func(i ssa.Instruction) bool { return i == first }) == nil {
				region = to
			}
		}
		construct := "statuschecker.(*initialStatus).process#refuses:lone-pending-not-in-error-at-height>0"
		if region == nil {
			c.Violate(rule, construct, fn.Pos(), "the lone-pending-certificate case is no longer singled out")
		} else {
			const aH0, aHpos, aErr = "(i.PendingCert.Height == const(0))", "(i.PendingCert.Height > const(0))", "(agglayer/types.CertificateStatus).IsInError(i.PendingCert.Status)"
			forced := map[string]bool{aH0: false, aHpos: true, aErr: false}
			var witness []string
			var path []int
			var dfs func(b *ssa.BasicBlock, lits map[string]bool, depth int) bool
			dfs = func(b *ssa.BasicBlock, lits map[string]bool, depth int) bool {
				if depth > 80 {
					return false
				}
				path = append(path, b.Index)
				defer func() { path = path[:len(path)-1] }()
				last := b.Instrs[len(b.Instrs)-1]
				switch x := last.(type) {
				case *ssa.Return:
					// the error returned on THIS path (results of expanded helpers travel through Phis)
					if len(x.Results) == 2 && isNilConst(core.ResolveOnPath(x.Results[1], path)) {
						for k, v := range lits {
							witness = append(witness, fmt.Sprintf("%s=%v", k, v))
						}
						sort.Strings(witness)
						return true
					}
					return false
				case *ssa.If:
					cond, pos := core.CondOf(x.Cond)
					// a flag that is a Phi of constants (the `decided` result of an expanded helper) has the value of the
					// edge this path came through
					resolved := core.ResolveOnPath(cond, path)
					atom := sx.Of(cond).String()
					for si, succ := range b.Succs {
						val := (si == 0) == pos
						if isConstBool(resolved, true) && !val || isConstBool(resolved, false) && val {
							continue
						}
						if f, ok := forced[atom]; ok && f != val {
							continue
						}
						if prev, ok := lits[atom]; ok && prev != val {
							continue
						}
						n := map[string]bool{}
						for k, v := range lits {
							n[k] = v
						}
						n[atom] = val
						if dfs(succ, n, depth+1) {
							return true
						}
					}
					return false
				}
				for _, succ := range b.Succs {
					if dfs(succ, lits, depth+1) {
						return true
					}
				}
				return false
			}
			found := dfs(region, map[string]bool{}, 0)
			c.Decide(!found, rule, construct, region.Instrs[0].Pos(), fmt.Sprintf("with nothing local or settled, a pending certificate at height > 0 that is not InError never leads to a successful decision (satisfiable path literals: %v)", witness))
		}
	}
	refuse("agglayer-height-below-local", lower)
	refuse("same-height-different-id", diffID)
	// local exists but agglayer has none: the edge `agg == nil` taken after `local != nil`
	var localButNoAgg []core.IfEdge
	for _, e := range aggNil {
		// only those reached with local set
		if core.ReachableWithout(core.Entry(fn), localSet, func(i ssa.Instruction) bool { return i == ssa.Instruction(e.If) }) == nil {
			localButNoAgg = append(localButNoAgg, e)
		}
	}
	refuse("local-without-agglayer", localButNoAgg)
	// the consistency pre-check gates everything
	var pre *ssa.Call
	core.Instrs(fn, func(i ssa.Instruction) {
		if core.IsCallTo(i, "(*aggsender/statuschecker.initialStatus).checkAgglayerConsistenceCerts") {
			pre, _ = i.(*ssa.Call)
		}
	})
	if pre != nil {
		nilE := core.NilEdgesRes(fn, pre, true)
		f := core.ReachableWithout(core.Entry(fn), nilE, func(i ssa.Instruction) bool {
			r, ok := i.(*ssa.Return)
			return ok && len(r.Results) == 2 && isNilConst(r.Results[1])
		})
		c.Decide(len(nilE) > 0 && f == nil, rule, "statuschecker.(*initialStatus).process#agglayer-consistency-first", pre.Pos(), "no decision is taken when the agglayer's own answers contradict each other")
	}
	// getLatestAggLayerCert prefers the pending certificate
	gl := c.MustFn(rule, "aggsender/statuschecker", "initialStatus", "getLatestAggLayerCert")
	if gl != nil {
		pn := core.TermEdges(gl, sx, func(s string, _ *core.Term) bool { return s == "(i.PendingCert == const(nil))" }, true)
		pn = append(pn, core.TermEdges(gl, sx, func(s string, _ *core.Term) bool { return s == "(i.PendingCert != const(nil))" }, false)...)
		ok := len(pn) > 0
		for _, rc := range core.ReturnCases(gl) {
			s := sx.Of(rc.Values[0]).String()
			switch s {
			case "i.SettledCert":
				ok = ok && rc.ReachableOnlyVia(gl, pn)
			case "i.PendingCert":
			default:
				ok = false
			}
		}
		c.Decide(ok, rule, "statuschecker.(*initialStatus).getLatestAggLayerCert", gl.Pos(), "latest agglayer certificate = pending if any, else settled")
	}
	// executeInitialStatusAction: action ↦ effect
	ex := c.MustFn(rule, "aggsender/statuschecker", "certStatusChecker", "executeInitialStatusAction")
	if ex != nil {
		var upd, insc *ssa.Call
		core.Instrs(ex, func(i ssa.Instruction) {
			if call, ok := i.(*ssa.Call); ok {
				switch core.CallName(call) {
				case "(*aggsender/statuschecker.certStatusChecker).updateCertificateStatus":
					upd = call
				case "(*aggsender/statuschecker.certStatusChecker).updateLocalStorageWithAggLayerCert":
					insc = call
				}
			}
		})
		okEx := upd != nil && insc != nil
		if okEx {
			eU := core.TermEdges(ex, sx, func(s string, _ *core.Term) bool { return s == "(action.action == "+aUpd+")" }, true)
			eI := core.TermEdges(ex, sx, func(s string, _ *core.Term) bool { return s == "(action.action == "+aIns+")" }, true)
			okEx = len(eU) > 0 && len(eI) > 0 &&
				core.ReachableWithout(core.Entry(ex), eU, func(i ssa.Instruction) bool { return i == ssa.Instruction(upd) }) == nil &&
				core.ReachableWithout(core.Entry(ex), eI, func(i ssa.Instruction) bool { return i == ssa.Instruction(insc) }) == nil &&
				sx.Of(upd.Call.Args[2]).String() == "localCert" && sx.Of(upd.Call.Args[3]).String() == "action.cert" && sx.Of(insc.Call.Args[2]).String() == "action.cert"
		}
		c.Decide(okEx, rule, "statuschecker.executeInitialStatusAction#dispatch", ex.Pos(), "Update → updateCertificateStatus(localCert, action.cert); InsertNew → store the record rebuilt from action.cert")
	}
}

func briefOf(t *core.Term) string {
	if t == nil {
		return "nil"
	}
	return t.Brief()
}

// c13Last: every reader of "the last sent certificate" selects the greatest height (what reconciliation, the pending
// check and the next-height derivation all start from).
func c13Last(c *core.Ctx) {
	h := [][]string{{"HEIGHT"}}
	checkOrdered(c, "C13-last", []orderedSpec{
		{"aggsender/db", "AggSenderSQLStorage", "GetLastSentCertificate", "CERTIFICATE_INFO", "DESC", nil, h, nil},
		{"aggsender/db", "AggSenderSQLStorage", "GetLastSentCertificateHeader", "CERTIFICATE_INFO", "DESC", nil, h, nil},
		{"aggsender/db", "AggSenderSQLStorage", "GetLastSentCertificateHeaderWithProofIfInError", "CERTIFICATE_INFO", "DESC", nil, h, nil},
		// lookups by height
		{"aggsender/db", "", "getCertificateByHeight", "CERTIFICATE_INFO", "", []string{"HEIGHT = $1"}, nil, []string{"height"}},
		{"aggsender/db", "AggSenderSQLStorage", "GetCertificateHeaderByHeight", "CERTIFICATE_INFO", "", []string{"HEIGHT = $1"}, nil, []string{"height"}},
		{"aggsender/db", "AggSenderSQLStorage", "GetLastSentCertificateHeaderWithProofIfInError", "CERTIFICATE_INFO", "", []string{"HEIGHT = $1"}, nil, []string{"alloc:aggsender/types.CertificateHeader.Height"}},
	})
}

// c13ReadFaults: a failed read of the certificate table is "no certificate" only when the statement really found no
// row; and a status difference reported by the Agglayer always ends in the local record taking that status.
func c13ReadFaults(c *core.Ctx) {
	const rule = "C13-read"
	sx := core.NewSymx()
	if fn := c.MustFn(rule, "aggsender/db", "", "getSelectQueryError"); fn != nil {
		noRows := core.TermEdges(fn, sx, func(s string, _ *core.Term) bool { return s == "errors.Is(err, database/sql.ErrNoRows)" }, true)
		h0 := core.TermEdges(fn, sx, func(s string, _ *core.Term) bool { return s == "(height == const(0))" }, true)
		ok := len(noRows) > 0
		n := 0
		for _, rc := range core.ReturnCases(fn) {
			n++
			switch v := sx.Of(rc.Values[0]).String(); v {
			case "const(nil)":
				ok = ok && rc.ReachableOnlyVia(fn, noRows) && len(h0) > 0 && rc.ReachableOnlyVia(fn, h0)
			case "db.ErrNotFound":
				ok = ok && rc.ReachableOnlyVia(fn, noRows)
			case "err":
			default:
				ok = false
			}
		}
		c.Decide(ok && n >= 2, rule, "aggsender/db.getSelectQueryError#no-rows-only", fn.Pos(), "nil (height 0) and ErrNotFound are answered only for sql.ErrNoRows; any other read error is handed on")
	}
	if fn := c.MustFn(rule, "aggsender/statuschecker", "certStatusChecker", "updateCertificateStatus"); fn != nil {
		same := core.TermEdges(fn, sx, func(s string, _ *core.Term) bool { return s == "(localCert.Status == agglayerCert.Status)" }, true)
		var upd *ssa.Call
		core.Instrs(fn, func(i ssa.Instruction) {
			if cl, ok := i.(*ssa.Call); ok && cl.Call.IsInvoke() && cl.Call.Method.Name() == "UpdateCertificateStatus" {
				upd = cl
			}
		})
		ok := upd != nil && len(same) > 0
		if ok {
			updOK := core.NilEdgesRes(fn, upd, true)
			allowed := append(append([]core.IfEdge{}, same...), updOK...)
			for _, rc := range core.ReturnCases(fn) {
				if isNilConst(rc.Values[0]) && !rc.ReachableOnlyVia(fn, allowed) {
					ok = false
				}
			}
			// what is stored is the Agglayer's status, for this certificate
			okArgs := sx.Of(upd.Call.Args[1]).String() == "localCert.CertificateID"
			stored := false
			core.Instrs(fn, func(i ssa.Instruction) {
				if st, isSt := i.(*ssa.Store); isSt && sx.Of(st.Addr).String() == "localCert.Status" && sx.Of(st.Val).String() == "agglayerCert.Status" && core.Dominates(st, upd) {
					stored = true
				}
			})
			ok = ok && okArgs && stored
		}
		c.Decide(ok, rule, "statuschecker.(*certStatusChecker).updateCertificateStatus#always-applied", fn.Pos(), "success is reported only when the statuses were equal or the Agglayer's status was written to the record and stored (a reopened certificate is not ignored)")
	}
}

func init() {
	register(&Property{
		ID:          "C13",
		Level:       "other",
		Explanation: "Decides the structural necessary conditions of crash-safe certificate bookkeeping on every path: C13-pk — certificate_info PRIMARY KEY(height), history PRIMARY KEY(height, retry_count), identical column lists (schema computed from the embedded migrations); C13-replace — every storage function that opens a transaction pairs it, writes only through it and never drops a write error; SaveLastSentCertificate looks the existing record up on the tx by the new height, moves/deletes exactly that record before the insert, aborts on lookup errors; statements of move/delete parsed and bound; C13-first — the send loop starts only after CheckInitialStatus returned, which happens only after a successful reconciliation or cancellation; a contradiction reported by process() executes nothing; C13-recover — the record rebuilt from an Agglayer header takes Height/ID/LERs/Status from the header, FromBlock from the metadata and ToBlock = FromBlock+Offset (V1/V2) or the V0 ToBlock, and is saved through SaveLastSentCertificate; C13-decide — every deciding return of initialStatus.process is matched with its dominating branch facts against the case table (update only for equal ids at equal-or-not-next height; insert only when nothing is local or the Agglayer is exactly one ahead (constant +1); adopt a pending certificate only at height 0; nothing only when both sides are empty or the lone pending is in error at a wrong height) and the three contradictions always end in an error; action dispatch checked. The end-to-end 'submit, crash anywhere, restart, next certificate is right' is not decided. Added after the sub-agent rounds: C13-last (every 'last certificate' reader selects the greatest height; lookups by height are bound to their argument) and C13-read (a failed read is answered as 'no certificate' / not found only for sql.ErrNoRows; updateCertificateStatus reports success only when the statuses were equal or the Agglayer's status was written to the record and stored). Added after round 7: C13-inputs, C13-next (shared with C02-next), the UPDATE of UpdateCertificateStatus sets exactly (status, updated_at) of the row certificate_id unconditionally, (nil, nil) of updateLocalStorageWithAggLayerCert only when there is nothing to rebuild from. Added after round 8: C13-cut (shared with C17-filter: a cut range keeps the retry count), the give-up edge of saveCertificateToStorage (only `retries == maxRetries`), no `= NULL` comparison in the aggsender migrations.",
		Rules: []Rule{
			{ID: "C13-last", Floor: 6, Run: c13Last, Text: "SQL: 'the last sent certificate' is the row with the greatest height"},
			{ID: "C13-read", Floor: 2, Run: c13ReadFaults, Text: "[DOM] read faults are not 'no certificate'; a status difference is always applied and stored"},
			{ID: "C13-next", Floor: 6, Run: shared("C13-next", c02Next), Text: "(shared with C02-next) the next certificate after a recovered InError one refuses when the settled predecessor is unknown"},
			{ID: "C13-cut", Floor: 13, Run: shared("C13-cut", c17Filter), Text: "(shared with C17-filter) a range cut copies every other build parameter — the retry count is part of the history key the next replacement is stored under"},
			{ID: "C13-pk", Floor: 7, Run: c13PK, Text: "[SCHEMA] primary keys of certificate_info / history; same columns; no `= NULL` comparison in a migration (the data fix of 0004 must match rows)"},
			{ID: "C13-replace", Floor: 20, Run: c13Replace, Text: "[TX] pairing, write-through, error discipline; replace-at-height inside one transaction; the save after an accepted send is abandoned only on `retries == maxRetries`"},
			{ID: "C13-first", Floor: 4, Run: c13First, Text: "[DOM] reconcile before the first send; contradictions abort"},
			{ID: "C13-recover", Floor: 8, Run: c13Recover, Text: "[FIELDMAP] record rebuilt from the Agglayer header"},
			{ID: "C13-inputs", Floor: 3, Run: c13Inputs, Text: "[DOM]+[PROV] recovery decides on the results of all three lookups; an error is never read as absent"},
			{ID: "C13-decide", Floor: 10, Run: c13Decide, Text: "guarded-return matching of the reconciliation cases; contradictions refuse; dispatch"},
		},
	})
}
