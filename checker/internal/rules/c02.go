package rules

import (
	"fmt"
	"go/token"
	"go/types"
	"strings"

	"golang.org/x/tools/go/ssa"

	"verif/checker/internal/core"
)

const (
	checkPending   = "(aggsender/types.CertificateStatusChecker).CheckPendingCertificatesStatus"
	sendCertFn     = "(*aggsender.AggSender).sendCertificate"
	agglayerSendIf = "(agglayer.AgglayerClientInterface).SendCertificate"
)

func c02Gate(c *core.Ctx) {
	const rule = "C02-gate"
	fn := c.MustFn(rule, "aggsender", "AggSender", "sendCertificates")
	if fn == nil {
		return
	}
	var sends, checks []*ssa.Call
	core.Instrs(fn, func(i ssa.Instruction) {
		if call, ok := i.(*ssa.Call); ok {
			switch core.CallName(call) {
			case sendCertFn:
				sends = append(sends, call)
			case checkPending:
				checks = append(checks, call)
			}
		}
	})
	if len(sends) == 0 {
		c.Undecide(rule, "aggsender.(*AggSender).sendCertificates#send", fn.Pos(), "sendCertificates no longer calls sendCertificate")
		return
	}
	for k, sc := range sends {
		construct := fmt.Sprintf("aggsender.(*AggSender).sendCertificates#send-%d", k+1)
		var chk *ssa.Call
		for _, ch := range checks {
			if core.Dominates(ch, sc) {
				chk = ch
			}
		}
		if chk == nil {
			c.Violate(rule, construct, sc.Pos(), "a certificate is sent without a status check of the pending certificates before it")
			continue
		}
		sx := core.NewSymx().Bind(chk, "CHK")
		noPending := core.TermEdges(fn, sx, func(s string, _ *core.Term) bool { return s == "CHK.ExistPendingCerts" }, false)
		f := core.ReachableWithout(core.After(chk), noPending, func(i ssa.Instruction) bool { return i == ssa.Instruction(sc) })
		if f != nil || len(noPending) == 0 {
			c.Violate(rule, construct, sc.Pos(), "sendCertificate is reachable although the status check did not report ExistPendingCerts == false: a certificate would be submitted while an earlier one is undecided")
			continue
		}
		// the check is fresh: no other send between this check and this send, and after the send the next send needs a new check
		again := (&core.Walk{Stop: func(i ssa.Instruction) bool { return core.IsCallTo(i, checkPending) },
			Target: func(i ssa.Instruction) bool { return core.IsCallTo(i, sendCertFn) }}).From(core.After(sc), nil)
		c.Decide(again == nil, rule, construct, sc.Pos(), "sendCertificate only on !CheckPendingCertificatesStatus().ExistPendingCerts of the same iteration; every further send needs a new check")
	}
}

func c02FailClosed(c *core.Ctx) {
	const rule = "C02-failclosed"
	fn := c.MustFn(rule, "aggsender/statuschecker", "certStatusChecker", "CheckPendingCertificatesStatus")
	if fn == nil {
		return
	}
	sx := core.NewSymx()
	pendingOf := func(r *ssa.Return) ssa.Value {
		t := sx.Of(r.Results[0])
		if t.Op == "lit" && t.Fields["ExistPendingCerts"] != nil {
			return t.Fields["ExistPendingCerts"].Val
		}
		return nil
	}
	// (a) every return reached through an error edge reports pending=true (constant)
	var errEdges []core.IfEdge
	core.Instrs(fn, func(i ssa.Instruction) {
		if call, ok := i.(*ssa.Call); ok {
			if ev := core.ErrValueOf(call); ev != nil && call.Call.Signature().Results().Len() > 0 {
				errEdges = append(errEdges, core.NilEdgesRes(fn, ev, false)...)
			}
		}
	})
	n := 0
	for _, e := range errEdges {
		n++
		start, env0 := core.AfterEdge(e)
		bad := (&core.Walk{Target: func(i ssa.Instruction) bool {
			r, ok := i.(*ssa.Return)
			if !ok {
				return false
			}
			v := pendingOf(r)
			return v == nil || !isConstBool(v, true)
		}, Stop: func(i ssa.Instruction) bool { _, isPhi := i.(*ssa.Phi); return false && isPhi }}).From(start, env0)
		// only the first return after the error edge matters: error edges return immediately in this function;
		// a path that continues into the loop after an error is itself the violation
		cont := (&core.Walk{Target: func(i ssa.Instruction) bool {
			return core.IsCallTo(i, "(agglayer.AgglayerClientInterface).GetCertificateHeader", "(agglayer.AggLayerClientGetEpochConfiguration).GetCertificateHeader") || strings.HasSuffix(core.CallName(i), ").GetCertificateHeader")
		}}).From(start, env0)
		construct := fmt.Sprintf("statuschecker.CheckPendingCertificatesStatus#error-edge@%s", guardName(firstInstr(start)))
		switch {
		case cont != nil:
			c.Violate(rule, construct, e.If.Pos(), "after a failed storage/agglayer call the check carries on with the next certificate instead of reporting pending")
		case bad != nil:
			c.Violate(rule, construct, bad.Instr.Pos(), "after a failed storage/agglayer call the check does not report ExistPendingCerts=true: a certificate could be sent while the state of the previous one is unknown")
		default:
			c.Hold(rule, construct, "error edge returns ExistPendingCerts: true")
		}
	}
	if n == 0 {
		c.Undecide(rule, "statuschecker.CheckPendingCertificatesStatus#error-edges", fn.Pos(), "no error edges found")
	}
	// (b) a certificate that is still open after the update makes the result pending=true
	open := core.TermEdges(fn, sx, func(s string, _ *core.Term) bool {
		return strings.HasPrefix(s, "(*aggsender/types.CertificateHeader).IsClosed(")
	}, false)
	if len(open) == 0 {
		c.Violate(rule, "statuschecker.CheckPendingCertificatesStatus#open-cert-is-pending", fn.Pos(), "no `!certificateLocal.IsClosed()` test")
		return
	}
	// the accumulator may also be a field of a local result struct: `res.ExistPendingCerts = true … return res`
	pendingFieldStore := func(i ssa.Instruction) (*ssa.Store, bool) {
		st, ok := i.(*ssa.Store)
		if !ok {
			return nil, false
		}
		fa, ok := st.Addr.(*ssa.FieldAddr)
		if !ok || fieldNameOf(fa) != "ExistPendingCerts" {
			return nil, false
		}
		_, local := fa.X.(*ssa.Alloc)
		return st, local
	}
	overwritten := false
	core.Instrs(fn, func(i ssa.Instruction) {
		if st, ok := pendingFieldStore(i); ok && isConstBool(st.Val, true) {
			fa := st.Addr.(*ssa.FieldAddr)
			if f := (&core.Walk{Target: func(x ssa.Instruction) bool {
				st2, ok := pendingFieldStore(x)
				return ok && st2.Addr.(*ssa.FieldAddr).X == fa.X && !isConstBool(st2.Val, true)
			}}).From(core.After(st), nil); f != nil {
				overwritten = true
			}
		}
	})
	// in the struct form every return hands back that struct (or a literal that says pending)
	var accAlloc ssa.Value
	core.Instrs(fn, func(i ssa.Instruction) {
		if st, ok := pendingFieldStore(i); ok && isConstBool(st.Val, true) {
			accAlloc = st.Addr.(*ssa.FieldAddr).X
		}
	})
	if accAlloc != nil {
		for _, r := range core.Returns(fn) {
			if u, isLoad := r.Results[0].(*ssa.UnOp); isLoad && u.X == accAlloc {
				continue
			}
			if v := pendingOf(r); v != nil && isConstBool(v, true) {
				continue
			}
			overwritten = true // a return that does not carry the accumulator: treat the struct form as unrecognised
		}
	}
	for _, e := range open {
		start := core.Point{B: e.B.Succs[e.Succ], I: 0}
		bad := (&core.Walk{Stop: func(i ssa.Instruction) bool {
			st, ok := pendingFieldStore(i)
			return ok && isConstBool(st.Val, true) && !overwritten
		}, TargetEnv: func(i ssa.Instruction, env core.Env) bool {
			r, ok := i.(*ssa.Return)
			if !ok {
				return false
			}
			// struct form: the accumulator says "pending" only if the store was passed — and the walk stops there, so a
			// return of the accumulator reached from the open edge did not pass it (the literal summary of the struct
			// would show the stored `true` regardless of the path)
			if u, isLoad := r.Results[0].(*ssa.UnOp); isLoad {
				if al, isAlloc := u.X.(*ssa.Alloc); isAlloc {
					dominated := false
					core.Instrs(fn, func(x ssa.Instruction) {
						if st, ok := pendingFieldStore(x); ok && st.Addr.(*ssa.FieldAddr).X == ssa.Value(al) && core.Dominates(st, r) {
							dominated = true
						}
					})
					if !dominated {
						return true // an accumulator whose `pending` store was not passed since the open edge
					}
				}
			}
			v := pendingOf(r)
			if v == nil {
				return true
			}
			val, known := core.EvalBool(v, env)
			return !known || !val
		}}).From(start, core.Env{})
		c.Decide(bad == nil, rule, "statuschecker.CheckPendingCertificatesStatus#open-cert-is-pending", e.If.Pos(), "once a local certificate is found not closed, every return reports ExistPendingCerts=true")
	}
	// (c) IsClosed is evaluated on the certificate after updateCertificateStatus refreshed it from the agglayer header
	upd := core.CallsTo(fn, "(*aggsender/statuschecker.certStatusChecker).updateCertificateStatus")
	okOrder := len(upd) == 1
	if okOrder {
		for _, e := range open {
			if !core.Dominates(upd[0], e.If) {
				okOrder = false
			}
		}
	}
	c.Decide(okOrder, rule, "statuschecker.CheckPendingCertificatesStatus#closed-after-update", fn.Pos(), "the open/closed decision uses the status refreshed from the agglayer")
	// (d) the set of statuses polled is the set of open statuses
	st := c.MustFn(rule, "agglayer/types", "CertificateStatus", "IsOpen")
	if st != nil {
		ok := false
		for _, r := range core.Returns(st) {
			if sx.Of(r.Results[0]).String() == "slices.Contains[[]github.com/agglayer/aggkit/agglayer/types.CertificateStatus github.com/agglayer/aggkit/agglayer/types.CertificateStatus](agglayer/types.NonSettledStatuses, c)" ||
				strings.Contains(sx.Of(r.Results[0]).String(), "agglayer/types.NonSettledStatuses, c)") {
				ok = true
			}
		}
		c.Decide(ok, rule, "agglayer/types.CertificateStatus.IsOpen", st.Pos(), "IsOpen ≡ membership in NonSettledStatuses")
	}
	closed := c.MustFn(rule, "agglayer/types", "CertificateStatus", "IsClosed")
	if closed != nil {
		ok := false
		for _, r := range core.Returns(closed) {
			if sx.Of(r.Results[0]).String() == "!(agglayer/types.CertificateStatus).IsOpen(c)" {
				ok = true
			}
		}
		c.Decide(ok, rule, "agglayer/types.CertificateStatus.IsClosed", closed.Pos(), "IsClosed ≡ !IsOpen")
	}
	// NonSettledStatuses = every status constant except Settled and InError
	c.Decide(nonSettledInit(c), rule, "agglayer/types.NonSettledStatuses", token.NoPos, "NonSettledStatuses lists exactly the status constants other than Settled and InError")
	// the pending query uses it
	getArg := ""
	core.Instrs(fn, func(i ssa.Instruction) {
		if strings.HasSuffix(core.CallName(i), ").GetCertificateHeadersByStatus") {
			getArg = sx.Of(core.AsCall(i).Args[0]).String()
		}
	})
	c.Decide(getArg == "agglayer/types.NonSettledStatuses", rule, "statuschecker.CheckPendingCertificatesStatus#polled-set", fn.Pos(), "the local certificates polled are those with a non-settled status: "+getArg)
}

func firstInstr(p core.Point) ssa.Instruction { return p.B.Instrs[p.I] }

// constsOfType returns name -> exact value string of the package-level constants of the given named type.
func constsOfType(sc *types.Scope, named *types.Named) map[string]string {
	out := map[string]string{}
	if named == nil {
		return out
	}
	for _, n := range sc.Names() {
		if cst, ok := sc.Lookup(n).(*types.Const); ok && types.Identical(cst.Type(), named) {
			out[n] = cst.Val().ExactString()
		}
	}
	return out
}

// nonSettledInit inspects the package initialiser: NonSettledStatuses = {all CertificateStatus constants} \ {Settled, InError}.
func nonSettledInit(c *core.Ctx) bool {
	p := c.Pkg("agglayer/types")
	sp := c.SSA[core.P("agglayer/types")]
	if p == nil || sp == nil {
		return false
	}
	// constants of type CertificateStatus
	named := c.Named("agglayer/types", "CertificateStatus")
	vals := map[string]string{}
	consts := constsOfType(p.Types.Scope(), named)
	for name, v := range consts {
		vals[v] = name
	}
	initFn := sp.Func("init")
	if initFn == nil {
		return false
	}
	sx := core.NewSymx()
	got := map[string]bool{}
	found := false
	core.Instrs(initFn, func(i ssa.Instruction) {
		st, ok := i.(*ssa.Store)
		if !ok {
			return
		}
		g, ok := st.Addr.(*ssa.Global)
		if !ok || g.Name() != "NonSettledStatuses" {
			return
		}
		found = true
		t := sx.Of(st.Val)
		t.Walk(func(x *core.Term) {
			if x.Op == "const" {
				if name, ok := vals[x.Name]; ok {
					got[name] = true
				}
			}
		})
	})
	if !found {
		return false
	}
	for name := range consts {
		want := name != "Settled" && name != "InError"
		if got[name] != want {
			return false
		}
	}
	return len(consts) >= 5
}

func c02Submit(c *core.Ctx) {
	const rule = "C02-submit"
	n := 0
	for _, fn := range c.AllFuncs() {
		core.Instrs(fn, func(i ssa.Instruction) {
			cc := core.AsCall(i)
			if cc == nil || methodName(cc) != "SendCertificate" {
				return
			}
			if core.IsMockPkg(fn.Pkg.Pkg.Path()) {
				return
			}
			name := core.CallName(i)
			// transport-level forwarding inside the gRPC client (to the generated stub) is not a submission decision
			if strings.HasPrefix(core.ShortFn(fn), "(*agglayer/grpc.AgglayerGRPCClient).SendCertificate") {
				return
			}
			n++
			c.Decide(core.ShortFn(fn) == sendCertFn && name == agglayerSendIf, rule, "call-SendCertificate@"+core.ShortFn(fn), i.Pos(), "certificates are submitted from AggSender.sendCertificate only ("+name+")")
		})
	}
	if n == 0 {
		c.Undecide(rule, "call-SendCertificate", 0, "nobody submits certificates")
	}
	for _, cs := range c.AllCallsTo(sendCertFn) {
		c.Decide(core.ShortFn(cs.Fn) == "(*aggsender.AggSender).sendCertificates", rule, "call-sendCertificate@"+core.ShortFn(cs.Fn), cs.Instr.Pos(), "sendCertificate is called from the gated loop only")
	}
}

// ---- C02-next: height / previous LER / first block derivations -------------------------------------------------------

// startLERok: the case is reached only after getStartLER returned no error.
func startLERok(fn *ssa.Function, sx *core.Symx, rc core.RetCase, startLER string) bool {
	okE := core.TermEdges(fn, sx, func(s string, _ *core.Term) bool { return s == "("+startLER+"#1 != const(nil))" }, false)
	if len(okE) > 0 && rc.ReachableOnlyVia(fn, okE) {
		return true
	}
	// the error travelled through a merge (helper expanded in place): find the getStartLER call whose value is returned
	if ex, ok := rc.Values[1].(*ssa.Extract); ok && ex.Index == 0 {
		if cl, ok := ex.Tuple.(*ssa.Call); ok {
			probe := core.RetCase{Ret: rc.Ret, Pred: rc.Pred, Succ: rc.Succ, Values: []ssa.Value{core.ExtractOf(cl, 1)}}
			return probe.Values[0] != nil && probe.NilTestedAfterSplit(fn, 0, true)
		}
	}
	return false
}

func c02Next(c *core.Ctx) {
	const rule = "C02-next"
	fn := c.MustFn(rule, "aggsender/flows", "baseFlow", "getNextHeightAndPreviousLER")
	if fn == nil {
		return
	}
	sx := core.NewSymx()
	last := "lastSentCertificateInfo"
	edge := func(pred string, want bool) []core.IfEdge {
		return core.TermEdges(fn, sx, func(s string, _ *core.Term) bool { return s == pred }, want)
	}
	isNil := edge("("+last+" == const(nil))", true)
	isNil = append(isNil, edge("("+last+" != const(nil))", false)...)
	closed := edge("(agglayer/types.CertificateStatus).IsClosed("+last+".Status)", true)
	closed = append(closed, edge("(agglayer/types.CertificateStatus).IsOpen("+last+".Status)", false)...)
	settled := edge("(agglayer/types.CertificateStatus).IsSettled("+last+".Status)", true)
	inErr := edge("(agglayer/types.CertificateStatus).IsInError("+last+".Status)", true)
	hasPrev := edge("("+last+".PreviousLocalExitRoot != const(nil))", true)
	hasPrev = append(hasPrev, edge("("+last+".PreviousLocalExitRoot == const(nil))", false)...)
	h0 := edge("("+last+".Height == const(0))", true)
	only := func(rc core.RetCase, edges ...[]core.IfEdge) bool {
		// every path to this return passes one edge of EACH given set
		for _, es := range edges {
			if !rc.ReachableOnlyVia(fn, es) {
				return false
			}
		}
		return true
	}
	n := 0
	for _, rc := range core.ReturnCases(fn) {
		if len(rc.Values) != 3 {
			continue
		}
		h, ler, errT := sx.Of(rc.Values[0]).String(), sx.Of(rc.Values[1]).String(), sx.Of(rc.Values[2]).String()
		if strings.HasPrefix(errT, "fmt.Errorf(") || strings.HasPrefix(errT, "errors.New(") {
			continue // refusing is always safe
		}
		if errT != "const(nil)" {
			// an error handed through on its own failure edge is a refusal too
			if ne := core.NilEdgesRes(fn, rc.Values[2], false); len(ne) > 0 && rc.ReachableOnlyVia(fn, ne) {
				continue
			}
			if rc.NilTestedAfterSplit(fn, 2, false) {
				continue
			}
		}
		n++
		construct := fmt.Sprintf("flows.getNextHeightAndPreviousLER#return(%s,%s)", core.NewSymx().Of(rc.Values[0]).Brief(), core.NewSymx().Of(rc.Values[1]).Brief())
		okCase := false
		why := ""
		startLER := "(*aggsender/flows.baseFlow).getStartLER(f)"
		switch {
		case h == "("+last+".Height + const(1))":
			okCase = ler == last+".NewLocalExitRoot" && errT == "const(nil)" && only(rc, settled)
			why = "height+1 / NewLocalExitRoot only for a settled last certificate"
		case h == last+".Height" && ler == "*"+last+".PreviousLocalExitRoot":
			okCase = errT == "const(nil)" && only(rc, inErr, hasPrev, closed)
			why = "same height / stored previous LER only for an in-error certificate that has one"
		case ler == startLER+"#0" && (h == "const(0)" || h == last+".Height" && only(rc, h0)) &&
			(errT == startLER+"#1" || errT == "const(nil)" && startLERok(fn, sx, rc, startLER)):
			// first certificate: no last certificate, or an in-error one at height 0 without previous LER
			firstEdges := append(append([]core.IfEdge{}, isNil...), h0...)
			okCase = only(rc, firstEdges)
			if okCase && !rc.ReachableOnlyVia(fn, isNil) {
				okCase = only(rc, inErr, h0)
			}
			why = "height 0 / start LER only when there is no last certificate or it is in error at height 0"
		case h == last+".Height":
			prev := "(aggsender/db.AggSenderStorage).GetCertificateHeaderByHeight(f.storage, (" + last + ".Height - const(1)))"
			prevSettled := edge("(agglayer/types.CertificateStatus).IsSettled("+prev+"#0.Status)", true)
			prevErrNil := edge("("+prev+"#1 != const(nil))", false)
			prevErrNil = append(prevErrNil, edge("("+prev+"#1 == const(nil))", true)...)
			prevNonNil := edge("("+prev+"#0 == const(nil))", false)
			prevNonNil = append(prevNonNil, edge("("+prev+"#0 != const(nil))", true)...)
			okCase = ler == prev+"#0.NewLocalExitRoot" && errT == "const(nil)" && only(rc, inErr, closed, prevSettled, prevErrNil, prevNonNil)
			why = "same height / new LER of the stored certificate at height-1, which must exist and be settled"
		default:
			why = "unexpected (height, previous LER) pair"
		}
		if okCase {
			c.Hold(rule, construct, why)
		} else {
			c.Violate(rule, construct, rc.Ret.Pos(), fmt.Sprintf("next (height, previous LER) = (%s, %s, err=%s) is not justified by the last certificate's state: expected %s", h, ler, errT, why))
		}
		// never for an open certificate
		if !strings.HasPrefix(h, "const(0)") || !rc.ReachableOnlyVia(fn, isNil) {
			if !only(rc, closed) {
				c.Violate(rule, construct+"#closed", rc.Ret.Pos(), "a (height, LER) is produced although the last certificate may still be open")
			}
		}
	}
	if n < 4 {
		c.Undecide(rule, "flows.getNextHeightAndPreviousLER#cases", fn.Pos(), fmt.Sprintf("expected at least 4 producing returns, found %d", n))
	}
	// status predicates
	for _, pr := range [][2]string{{"IsSettled", "Settled"}, {"IsInError", "InError"}} {
		f := c.MustFn(rule, "agglayer/types", "CertificateStatus", pr[0])
		if f == nil {
			continue
		}
		consts := constsOfType(c.Pkg("agglayer/types").Types.Scope(), c.Named("agglayer/types", "CertificateStatus"))
		ok := false
		for _, r := range core.Returns(f) {
			if sx.Of(r.Results[0]).String() == "(c == const("+consts[pr[1]]+"))" {
				ok = true
			}
		}
		c.Decide(ok, rule, "agglayer/types.CertificateStatus."+pr[0], f.Pos(), pr[0]+" ≡ c == "+pr[1])
	}
}

func c02LastSent(c *core.Ctx) {
	const rule = "C02-range"
	fn := c.MustFn(rule, "aggsender/flows", "baseFlow", "getLastSentBlockAndRetryCount")
	if fn == nil {
		return
	}
	sx := core.NewSymx()
	last := "lastSentCertificateInfo"
	consts := constsOfType(c.Pkg("agglayer/types").Types.Scope(), c.Named("agglayer/types", "CertificateStatus"))
	inErrT := core.TermEdges(fn, sx, func(s string, _ *core.Term) bool {
		return s == "("+last+".Status == const("+consts["InError"]+"))" || s == "(agglayer/types.CertificateStatus).IsInError("+last+".Status)"
	}, true)
	inErrF := core.TermEdges(fn, sx, func(s string, _ *core.Term) bool {
		return s == "("+last+".Status == const("+consts["InError"]+"))" || s == "(agglayer/types.CertificateStatus).IsInError("+last+".Status)"
	}, false)
	isNil := core.TermEdges(fn, sx, func(s string, _ *core.Term) bool { return s == "("+last+" == const(nil))" }, true)
	fromPos := core.TermEdges(fn, sx, func(s string, _ *core.Term) bool { return s == "("+last+".FromBlock > const(0))" }, true)
	via := func(rc core.RetCase, es []core.IfEdge) bool { return rc.ReachableOnlyVia(fn, es) }
	fromZero := core.TermEdges(fn, sx, func(s string, _ *core.Term) bool { return s == "("+last+".FromBlock > const(0))" }, false)
	n := 0
	for _, rc := range core.ReturnCases(fn) {
		if len(rc.Values) != 2 {
			continue
		}
		n++
		blk, retry := sx.Of(rc.Values[0]).String(), sx.Of(rc.Values[1]).String()
		construct := fmt.Sprintf("flows.getLastSentBlockAndRetryCount#return(%s,%s)", core.NewSymx().Of(rc.Values[0]).Brief(), core.NewSymx().Of(rc.Values[1]).Brief())
		ok := false
		switch {
		case blk == "(*aggsender/flows.baseFlow).StartL2Block(f)" && retry == "const(0)":
			ok = via(rc, isNil)
		case blk == last+".ToBlock" && retry == "const(0)":
			ok = via(rc, inErrF)
		case blk == "("+last+".FromBlock - const(1))" && retry == "("+last+".RetryCount + const(1))":
			ok = via(rc, inErrT) && via(rc, fromPos)
		case blk == last+".ToBlock" && retry == "("+last+".RetryCount + const(1))":
			// in error with FromBlock == 0: nothing before block 0, ToBlock is kept (documented quirk of the code: the
			// replacement then starts at ToBlock+1; only reachable when FromBlock is 0)
			ok = via(rc, inErrT) && via(rc, fromZero)
		}
		c.Decide(ok, rule, construct, rc.Ret.Pos(), fmt.Sprintf("(last sent block, retry count) = (%s, %s) matches the last certificate's state (settled/open → (ToBlock, 0); in error → (FromBlock-1, RetryCount+1); none → (StartL2Block, 0))", blk, retry))
	}
	if n < 3 {
		c.Undecide(rule, "flows.getLastSentBlockAndRetryCount#cases", fn.Pos(), "fewer than 3 return cases")
	}
	// the build parameters use them
	gp := c.MustFn(rule, "aggsender/flows", "baseFlow", "GetCertificateBuildParamsInternal")
	if gp == nil {
		return
	}
	found := false
	core.Instrs(gp, func(i ssa.Instruction) {
		call, ok := i.(*ssa.Call)
		if !ok || core.CallName(call) != "(*aggsender/flows.baseFlow).limitCertSize" {
			return
		}
		found = true
		bindLivePhis(sx, gp, call)
		lit := sx.Of(call.Call.Args[1])
		f := func(n string) string {
			if lit.Fields[n] == nil {
				return "<unset>"
			}
			return lit.Fields[n].String()
		}
		lastHdr := "(aggsender/db.AggSenderStorage).GetLastSentCertificateHeader(f.storage)#0"
		gl := "(*aggsender/flows.baseFlow).getLastSentBlockAndRetryCount(f, " + lastHdr + ")"
		from := "(" + gl + "#0 + const(1))"
		to := "(aggsender/types.BridgeQuerier).GetLastProcessedBlock(f.l2BridgeQuerier, ctx)#0"
		bc := "(aggsender/types.BridgeQuerier).GetBridgesAndClaims(f.l2BridgeQuerier, ctx, " + from + ", " + to + ")"
		checks := map[string]string{"FromBlock": from, "ToBlock": to, "RetryCount": gl + "#1", "LastSentCertificate": lastHdr, "Bridges": bc + "#0", "Claims": bc + "#1"}
		for _, k := range []string{"FromBlock", "ToBlock", "RetryCount", "LastSentCertificate", "Bridges", "Claims"} {
			c.Decide(f(k) == checks[k], rule, "flows.GetCertificateBuildParamsInternal#"+k, call.Pos(), k+" ← "+f(k))
		}
	})
	if !found {
		c.Undecide(rule, "flows.GetCertificateBuildParamsInternal#params", gp.Pos(), "limitCertSize call not found")
	}
}

func c02Retry(c *core.Ctx) {
	const rule = "C02-retry"
	sx := core.NewSymx()
	// verifyRetryCertStartingBlock: a retry whose FromBlock differs from the last sent certificate's is refused
	v := c.MustFn(rule, "aggsender/flows", "baseFlow", "verifyRetryCertStartingBlock")
	if v != nil {
		bp := "buildParams"
		mism := core.TermEdges(v, sx, func(s string, _ *core.Term) bool {
			return s == "("+bp+".FromBlock != "+bp+".LastSentCertificate.FromBlock)"
		}, true)
		retry := core.TermEdges(v, sx, func(s string, _ *core.Term) bool {
			return s == "(*aggsender/types.CertificateBuildParams).IsARetry("+bp+")"
		}, true)
		ok := len(mism) > 0 && len(retry) > 0
		if ok {
			for _, e := range mism {
				start := core.Point{B: e.B.Succs[e.Succ], I: 0}
				f := (&core.Walk{Target: func(i ssa.Instruction) bool {
					r, isR := i.(*ssa.Return)
					return isR && isNilConst(r.Results[0])
				}}).From(start, nil)
				if f != nil {
					ok = false
				}
			}
		}
		c.Decide(ok, rule, "flows.verifyRetryCertStartingBlock", v.Pos(), "IsARetry && FromBlock != LastSentCertificate.FromBlock ⇒ error")
	}
	isRetry := c.MustFn(rule, "aggsender/types", "CertificateBuildParams", "IsARetry")
	if isRetry != nil {
		// the predicate is a conjunction over {c != nil, c.RetryCount > 0, c.LastSentCertificate != nil} and contains RetryCount > 0
		allowed := map[string]bool{"(c != const(nil))": true, "(c.RetryCount > const(0))": true, "(c.LastSentCertificate != const(nil))": true}
		ok, hasRetry := true, false
		seen := func(v ssa.Value) {
			for _, a := range sx.Of(v).Alts() {
				s := a.String()
				if s == "const(false)" {
					continue
				}
				if !allowed[s] {
					ok = false
				}
				if s == "(c.RetryCount > const(0))" {
					hasRetry = true
				}
			}
		}
		for _, b := range isRetry.Blocks {
			if iff, isIf := b.Instrs[len(b.Instrs)-1].(*ssa.If); isIf {
				seen(iff.Cond)
			}
		}
		for _, r := range core.Returns(isRetry) {
			seen(r.Results[0])
		}
		c.Decide(ok && hasRetry, rule, "types.CertificateBuildParams.IsARetry", isRetry.Pos(), "IsARetry ≡ c != nil && RetryCount > 0 && LastSentCertificate != nil")
	}
	vb := c.MustFn(rule, "aggsender/flows", "baseFlow", "VerifyBuildParams")
	if vb != nil {
		calls := core.CallsTo(vb, "(*aggsender/flows.baseFlow).verifyRetryCertStartingBlock")
		ok := len(calls) == 1
		if ok {
			call := calls[0].(*ssa.Call)
			nilE := core.NilEdgesRes(vb, call, true)
			f := core.ReachableWithout(core.Entry(vb), nilE, func(i ssa.Instruction) bool {
				r, isR := i.(*ssa.Return)
				return isR && isNilConst(r.Results[0])
			})
			ok = len(nilE) > 0 && f == nil && call.Call.Args[1] == ssa.Value(vb.Params[2])
		}
		c.Decide(ok, rule, "flows.VerifyBuildParams#checks-retry-start", vb.Pos(), "VerifyBuildParams succeeds only if verifyRetryCertStartingBlock(fullCert) did")
	}
	// every flow returns build params only after VerifyBuildParams (or copies the first block from the stored header)
	for _, fl := range [][2]string{{"PPFlow", "GetCertificateBuildParams"}, {"AggchainProverFlow", "verifyBuildParamsAndGenerateProof"}} {
		fn := c.MustFn(rule, "aggsender/flows", fl[0], fl[1])
		if fn == nil {
			continue
		}
		var vcall *ssa.Call
		core.Instrs(fn, func(i ssa.Instruction) {
			if strings.HasSuffix(core.CallName(i), ").VerifyBuildParams") {
				vcall, _ = i.(*ssa.Call)
			}
		})
		construct := "flows.(*" + fl[0] + ")." + fl[1] + "#verified-before-return"
		if vcall == nil {
			c.Violate(rule, construct, fn.Pos(), "build parameters are returned without VerifyBuildParams (retry start block / claim GER checks)")
			continue
		}
		nilE := core.NilEdgesRes(fn, vcall, true)
		f := core.ReachableWithout(core.Entry(fn), nilE, func(i ssa.Instruction) bool {
			r, isR := i.(*ssa.Return)
			if !isR || len(r.Results) != 2 {
				return false
			}
			return !isNilConst(r.Results[0])
		})
		c.Decide(len(nilE) > 0 && f == nil, rule, construct, vcall.Pos(), "non-nil build params are returned only after VerifyBuildParams()==nil")
	}
	// prover flow: the resend-with-stored-proof path copies the range from the stored header
	pf := c.MustFn(rule, "aggsender/flows", "AggchainProverFlow", "GetCertificateBuildParams")
	if pf != nil {
		n := 0
		core.Instrs(pf, func(i ssa.Instruction) {
			al, ok := i.(*ssa.Alloc)
			if !ok || !al.Heap || !strings.HasSuffix(al.Type().String(), "types.CertificateBuildParams") {
				return
			}
			n++
			lit := sx.Of(al)
			hdr := "(aggsender/db.AggSenderStorage).GetLastSentCertificateHeaderWithProofIfInError(a.storage, ctx)#0"
			g := func(k string) string {
				if lit.Fields[k] == nil {
					return "<unset>"
				}
				return lit.Fields[k].String()
			}
			bc := "(aggsender/types.BridgeQuerier).GetBridgesAndClaims(a.l2BridgeQuerier, ctx, " + hdr + ".FromBlock, " + hdr + ".ToBlock)"
			ok2 := g("FromBlock") == hdr+".FromBlock" && g("ToBlock") == hdr+".ToBlock" && g("RetryCount") == "("+hdr+".RetryCount + const(1))" &&
				g("LastSentCertificate") == hdr && g("Bridges") == bc+"#0" && g("Claims") == bc+"#1"
			c.Decide(ok2, rule, "flows.(*AggchainProverFlow).GetCertificateBuildParams#resend-literal", al.Pos(), "a resend reuses FromBlock/ToBlock of the in-error header, RetryCount+1, events of exactly that range: "+lit.String())
		})
		if n == 0 {
			c.Undecide(rule, "flows.(*AggchainProverFlow).GetCertificateBuildParams#resend-literal", pf.Pos(), "resend literal not found")
		}
	}
}

func c02Store(c *core.Ctx) {
	const rule = "C02-store"
	fn := c.MustFn(rule, "aggsender", "AggSender", "sendCertificate")
	if fn == nil {
		return
	}
	sx := core.NewSymx()
	var save *ssa.Call
	core.Instrs(fn, func(i ssa.Instruction) {
		if core.IsCallTo(i, "(*aggsender.AggSender).saveCertificateToStorage") {
			save, _ = i.(*ssa.Call)
		}
	})
	if save == nil {
		c.Violate(rule, "aggsender.(*AggSender).sendCertificate#save", fn.Pos(), "the sent certificate is not stored")
		return
	}
	// placeholders that travel with an error of an expanded helper (`return types.Certificate{}, err`) never reach the save
	bindLivePhis(sx, fn, save)
	ci := sx.Of(save.Call.Args[2])
	hdr := ci.Fields["Header"]
	cert := "(aggsender/types.AggsenderFlow).BuildCertificate(a.flow, ctx, (aggsender/types.AggsenderFlow).GetCertificateBuildParams(a.flow, ctx)#0)#0"
	params := "(aggsender/types.AggsenderFlow).GetCertificateBuildParams(a.flow, ctx)#0"
	want := map[string]string{
		"Height":              cert + ".Height",
		"NewLocalExitRoot":    cert + ".NewLocalExitRoot",
		"RetryCount":          params + ".RetryCount",
		"FromBlock":           params + ".FromBlock",
		"ToBlock":             params + ".ToBlock",
		"CertificateID":       "(agglayer.AgglayerClientInterface).SendCertificate(a.aggLayerClient, ctx, " + cert + ")#0",
		"L1InfoTreeLeafCount": params + ".L1InfoTreeLeafCount",
	}
	if hdr == nil || hdr.Op != "lit" {
		c.Undecide(rule, "aggsender.(*AggSender).sendCertificate#header", save.Pos(), "stored header is not a literal: "+ci.String())
		return
	}
	for _, k := range []string{"Height", "NewLocalExitRoot", "RetryCount", "FromBlock", "ToBlock", "CertificateID", "L1InfoTreeLeafCount"} {
		got := "<unset>"
		if hdr.Fields[k] != nil {
			got = hdr.Fields[k].String()
		}
		c.Decide(got == want[k], rule, "aggsender.(*AggSender).sendCertificate#header."+k, save.Pos(), "stored header field "+k+" ← "+got)
	}
	prev := "<unset>"
	if hdr.Fields["PreviousLocalExitRoot"] != nil {
		prev = hdr.Fields["PreviousLocalExitRoot"].String()
	}
	c.Decide(strings.Contains(prev, cert+".PrevLocalExitRoot") && !strings.Contains(prev, "phi{") && !strings.Contains(prev, "LastSentCertificate"), rule, "aggsender.(*AggSender).sendCertificate#header.PreviousLocalExitRoot", save.Pos(), "stored previous LER ← the sent certificate's: "+prev)
	// stored only after the agglayer accepted it; and the send uses the certificate that was built
	var send *ssa.Call
	core.Instrs(fn, func(i ssa.Instruction) {
		if core.IsCallTo(i, agglayerSendIf) {
			send, _ = i.(*ssa.Call)
		}
	})
	if send != nil {
		nilE := core.NilEdgesRes(fn, core.ErrValueOf(send), true)
		f := core.ReachableWithout(core.Entry(fn), nilE, func(i ssa.Instruction) bool { return i == ssa.Instruction(save) })
		c.Decide(len(nilE) > 0 && f == nil, rule, "aggsender.(*AggSender).sendCertificate#store-after-accept", save.Pos(), "the certificate is recorded only after SendCertificate returned no error")
		// a failed save is reported to the caller (the loop then keeps the gate closed through the agglayer's pending cert)
		saveErr := core.NilEdgesRes(fn, save, false)
		bad := false
		for _, e := range saveErr {
			start := core.Point{B: e.B.Succs[e.Succ], I: 0}
			if (&core.Walk{Target: func(i ssa.Instruction) bool {
				r, ok := i.(*ssa.Return)
				return ok && isNilConst(r.Results[1])
			}}).From(start, nil) != nil {
				bad = true
			}
		}
		c.Decide(len(saveErr) > 0 && !bad, rule, "aggsender.(*AggSender).sendCertificate#save-error-reported", save.Pos(), "a failed save is returned as an error")
	}
}

func init() {
	register(&Property{
		ID:          "C02",
		Level:       "other",
		Explanation: "Decides the local gates and derivations the gap-free certificate chain rests on, on every path: C02-gate — each sendCertificate call in the loop is reachable only on !ExistPendingCerts of a CheckPendingCertificatesStatus call of the same iteration, and no second send follows without a new check; C02-failclosed — every error edge of the status check (storage read, GetCertificateHeader, status update) returns ExistPendingCerts=true, a certificate found open after its status was refreshed forces the result to true (boolean accumulator tracked path-sensitively), and the open/closed predicates and NonSettledStatuses are read from their bodies and initialiser; C02-submit — SendCertificate is invoked from one function, itself called only from the gated loop; C02-next — every non-error return of getNextHeightAndPreviousLER is matched, with its dominating branch facts, against {settled → (Height+1, NewLocalExitRoot); in error with previous LER → (Height, *PreviousLocalExitRoot); in error at height 0 / no certificate → (0, start LER); in error → (Height, new LER of the stored, existing, settled certificate at Height-1)} and is unreachable for an open certificate; C02-range — getLastSentBlockAndRetryCount's return cases and the FromBlock = previous+1 / ToBlock / RetryCount / events provenance in GetCertificateBuildParamsInternal; C02-retry — a retry whose first block differs is refused, both flows return parameters only after VerifyBuildParams, the prover's resend literal copies the range of the stored header; C02-store — the stored header takes Height/LERs/ID from the sent certificate and its answer, range and retry count from the parameters, only after the Agglayer accepted it. The global 'settled certificates contain every event exactly once over all schedules' is a protocol property over interleavings and is not decided. Added after round 7: C02-pk (keys of the certificate tables, shared with C13), C02-inputs (start-up recovery decides on the results of all three lookups; an error is never read as absent). Added after round 9: C02-meta (shared with C03-meta) and C02-decide (shared with C13-decide).",
		Rules: []Rule{
			{ID: "C02-gate", Floor: 2, Run: c02Gate, Text: "[DOM] send only on !ExistPendingCerts of a fresh status check"},
			{ID: "C02-failclosed", Floor: 9, Run: c02FailClosed, Text: "[DOM]+[PROV]+bool env: errors and open certificates report pending=true; predicate definitions"},
			{ID: "C02-submit", Floor: 2, Run: c02Submit, Text: "[WHO] single submission site behind the gate"},
			{ID: "C02-pk", Floor: 3, Run: shared("C02-pk", c13PK), Text: "(shared with C13-pk) keys of the certificate tables: a second replacement at one height must be storable, otherwise the accepted certificate is not recorded and the height is submitted again"},
			{ID: "C02-next", Floor: 6, Run: c02Next, Text: "guarded-return matching of (height, previous LER) against the last certificate's state"},
			{ID: "C02-range", Floor: 9, Run: c02LastSent, Text: "guarded-return matching of (last block, retry); build-params provenance"},
			{ID: "C02-retry", Floor: 6, Run: c02Retry, Text: "[DOM]+[PROV] retry keeps first block; VerifyBuildParams before returning params; resend literal"},
			{ID: "C02-inputs", Floor: 3, Run: shared("C02-inputs", c13Inputs), Text: "(shared with C13-inputs) start-up recovery never reads a failed Agglayer query as no certificate in flight"},
			{ID: "C02-recover", Floor: 8, Run: shared("C02-recover", c13Recover), Text: "(shared with C13-recover) a record rebuilt from an Agglayer header keeps the certificate's real block range"},
			{ID: "C02-cut", Floor: 13, Run: shared("C02-cut", c17Filter), Text: "(shared with C17-filter) a cut keeps the events of its range and copies every other parameter, RetryCount included"},
			{ID: "C02-ler", Floor: 9, Run: shared("C02-ler", c03NewLER), Text: "(shared with C03-newler) the new local exit root follows from the exits of the range"},
			{ID: "C02-meta", Floor: 14, Run: shared("C02-meta", c03Meta), Text: "(shared with C03-meta) the block range a record rebuilt from an Agglayer header gets is decoded with the widths it was written with: a narrower offset makes the next certificate re-settle exits"},
			{ID: "C02-decide", Floor: 10, Run: shared("C02-decide", c13Decide), Text: "(shared with C13-decide) start-up reconciliation never adopts the status of a different certificate at the same height"},
			{ID: "C02-store", Floor: 10, Run: c02Store, Text: "[FIELDMAP]+[DOM] stored header fields; store only after accept; save error reported"},
		},
	})
}
