package rules

import (
	"fmt"
	"go/token"
	"go/types"
	"sort"
	"strings"

	"golang.org/x/tools/go/ssa"

	"verif/checker/internal/core"
)

// Specification terms taken from the L1/L2 contracts (frozen, with citation):
//
//	PolygonZkEVMBridgeV2.getLeafValue:
//	   keccak256(abi.encodePacked(uint8 leafType, uint32 originNetwork, address originAddress,
//	             uint32 destinationNetwork, address destinationAddress, uint256 amount, bytes32 metadataHash))
//	   with metadataHash = keccak256(metadata); packed encoding fixes widths and big-endianness.
//	DepositContractBase._addLeaf / getRoot: node = keccak256(abi.encodePacked(left, right)), zero hashes z[i] = keccak(z[i-1], z[i-1]).
//	PolygonZkEVMGlobalExitRootV2: globalExitRoot = keccak256(mainnetExitRoot, rollupExitRoot);
//	   l1InfoLeaf = keccak256(abi.encodePacked(bytes32 ger, uint256 blockhash(parent), uint64 timestamp)).
const (
	specBridgeLeaf = "K(U8(%[1]s.LeafType)|BE32(%[1]s.OriginNetwork)|RAW20(%[1]s.OriginAddress)|BE32(%[1]s.DestinationNetwork)|RAW20(%[1]s.DestinationAddress)|U256BE(%[1]s.Amount)|K(BYTES(%[1]s.Metadata)))"
	specNode       = "K(RAW32(left)|RAW32(right))"
)

// allocOfType finds the (unique) heap/local allocation of a struct literal of the given type name suffix in fn.
func allocsOfType(fn *ssa.Function, suffix string) []*ssa.Alloc {
	var out []*ssa.Alloc
	core.Instrs(fn, func(i ssa.Instruction) {
		if al, ok := i.(*ssa.Alloc); ok {
			if pt, ok := al.Type().(*types.Pointer); ok {
				if n, ok := pt.Elem().(*types.Named); ok && strings.HasSuffix(n.String(), suffix) {
					out = append(out, al)
				}
			}
		}
	})
	return out
}

func fieldsOf(t *core.Term) map[string]string {
	out := map[string]string{}
	if t == nil {
		return out
	}
	for k, v := range t.Fields {
		out[k] = v.String()
	}
	return out
}

// checkFields compares a literal's fields with the expected provenance (exact strings); fields not listed are ignored.
func checkFields(c *core.Ctx, rule, construct string, pos token.Pos, lit *core.Term, want map[string]string) {
	if lit == nil || lit.Op != "lit" {
		c.Undecide(rule, construct, pos, "expected a struct literal, got "+fmt.Sprint(lit))
		return
	}
	got := fieldsOf(lit)
	keys := make([]string, 0, len(want))
	for k := range want {
		keys = append(keys, k)
	}
	sort.Strings(keys)
	for _, k := range keys {
		g, ok := got[k]
		if !ok {
			g = "<unset>"
		}
		c.Decide(g == want[k], rule, construct+"."+k, pos, k+" ← "+g+" (expected "+want[k]+")")
	}
}

func c01Leaf(c *core.Ctx) {
	const rule = "C01-leaf"
	fn := c.MustFn(rule, "bridgesync", "Bridge", "Hash")
	if fn == nil {
		return
	}
	lx := core.NewLayout()
	for _, r := range core.Returns(fn) {
		got := lx.Of(r.Results[0])
		want := fmt.Sprintf(specBridgeLeaf, "b")
		if strings.Contains(got, "?") {
			c.Undecide(rule, "bridgesync.(*Bridge).Hash#layout", r.Pos(), "layout not fully modelled: "+got)
		} else {
			c.Decide(got == want, rule, "bridgesync.(*Bridge).Hash#layout", r.Pos(), "leaf = "+got+" ; contract getLeafValue = "+want)
		}
	}
	// the nil-amount normalisation does not change the encoding (nil → 0)
}

func c01Step(c *core.Ctx) {
	const rule = "C01-step"
	treeAddLeaf(c, rule)
	treeInitCache(c, rule)
	nodeHashRule(c, rule)
	onlyNextIndex(c, rule)
}

// onlyNextIndex: AddLeaf writes (frontier, nodes, root row) only for the index that follows the frontier. From the entry,
// and again after every rebuild of the frontier (initCache changes lastIndex, so an earlier comparison says nothing), no
// write is reachable without passing an edge on which int64(leaf.Index) == t.lastIndex+1 was just established.
func onlyNextIndex(c *core.Ctx, rule string) {
	fn := c.MustFn(rule, "tree", "AppendOnlyTree", "AddLeaf")
	if fn == nil {
		return
	}
	sx := core.NewSymx()
	match := core.TermEdges(fn, sx, func(s string, _ *core.Term) bool {
		return s == "(conv:int64(leaf.Index) == (t.lastIndex + const(1)))" || s == "((t.lastIndex + const(1)) == conv:int64(leaf.Index))"
	}, true)
	construct := "tree.(*AppendOnlyTree).AddLeaf#only-next-index"
	if len(match) == 0 {
		c.Violate(rule, construct, fn.Pos(), "AddLeaf never establishes int64(leaf.Index) == lastIndex+1")
		return
	}
	isWrite := func(i ssa.Instruction) bool {
		if core.IsCallTo(i, "(*tree.Tree).storeRoot", "(*tree.Tree).storeNodes") {
			return true
		}
		if st, ok := i.(*ssa.Store); ok {
			a := sx.Of(st.Addr).String()
			return strings.HasPrefix(a, "t.lastLeftCache[") || a == "t.lastIndex"
		}
		return false
	}
	starts := []core.Point{core.Entry(fn)}
	core.Instrs(fn, func(i ssa.Instruction) {
		if core.IsCallTo(i, "(*tree.AppendOnlyTree).initCache") {
			starts = append(starts, core.After(i))
		}
	})
	for _, st := range starts {
		if f := (&core.Walk{Target: isWrite, EdgeOK: core.Forbid(match)}).From(st, nil); f != nil {
			c.Violate(rule, construct, f.Instr.Pos(), "a tree write is reachable without the index having been compared with lastIndex+1 (after the last frontier rebuild): "+core.PathStr(f))
			return
		}
	}
	c.Hold(rule, construct, fmt.Sprintf("every write of AddLeaf lies behind int64(leaf.Index) == lastIndex+1, re-established after each of the %d frontier rebuild(s)", len(starts)-1))
	// a mismatch that survives the rebuild is reported as ErrInvalidIndex — the one error the bridge syncer latches its
	// halt on (any other error is retried as a transient fault and, for an index that went backwards, never halts)
	mismatch := core.TermEdges(fn, sx, func(s string, _ *core.Term) bool {
		return s == "(conv:int64(leaf.Index) == (t.lastIndex + const(1)))" || s == "((t.lastIndex + const(1)) == conv:int64(leaf.Index))"
	}, false)
	isInit := func(i ssa.Instruction) bool { return core.IsCallTo(i, "(*tree.AppendOnlyTree).initCache") }
	var bad *core.Found
	for _, e := range mismatch {
		start, env0 := core.AfterEdge(e)
		f := (&core.Walk{Stop: isInit, EdgeOK: core.Forbid(match), TargetPath: func(i ssa.Instruction, path []int) bool {
			r, ok := i.(*ssa.Return)
			if !ok || len(r.Results) != 1 {
				return false
			}
			return sx.Of(core.ResolveOnPath(r.Results[0], path)).String() != "tree.ErrInvalidIndex"
		}}).From(start, env0)
		if f != nil {
			bad = f
		}
	}
	// after a rebuild (which only happens on a mismatch) the same holds until the index was found to match; the rebuild's
	// own error is passed on
	core.Instrs(fn, func(i ssa.Instruction) {
		cl, ok := i.(*ssa.Call)
		if !ok || !isInit(i) {
			return
		}
		f := (&core.Walk{Stop: func(x ssa.Instruction) bool { return x != i && isInit(x) }, EdgeOK: core.Forbid(match), TargetPath: func(x ssa.Instruction, path []int) bool {
			r, ok := x.(*ssa.Return)
			if !ok || len(r.Results) != 1 {
				return false
			}
			v := core.ResolveOnPath(r.Results[0], path)
			return v != ssa.Value(cl) && sx.Of(v).String() != "tree.ErrInvalidIndex"
		}}).From(core.After(i), nil)
		if f != nil {
			bad = f
		}
	})
	c2 := "tree.(*AppendOnlyTree).AddLeaf#mismatch-is-ErrInvalidIndex"
	if bad != nil {
		c.Violate(rule, c2, bad.Instr.Pos(), "an index mismatch (without a further rebuild) ends with an error other than ErrInvalidIndex: "+core.PathStr(bad))
	} else {
		c.Decide(len(mismatch) > 0, rule, c2, fn.Pos(), "every exit on a mismatching index that is not followed by a rebuild returns tree.ErrInvalidIndex")
	}
}

// nodeHashRule: node hash = keccak(left ‖ right) computed with a hasher of its own, and the zero-hash recurrence.
func nodeHashRule(c *core.Ctx, rule string) {
	nt := c.MustFn(rule, "tree", "", "newTreeNode")
	if nt != nil {
		lx := core.NewLayout()
		sx := core.NewSymx()
		for _, r := range core.Returns(nt) {
			t := sx.Of(r.Results[0])
			if t.Op != "lit" || t.Fields["Hash"] == nil {
				c.Undecide(rule, "tree.newTreeNode#layout", r.Pos(), "result is not a node literal: "+t.String())
				continue
			}
			got := lx.Of(t.Fields["Hash"].Val)
			okLR := t.Fields["Left"] != nil && t.Fields["Left"].String() == "left" && t.Fields["Right"] != nil && t.Fields["Right"].String() == "right"
			c.Decide(got == specNode && okLR, rule, "tree.newTreeNode#layout", r.Pos(), "node hash = "+got+" with Left/Right stored as given; contract: "+specNode)
		}
	}
	gz := c.MustFn(rule, "tree", "", "generateZeroHashes")
	if gz != nil {
		lx := core.NewLayout()
		// inside the loop: z[i] = K(z[i-1] | z[i-1]) and z[0] is the zero hash
		ok := false
		detail := ""
		core.Instrs(gz, func(i ssa.Instruction) {
			call, isC := i.(*ssa.Call)
			if !isC {
				return
			}
			switch core.CallName(call) {
			case "(hash.Hash).Sum", "github.com/ethereum/go-ethereum/crypto.Keccak256Hash", "github.com/ethereum/go-ethereum/crypto.Keccak256", "github.com/iden3/go-iden3-crypto/keccak256.Hash":
			default:
				return
			}
			got := lx.Of(call)
			detail = got
			// both writes read element [i-1] of the slice being built
			parts := strings.Split(strings.TrimSuffix(strings.TrimPrefix(got, "K("), ")"), "|")
			ok = len(parts) == 2 && parts[0] == parts[1] && strings.HasPrefix(parts[0], "RAW32(") && strings.Contains(parts[0], " - const(1))]")
		})
		c.Decide(ok, rule, "tree.generateZeroHashes#recurrence", gz.Pos(), "z[i] = K(z[i-1] | z[i-1]): "+detail)
	}
}

func c01Feed(c *core.Ctx) {
	const rule = "C01-feed"
	fn := c.MustFn(rule, "bridgesync", "processor", "ProcessBlock")
	if fn == nil {
		return
	}
	sx := core.NewSymx()
	var add, ins *ssa.Call
	core.Instrs(fn, func(i ssa.Instruction) {
		call, ok := i.(*ssa.Call)
		if !ok {
			return
		}
		switch core.CallName(call) {
		case "(*tree.AppendOnlyTree).AddLeaf":
			add = call
		case "github.com/russross/meddler.Insert":
			if tbl := sx.Of(call.Call.Args[1]).String(); strings.Contains(tbl, "bridgeTableName") || tbl == "const(\"bridge\")" {
				ins = call
			}
		}
	})
	if add == nil || ins == nil {
		c.Violate(rule, "bridgesync.(*processor).ProcessBlock#addleaf-and-insert", fn.Pos(), "ProcessBlock no longer both appends the deposit to the exit tree and stores the bridge row")
		return
	}
	leaf := sx.Of(add.Call.Args[4])
	// event variable: the type-asserted loop element
	ev := ""
	if leaf.Op == "lit" && leaf.Fields["Index"] != nil {
		s := leaf.Fields["Index"].String()
		if strings.HasSuffix(s, ".Bridge.DepositCount") {
			ev = strings.TrimSuffix(s, ".Bridge.DepositCount")
		}
	}
	checkFields(c, rule, "bridgesync.(*processor).ProcessBlock#leaf", add.Pos(), leaf, map[string]string{
		"Index": ev + ".Bridge.DepositCount",
		"Hash":  "(*bridgesync.Bridge).Hash(" + ev + ".Bridge)",
	})
	c.Decide(ev != "" && sx.Of(ins.Call.Args[2]).String() == ev+".Bridge", rule, "bridgesync.(*processor).ProcessBlock#row-same-event", ins.Pos(), "the stored bridge row is the event whose leaf was appended: "+sx.Of(ins.Call.Args[2]).String())
	c.Decide(sx.Of(add.Call.Args[0]).String() == "p.exitTree" && sx.Of(add.Call.Args[2]).String() == "block.Num" && sx.Of(add.Call.Args[3]).String() == ev+".Bridge.BlockPos",
		rule, "bridgesync.(*processor).ProcessBlock#leaf-position", add.Pos(), "AddLeaf(tx, block.Num, event.Bridge.BlockPos, …) on the processor's exit tree")
	// no bridge row without its leaf: the insert is reachable only after AddLeaf returned nil
	nilE := core.NilEdgesRes(fn, add, true)
	f := core.ReachableWithout(core.Entry(fn), nilE, func(i ssa.Instruction) bool { return i == ssa.Instruction(ins) })
	c.Decide(len(nilE) > 0 && f == nil, rule, "bridgesync.(*processor).ProcessBlock#no-row-without-leaf", ins.Pos(), "a bridge row is stored only after its leaf was appended successfully")
	// and every event with a Bridge gets its leaf: AddLeaf is reached on every path where event.Bridge != nil
	hasBridge := core.TermEdges(fn, sx, func(s string, _ *core.Term) bool { return s == "("+ev+".Bridge != const(nil))" }, true)
	okAll := len(hasBridge) > 0
	for _, e := range hasBridge {
		start := core.Point{B: e.B.Succs[e.Succ], I: 0}
		// from the edge, the next event / commit must not be reachable without AddLeaf
		f := (&core.Walk{Stop: func(i ssa.Instruction) bool { return i == ssa.Instruction(add) }, Target: func(i ssa.Instruction) bool {
			if cc := core.AsCall(i); cc != nil && methodName(cc) == "Commit" {
				return true
			}
			return i != ssa.Instruction(add) && i != ssa.Instruction(ins) && sqlWriteOf(i) != nil
		}}).From(start, nil)
		if f != nil {
			okAll = false
		}
	}
	c.Decide(okAll, rule, "bridgesync.(*processor).ProcessBlock#every-bridge-appended", add.Pos(), "every event carrying a Bridge reaches AddLeaf before anything else is written")
	// downloader: the Bridge event struct is filled field by field from the parsed log
	h := c.MustFn(rule, "bridgesync", "", "buildBridgeEventHandler")
	if h != nil && len(h.AnonFuncs) == 1 {
		cl := h.AnonFuncs[0]
		als := allocsOfType(cl, "bridgesync.Bridge")
		if len(als) != 1 {
			c.Undecide(rule, "bridgesync.buildBridgeEventHandler#bridge-literal", cl.Pos(), "Bridge literal not found")
		} else {
			pe := "(*github.com/0xPolygon/cdk-contracts-tooling/contracts/pp/l2-sovereign-chain/polygonzkevmbridgev2.PolygonzkevmbridgeFilterer).ParseBridgeEvent(contract.PolygonzkevmbridgeFilterer, l)#0"
			lit := sx.Of(als[0])
			// tolerate the embedding path of the filterer in the binding
			for _, v := range lit.Fields {
				s := v.String()
				if i := strings.Index(s, ").ParseBridgeEvent("); i >= 0 && strings.HasSuffix(s, "#0.LeafType") {
					pe = strings.TrimSuffix(s, ".LeafType")
				}
			}
			want := map[string]string{}
			for _, f := range []string{"LeafType", "OriginNetwork", "OriginAddress", "DestinationNetwork", "DestinationAddress", "Amount", "Metadata", "DepositCount"} {
				want[f] = pe + "." + f
			}
			checkFields(c, rule, "bridgesync.buildBridgeEventHandler#bridge", als[0].Pos(), lit, want)
		}
	}
}

func c01Restart(c *core.Ctx) {
	const rule = "C01-restart"
	// shared with TX-mem: sentinel, single writer set, mismatch rebuild
	c07TxMem(c)
	// relabel: the obligations above were recorded under TX-mem; add the processor-level fact that every processor
	// builds its exit tree with NewAppendOnlyTree on the store's own database handle
	sx := core.NewSymx()
	for _, pk := range [][2]string{{"bridgesync", "exitTree"}, {"l1infotreesync", "l1InfoTree"}} {
		fn := c.MustFn(rule, pk[0], "", "newProcessor")
		if fn == nil {
			continue
		}
		ok := false
		detail := ""
		core.Instrs(fn, func(i ssa.Instruction) {
			st, isS := i.(*ssa.Store)
			if !isS || !strings.HasSuffix(sx.Of(st.Addr).String(), "."+pk[1]) {
				return
			}
			detail = sx.Of(st.Val).String()
			ok = strings.HasPrefix(detail, "tree.NewAppendOnlyTree(db.NewSQLiteDB(dbPath)#0, ")
		})
		c.Decide(ok, rule, pk[0]+".newProcessor#"+pk[1], fn.Pos(), "append-only tree over the store's own database: "+detail)
	}
}

func init() {
	register(&Property{
		ID:          "C01",
		Level:       "other",
		Explanation: "Decides the structural necessary conditions of 'synced exit-tree root equals the bridge contract's root': C01-leaf — the byte layout of bridgesync.Bridge.Hash, extracted symbolically from its SSA (fixed-width big-endian encodings, raw addresses, 32-byte big-endian amount, keccak of the metadata, in order), equals the contract's getLeafValue = keccak256(abi.encodePacked(uint8,uint32,address,uint32,address,uint256,bytes32)); C01-step — AddLeaf and initCache follow the contract's orientation (bit set ⇒ right child; lastLeftCache[h] / zeroHashes[h] with the same h; cache written on the clear edge only; all 32 levels), newTreeNode = keccak(left‖right), zero hashes z[i] = keccak(z[i-1]‖z[i-1]); C01-feed — ProcessBlock appends, for every event carrying a Bridge, the leaf {Index: DepositCount, Hash: Bridge.Hash()} of that same event at (block.Num, BlockPos) before storing its row, stores no row without a successfully appended leaf, and the downloader fills the 8 leaf-relevant Bridge fields from the same-named fields of the parsed log; C01-restart — the frontier starts at the not-initialised sentinel, is written only by AddLeaf/initCache under the rollback registration, a mismatch always rebuilds from the database (shared with C07 TX-mem). Not decided: that the frontier algorithm as a whole computes the same function as the contract's for every index (induction over indices); root values are never computed. Added after round 7: C01-schema (column affinity: integer columns INTEGER, big.Int text columns TEXT), C01-conflate (a failed log query is never answered like an empty range; shared with C05), AddLeaf writes only behind index == lastIndex+1 re-established after each rebuild and a surviving mismatch is ErrInvalidIndex, frontier writes outside the level walk are dead code.",
		Rules: []Rule{
			{ID: "C01-leaf", Floor: 1, Run: c01Leaf, Text: "[LAYOUT] Bridge.Hash ≡ contract getLeafValue"},
			{ID: "C01-step", Floor: 6, Run: c01Step, Text: "[TREE]+[LAYOUT] orientation / level indexing of AddLeaf and initCache; node hash; zero hashes"},
			{ID: "C01-immutable", Floor: 2, Run: c01Immutable, Text: "[WHO] event objects are not modified between download and leaf hash / storage"},
			{ID: "C01-feed", Floor: 14, Run: c01Feed, Text: "[PROV]+[DOM]+[FIELDMAP] leaf fed from the same event; no row without leaf; downloader field map"},
			{ID: "C01-schema", Floor: 30, Run: func(c *core.Ctx) { schemaTypesRule(c, "C01-schema", "bridgesync", "tree") }, Text: "[SCHEMA-TYPES] integer columns have INTEGER affinity (numeric ORDER BY), big.Int text columns have TEXT affinity (no lossy REAL)"},
			{ID: "C01-conflate", Floor: 4, Run: shared("C01-conflate", c05Conflate), Text: "(shared with C05-conflate) a failed log query is never answered like an empty range: deposits of a finalized range would be skipped for good"},
			{ID: "C01-store", Floor: 6, Run: func(c *core.Ctx) { storeRule(c, "C01-store") }, Text: "(shared with C08-store) every path node is stored; not-found only for missing rows; last root by (block_num, block_position) — what initCache rebuilds the frontier from after a restart"},
			{ID: "C01-restart", Floor: 8, Run: c01Restart, Text: "[WHO]+[DOM] sentinel, frontier writers, mismatch rebuild (shared with TX-mem); trees built on the store's database"},
		},
	})
}

// c01Immutable: the event objects are hashed and stored exactly as the downloader built them: outside their
// constructors (fresh allocations) the fields of bridgesync.Bridge are written only by Hash's nil-Amount default.
// A "normalisation" of a field between the download and the leaf hash makes the node's leaf differ from the
// contract's for the inputs it touches.
func c01Immutable(c *core.Ctx) {
	const rule = "C01-immutable"
	for _, tn := range []string{"Bridge", "Claim"} {
		n := c.Named("bridgesync", tn)
		if n == nil {
			c.Undecide(rule, "anchor bridgesync."+tn, 0, "type does not resolve")
			continue
		}
		var bad []string
		for _, fs := range fieldStoresOf(c, n) {
			fnName := core.ShortFn(fs.fn)
			switch {
			case tn == "Bridge" && fnName == "(*bridgesync.Bridge).Hash" && fs.field == "Amount":
				continue // nil amount hashes as zero; the stored value is the same number
			}
			if tn == "Claim" && strings.HasPrefix(fnName, "(*bridgesync.Claim).") {
				continue // the claim's own call-data decoders, run by the downloader before the event is emitted
			}
			bad = append(bad, fs.field+"@"+fnName)
		}
		sort.Strings(bad)
		c.Decide(len(bad) == 0, rule, "bridgesync."+tn+"#written-only-while-built", 0, fmt.Sprintf("fields of %s are not modified after the downloader built the event (writers: %v)", tn, bad))
	}
}
