package rules

import (
	"fmt"
	"go/token"
	"go/types"
	"strings"

	"golang.org/x/tools/go/ssa"

	"verif/checker/internal/core"
)

func c12Assemble(c *core.Ctx) {
	const rule = "C12-assemble"
	fn := c.MustFn(rule, "bridgeservice", "BridgeService", "ClaimProofHandler")
	if fn == nil {
		return
	}
	var calls []*ssa.Call
	core.Instrs(fn, func(i ssa.Instruction) {
		if call, ok := i.(*ssa.Call); ok && call.Call.IsInvoke() {
			calls = append(calls, call)
		}
	})
	find := func(method string, recvSuffix string) []*ssa.Call {
		var out []*ssa.Call
		sx := core.NewSymx()
		for _, call := range calls {
			if call.Call.Method.Name() == method && strings.HasSuffix(sx.Of(call.Call.Value).String(), recvSuffix) {
				out = append(out, call)
			}
		}
		return out
	}
	infoCalls := find("GetInfoByIndex", "b.l1InfoTree")
	if len(infoCalls) != 1 {
		c.Violate(rule, "bridgeservice.(*BridgeService).ClaimProofHandler#info", fn.Pos(), "expected exactly one GetInfoByIndex lookup")
		return
	}
	info := core.ExtractOf(infoCalls[0], 0)
	sx := core.NewSymx().Bind(info, "INFO")
	// parsed query parameters
	param := func(v ssa.Value) string {
		s := sx.Of(v).String()
		for _, p := range []string{"networkIDParam", "leafIndexParam", "depositCountParam"} {
			lit := p
			if cst, ok := c.Pkg("bridgeservice").Types.Scope().Lookup(p).(*types.Const); ok {
				lit = "const(" + cst.Val().ExactString() + ")"
			}
			if strings.Contains(s, "bridgeservice.parseUintQuery(") && strings.Contains(s, lit) {
				return p
			}
		}
		return s
	}
	c.Decide(param(infoCalls[0].Call.Args[1]) == "leafIndexParam", rule, "bridgeservice.(*BridgeService).ClaimProofHandler#info-index", infoCalls[0].Pos(), "the L1 info leaf is looked up by the leaf_index parameter: "+param(infoCalls[0].Call.Args[1]))
	l1 := find("GetProof", "b.bridgeL1")
	l2 := find("GetProof", "b.bridgeL2")
	ler := find("GetLocalExitRoot", "b.l1InfoTree")
	rer := find("GetRollupExitTreeMerkleProof", "b.l1InfoTree")
	if len(l1) != 1 || len(l2) != 1 || len(ler) != 1 || len(rer) != 1 {
		c.Violate(rule, "bridgeservice.(*BridgeService).ClaimProofHandler#shape", fn.Pos(), "expected one L1 proof, one L2 proof, one local-exit-root lookup and one rollup proof")
		return
	}
	c.Decide(param(l1[0].Call.Args[1]) == "depositCountParam" && sx.Of(l1[0].Call.Args[2]).String() == "INFO.MainnetExitRoot", rule, "bridgeservice.(*BridgeService).ClaimProofHandler#l1-proof", l1[0].Pos(),
		"L1 bridge: proof of deposit_count against info.MainnetExitRoot: "+sx.Of(l1[0].Call.Args[2]).String())
	c.Decide(param(ler[0].Call.Args[1]) == "networkIDParam" && sx.Of(ler[0].Call.Args[2]).String() == "INFO.RollupExitRoot", rule, "bridgeservice.(*BridgeService).ClaimProofHandler#l2-ler", ler[0].Pos(),
		"L2 bridge: local exit root = leaf(network) of the rollup exit tree at info.RollupExitRoot")
	lerV := core.ExtractOf(ler[0], 0)
	c.Decide(param(l2[0].Call.Args[1]) == "depositCountParam" && l2[0].Call.Args[2] == lerV, rule, "bridgeservice.(*BridgeService).ClaimProofHandler#l2-proof", l2[0].Pos(),
		"L2 bridge: proof of deposit_count against THAT local exit root: "+sx.Of(l2[0].Call.Args[2]).String())
	c.Decide(param(rer[0].Call.Args[1]) == "networkIDParam" && sx.Of(rer[0].Call.Args[2]).String() == "INFO.RollupExitRoot", rule, "bridgeservice.(*BridgeService).ClaimProofHandler#rollup-proof", rer[0].Pos(),
		"rollup proof for (network, info.RollupExitRoot)")
	// branch selection: L1 proof only when network == mainnet id, L2 proof only when network == this node's network
	netLit := "networkIDParam"
	if cst, ok := c.Pkg("bridgeservice").Types.Scope().Lookup("networkIDParam").(*types.Const); ok {
		netLit = "const(" + cst.Val().ExactString() + ")"
	}
	net := func(s string) bool {
		return strings.Contains(s, "bridgeservice.parseUintQuery(") && strings.Contains(s, netLit)
	}
	isMain := core.TermEdges(fn, core.NewSymx(), func(s string, _ *core.Term) bool {
		return net(s) && (strings.HasSuffix(s, " == const(0))") || strings.HasSuffix(s, " == bridgeservice.mainnetNetworkID)"))
	}, true)
	isOwn := core.TermEdges(fn, core.NewSymx(), func(s string, _ *core.Term) bool { return net(s) && strings.HasSuffix(s, " == b.networkID)") }, true)
	okBr := len(isMain) > 0 && len(isOwn) > 0 &&
		core.ReachableWithout(core.Entry(fn), isMain, func(i ssa.Instruction) bool { return i == ssa.Instruction(l1[0]) }) == nil &&
		core.ReachableWithout(core.Entry(fn), isOwn, func(i ssa.Instruction) bool { return i == ssa.Instruction(l2[0]) }) == nil
	c.Decide(okBr, rule, "bridgeservice.(*BridgeService).ClaimProofHandler#branch", fn.Pos(), "the L1 syncer answers only for network 0, the L2 syncer only for this node's network")
	// response: the proofs obtained and the same leaf
	var resp *core.Term
	var respPos ssa.Instruction
	core.Instrs(fn, func(i ssa.Instruction) {
		if call, ok := i.(*ssa.Call); ok && strings.HasSuffix(core.CallName(call), "gin.Context).JSON") {
			if k, ok := core.ConstInt(call.Call.Args[1]); ok && k == 200 {
				resp = sx.Of(call.Call.Args[2])
				respPos = call
			}
		}
	})
	if resp == nil || resp.Op != "lit" {
		c.Undecide(rule, "bridgeservice.(*BridgeService).ClaimProofHandler#response", fn.Pos(), "200 response literal not found")
		return
	}
	g := func(k string) string {
		if resp.Fields[k] == nil {
			return "<unset>"
		}
		return resp.Fields[k].String()
	}
	okResp := strings.HasPrefix(g("ProofLocalExitRoot"), "bridgeservice/types.ConvertToProofResponse(phi{") && strings.Contains(g("ProofLocalExitRoot"), ".GetProof(b.bridgeL1,") && strings.Contains(g("ProofLocalExitRoot"), ".GetProof(b.bridgeL2,") &&
		strings.HasPrefix(g("ProofRollupExitRoot"), "bridgeservice/types.ConvertToProofResponse(") && strings.Contains(g("ProofRollupExitRoot"), ".GetRollupExitTreeMerkleProof(") &&
		g("L1InfoTreeLeaf") == "*bridgeservice.NewL1InfoTreeLeafResponse(INFO)"
	c.Decide(okResp, rule, "bridgeservice.(*BridgeService).ClaimProofHandler#response", respPos.Pos(), "response = {proof obtained on the taken branch, rollup proof, the same info leaf}: "+g("L1InfoTreeLeaf"))
	// errors end the handler before the 200 response
	for _, call := range []*ssa.Call{infoCalls[0], l1[0], l2[0], ler[0], rer[0]} {
		ev := core.ErrValueOf(call)
		errE := core.NilEdgesRes(fn, ev, false)
		bad := len(errE) == 0
		for _, e := range errE {
			start := core.Point{B: e.B.Succs[e.Succ], I: 0}
			if (&core.Walk{Target: func(i ssa.Instruction) bool { return i == respPos }}).From(start, nil) != nil {
				bad = true
			}
		}
		c.Decide(!bad, "C12-error", "bridgeservice.(*BridgeService).ClaimProofHandler#error@"+call.Call.Method.Name()+"/"+core.NewSymx().Of(call.Call.Value).Brief(), call.Pos(), "an error of this lookup ends the handler without a 200 answer")
	}
}

func init() {
	register(&Property{
		ID:          "C12",
		Level:       "other",
		Explanation: "Decides the assembly half of the claim flow structurally: C12-assemble — ClaimProofHandler looks up ONE L1 info leaf by the leaf_index parameter; the L1 branch (network 0 only) proves deposit_count against that leaf's MainnetExitRoot; the L2 branch (this node's network only) first obtains the local exit root as the leaf of the rollup exit tree at that leaf's RollupExitRoot and proves deposit_count against THAT root; the rollup proof is asked for (network, info.RollupExitRoot); the 200 response carries the proofs obtained and the same leaf; C12-error — an error of any of the five lookups ends the handler before the 200 response. Declined: the two binary searches getFirstL1InfoTreeIndexFor{L1,L2}Bridge — their correctness is monotonicity plus midpoint arithmetic over runtime data, which no structural rule in reach decides; that the proofs verify is C08's orientation argument only. Added after round 7: C12-frontier (shared with C01-step), lookups answer found only with the row they read (C12-tree). Added after round 8: C12-rollup (shared with C11-rollup; every verify_batches insert is dominated by the store of the root UpsertLeaf returned), parseUintQuery parses base 10.",
		Rules: []Rule{
			{ID: "C12-cover", Floor: 4, Run: c12Cover, Text: "[DOM] safety of both index searches: every record that can become the answer was compared (root.Index >= depositCount) on the selecting path; root façade pass-through; query numbers parsed in base 10"},
			{ID: "C12-frontier", Floor: 4, Run: func(c *core.Ctx) { treeAddLeaf(c, "C12-frontier"); treeInitCache(c, "C12-frontier") }, Text: "(shared with C01-step) the frontier the bridge syncer rebuilds after a restart is indexed by level exactly as the walk fills it: the exit roots it then computes are the contract's"},
			{ID: "C12-rollup", Floor: 4, Run: shared("C12-rollup", c11Rollup), Text: "(shared with C11-rollup) every verify_batches row records the root returned by the update it belongs to (the L2 index search resolves rows by that root)"},
			{ID: "C12-tree", Floor: 9, Run: func(c *core.Ctx) { storeRule(c, "C12-tree") }, Text: "(shared with C08-store) every path node stored; lookups by key; ErrNotFound only for no rows"},
			{ID: "C12-assemble", Floor: 12, Run: c12Assemble, Text: "[PROV]+[DOM] proof assembly per network from one info leaf; response; error exits"},
		},
	})
}

// phiLeaves flattens nested phis: every non-phi value that can flow into v, with the phi edge it enters through.
type phiLeaf struct {
	val ssa.Value
	phi *ssa.Phi // the Phi the leaf enters directly; nil when v itself is the leaf
	idx int
	// chain: every merge edge the leaf passes on its way to the flattened value, innermost first
	chain []phiEdge
}

type phiEdge struct {
	phi *ssa.Phi
	idx int
}

func phiLeaves(v ssa.Value) []phiLeaf {
	var out []phiLeaf
	seen := map[*ssa.Phi]bool{}
	var rec func(x ssa.Value, chain []phiEdge)
	rec = func(x ssa.Value, chain []phiEdge) {
		if ph, ok := x.(*ssa.Phi); ok {
			if seen[ph] {
				return
			}
			seen[ph] = true
			for k, e := range ph.Edges {
				rec(e, append([]phiEdge{{ph, k}}, chain...))
			}
			return
		}
		lf := phiLeaf{val: x, chain: chain}
		if len(chain) > 0 {
			lf.phi, lf.idx = chain[0].phi, chain[0].idx
		}
		out = append(out, lf)
	}
	rec(v, nil)
	return out
}

// c12Cover: the safety half of the two L1-info-index searches. Whatever the search does, the record whose index it
// answers with was compared against the bridge: its exit root's tree root has Index >= depositCount on every path
// on which it becomes the answer. (Minimality of the answer is not part of the property and is not checked.)
// c12Decimal: the query parameters (network id, leaf index, deposit count) are read as decimal numbers: with base 0 a
// zero-padded `deposit_count=010` is octal 8, and the API answers for another deposit.
func c12Decimal(c *core.Ctx, rule string) {
	fn := c.MustFn(rule, "bridgeservice", "", "parseUintQuery")
	if fn == nil {
		return
	}
	n, ok := 0, true
	core.Instrs(fn, func(i ssa.Instruction) {
		if core.IsCallTo(i, "strconv.ParseUint", "strconv.ParseInt") {
			n++
			base, isC := core.ConstInt(core.AsCall(i).Args[1])
			ok = ok && isC && base == 10
		}
		if core.IsCallTo(i, "strconv.Atoi") { // decimal by definition
			n++
		}
	})
	c.Decide(n > 0 && ok, rule, "bridgeservice.parseUintQuery#decimal", fn.Pos(), "query numbers are parsed in base 10")
}

func c12Cover(c *core.Ctx) {
	const rule = "C12-cover"
	c12Decimal(c, rule)
	for _, w := range []struct{ fn, rootField, via string }{
		{"getFirstL1InfoTreeIndexForL1Bridge", "MainnetExitRoot", ""},
		{"getFirstL1InfoTreeIndexForL2Bridge", "ExitRoot", "GetFirstL1InfoWithRollupExitRoot"},
	} {
		fn := c.MustFn(rule, "bridgeservice", "BridgeService", w.fn)
		if fn == nil {
			continue
		}
		label := "bridgeservice.(*BridgeService)." + w.fn
		dep := ssa.Value(fn.Params[2])
		// the record that names the answer

		fieldBase := func(v ssa.Value, field string) ssa.Value {
			u, ok := v.(*ssa.UnOp)
			if !ok {
				return nil
			}
			fa, ok := u.X.(*ssa.FieldAddr)
			if !ok || fieldNameOf(fa) != field {
				return nil
			}
			return fa.X
		}
		// every successful return names `<record>.L1InfoTreeIndex` (L2: of the first L1 info leaf with the record's
		// rollup exit root); collect (use site, record) pairs
		type answer struct {
			at   ssa.Instruction // where the record is committed to (the return, or the follow-up lookup)
			base ssa.Value
		}
		var answers []answer
		okShape := true
		nSucc := 0
		for _, r := range core.Returns(fn) {
			if len(r.Results) != 2 || !isNilConst(r.Results[1]) {
				continue
			}
			nSucc++
			b := fieldBase(r.Results[0], "L1InfoTreeIndex")
			if b == nil {
				okShape = false
				continue
			}
			if w.via == "" {
				answers = append(answers, answer{r, b})
				continue
			}
			ok := false
			if ex, isEx := b.(*ssa.Extract); isEx && ex.Index == 0 {
				if cl, isCl := ex.Tuple.(*ssa.Call); isCl && cl.Call.IsInvoke() && cl.Call.Method.Name() == w.via {
					if bb := fieldBase(cl.Call.Args[0], "RollupExitRoot"); bb != nil {
						// the success return is reached only when that lookup succeeded
						nilE := core.NilEdgesRes(fn, core.ErrValueOf(cl), true)
						if len(nilE) > 0 && core.ReachableWithout(core.After(cl), nilE, func(x ssa.Instruction) bool { return x == ssa.Instruction(r) }) == nil {
							answers = append(answers, answer{cl, bb})
							ok = true
						}
					}
				}
			}
			okShape = okShape && ok
		}
		if !okShape || nSucc == 0 || len(answers) == 0 {
			c.Violate(rule, label+"#answer", fn.Pos(), "a successful return is not `<record>.L1InfoTreeIndex` of the selected record (or of the first L1 info leaf with that record's rollup exit root)")
			continue
		}
		allOK := true
		detail := []string{}
		nLeaves := 0
		for _, ans := range answers {
			for _, lf := range phiLeaves(ans.base) {
				if isNilConst(lf.val) {
					continue // an error path's placeholder: dereferencing it cannot yield an index
				}
				nLeaves++
				ex, ok := lf.val.(*ssa.Extract)
				var call *ssa.Call
				if ok && ex.Index == 0 {
					call, _ = ex.Tuple.(*ssa.Call)
				}
				if call == nil {
					allOK = false
					detail = append(detail, fmt.Sprintf("candidate of unknown origin %T", lf.val))
					continue
				}
				name := core.CallName(call)
				if call.Call.IsInvoke() {
					name = call.Call.Method.Name()
				}
				var isRootIdx func(v ssa.Value) bool
				isRootIdx = func(v ssa.Value) bool {
					// the index may have travelled through a merge with 0 placeholders of error paths
					if phi, isPhi := v.(*ssa.Phi); isPhi {
						n := 0
						for _, lf2 := range phiLeaves(phi) {
							if k, isC := core.ConstInt(lf2.val); isC && k == 0 {
								continue
							}
							n++
							if !isRootIdx(lf2.val) {
								return false
							}
						}
						return n >= 1
					}
					b := fieldBase(v, "Index")
					rex, ok := b.(*ssa.Extract)
					if !ok || rex.Index != 0 {
						return false
					}
					rc, ok := rex.Tuple.(*ssa.Call)
					if !ok || !rc.Call.IsInvoke() || rc.Call.Method.Name() != "GetRootByLER" {
						return false
					}
					return fieldBase(rc.Call.Args[1], w.rootField) == lf.val
				}
				// covering edges: root.Index >= depositCount (or ==), in any written form
				cover := core.RelEdges(fn, isRootIdx, core.IsValue(dep), token.GEQ)
				cover = append(cover, core.RelEdges(fn, isRootIdx, core.IsValue(dep), token.EQL)...)
				cover = append(cover, core.RelEdges(fn, isRootIdx, core.IsValue(dep), token.GTR)...)
				var f *core.Found
				if lf.phi == nil {
					// this record is the answer itself: the use must lie behind a covering edge
					f = (&core.Walk{
						Stop:   func(x ssa.Instruction) bool { return x == ssa.Instruction(call) },
						EdgeOK: core.Forbid(cover),
						Target: func(x ssa.Instruction) bool { return x == ans.at },
					}).From(core.After(call), nil)
				} else {
					// the record becomes the answer through a chain of merges (a probe result expanded in place first
					// passes an inner merge and is compared after it): one guarded edge of the chain is enough
					for _, pe := range lf.chain {
						pred, to := pe.phi.Block().Preds[pe.idx], pe.phi.Block()
						f = (&core.Walk{
							Stop:       func(x ssa.Instruction) bool { return x == ssa.Instruction(call) },
							EdgeOK:     core.Forbid(cover),
							TargetEdge: func(from *ssa.BasicBlock, si int) bool { return from == pred && from.Succs[si] == to },
						}).From(core.After(call), nil)
						if f == nil {
							break
						}
					}
				}
				if len(cover) == 0 || f != nil {
					allOK = false
					detail = append(detail, fmt.Sprintf("%s result becomes the answer without having been compared (root.Index >= depositCount) %s", name, core.PathStr(f)))
				} else {
					detail = append(detail, name+": compared")
				}
			}
		}
		leaves := make([]int, nLeaves)
		c.Decide(allOK && len(leaves) >= 2, rule, label+"#every-candidate-covers", fn.Pos(), fmt.Sprintf("each record that can become the answer was checked to cover the bridge on the path that selects it: %v", detail))
	}
	// the façade the searches compare against hands back the store's root or an error, never a made-up root
	fa := c.MustFn(rule, "bridgesync", "BridgeSync", "GetRootByLER")
	if fa != nil {
		var call *ssa.Call
		core.Instrs(fa, func(i ssa.Instruction) {
			if cl, isC := i.(*ssa.Call); isC && core.CallName(i) == "(*tree.Tree).GetRootByHash" {
				call = cl
			}
		})
		ok, n := call != nil, 0
		if call != nil {
			sx := core.NewSymx()
			ok = strings.HasSuffix(sx.Of(call.Call.Args[2]).String(), "ler") && sx.Of(call.Call.Args[2]).String() == "ler"
			r0, r1 := core.ExtractOf(call, 0), core.ExtractOf(call, 1)
			nilE := core.NilEdgesRes(fa, r1, true)
			for _, rc := range core.ReturnCases(fa) {
				if len(rc.Values) != 2 || isNilConst(rc.Values[0]) {
					continue // no root handed out
				}
				n++
				switch {
				case rc.Values[0] != r0:
					ok = false // a root that is not the store's answer
				case rc.Values[1] == r1:
					// (root, err) of the store handed through together
				case isNilConst(rc.Values[1]):
					ok = ok && len(nilE) > 0 && rc.ReachableOnlyVia(fa, nilE)
				default:
					ok = false
				}
			}
		}
		c.Decide(ok && n >= 1, rule, "bridgesync.(*BridgeSync).GetRootByLER#pass-through", fa.Pos(), "a root is handed out only as the store's answer for that exit root, together with the store's error or behind its success edge (a failed lookup is never turned into a root)")
	}
}

func fieldNameOf(fa *ssa.FieldAddr) string {
	t := fa.X.Type().Underlying()
	if p, ok := t.(*types.Pointer); ok {
		t = p.Elem().Underlying()
	}
	if st, ok := t.(*types.Struct); ok {
		return st.Field(fa.Field).Name()
	}
	return ""
}
