package rules

import (
	"go/types"
	"strings"

	"golang.org/x/tools/go/ssa"

	"verif/checker/internal/core"
)

func c12Assemble(c *core.Ctx) {
	const rule = "C12-assemble"
	fn := c.MustFn(rule, "bridgeservice", "BridgeService", "ClaimProofHandler")
	if fn == nil {
		return
	}
	var calls []*ssa.Call
	core.Instrs(fn, func(i ssa.Instruction) {
		if call, ok := i.(*ssa.Call); ok && call.Call.IsInvoke() {
			calls = append(calls, call)
		}
	})
	find := func(method string, recvSuffix string) []*ssa.Call {
		var out []*ssa.Call
		sx := core.NewSymx()
		for _, call := range calls {
			if call.Call.Method.Name() == method && strings.HasSuffix(sx.Of(call.Call.Value).String(), recvSuffix) {
				out = append(out, call)
			}
		}
		return out
	}
	infoCalls := find("GetInfoByIndex", "b.l1InfoTree")
	if len(infoCalls) != 1 {
		c.Violate(rule, "bridgeservice.(*BridgeService).ClaimProofHandler#info", fn.Pos(), "expected exactly one GetInfoByIndex lookup")
		return
	}
	info := core.ExtractOf(infoCalls[0], 0)
	sx := core.NewSymx().Bind(info, "INFO")
	// parsed query parameters
	param := func(v ssa.Value) string {
		s := sx.Of(v).String()
		for _, p := range []string{"networkIDParam", "leafIndexParam", "depositCountParam"} {
			lit := p
			if cst, ok := c.Pkg("bridgeservice").Types.Scope().Lookup(p).(*types.Const); ok {
				lit = "const(" + cst.Val().ExactString() + ")"
			}
			if strings.Contains(s, "bridgeservice.parseUintQuery(") && strings.Contains(s, lit) {
				return p
			}
		}
		return s
	}
	c.Decide(param(infoCalls[0].Call.Args[1]) == "leafIndexParam", rule, "bridgeservice.(*BridgeService).ClaimProofHandler#info-index", infoCalls[0].Pos(), "the L1 info leaf is looked up by the leaf_index parameter: "+param(infoCalls[0].Call.Args[1]))
	l1 := find("GetProof", "b.bridgeL1")
	l2 := find("GetProof", "b.bridgeL2")
	ler := find("GetLocalExitRoot", "b.l1InfoTree")
	rer := find("GetRollupExitTreeMerkleProof", "b.l1InfoTree")
	if len(l1) != 1 || len(l2) != 1 || len(ler) != 1 || len(rer) != 1 {
		c.Violate(rule, "bridgeservice.(*BridgeService).ClaimProofHandler#shape", fn.Pos(), "expected one L1 proof, one L2 proof, one local-exit-root lookup and one rollup proof")
		return
	}
	c.Decide(param(l1[0].Call.Args[1]) == "depositCountParam" && sx.Of(l1[0].Call.Args[2]).String() == "INFO.MainnetExitRoot", rule, "bridgeservice.(*BridgeService).ClaimProofHandler#l1-proof", l1[0].Pos(),
		"L1 bridge: proof of deposit_count against info.MainnetExitRoot: "+sx.Of(l1[0].Call.Args[2]).String())
	c.Decide(param(ler[0].Call.Args[1]) == "networkIDParam" && sx.Of(ler[0].Call.Args[2]).String() == "INFO.RollupExitRoot", rule, "bridgeservice.(*BridgeService).ClaimProofHandler#l2-ler", ler[0].Pos(),
		"L2 bridge: local exit root = leaf(network) of the rollup exit tree at info.RollupExitRoot")
	lerV := core.ExtractOf(ler[0], 0)
	c.Decide(param(l2[0].Call.Args[1]) == "depositCountParam" && l2[0].Call.Args[2] == lerV, rule, "bridgeservice.(*BridgeService).ClaimProofHandler#l2-proof", l2[0].Pos(),
		"L2 bridge: proof of deposit_count against THAT local exit root: "+sx.Of(l2[0].Call.Args[2]).String())
	c.Decide(param(rer[0].Call.Args[1]) == "networkIDParam" && sx.Of(rer[0].Call.Args[2]).String() == "INFO.RollupExitRoot", rule, "bridgeservice.(*BridgeService).ClaimProofHandler#rollup-proof", rer[0].Pos(),
		"rollup proof for (network, info.RollupExitRoot)")
	// branch selection: L1 proof only when network == mainnet id, L2 proof only when network == this node's network
	netLit := "networkIDParam"
	if cst, ok := c.Pkg("bridgeservice").Types.Scope().Lookup("networkIDParam").(*types.Const); ok {
		netLit = "const(" + cst.Val().ExactString() + ")"
	}
	net := func(s string) bool { return strings.Contains(s, "bridgeservice.parseUintQuery(") && strings.Contains(s, netLit) }
	isMain := core.TermEdges(fn, core.NewSymx(), func(s string, _ *core.Term) bool {
		return net(s) && (strings.HasSuffix(s, " == const(0))") || strings.HasSuffix(s, " == bridgeservice.mainnetNetworkID)"))
	}, true)
	isOwn := core.TermEdges(fn, core.NewSymx(), func(s string, _ *core.Term) bool { return net(s) && strings.HasSuffix(s, " == b.networkID)") }, true)
	okBr := len(isMain) > 0 && len(isOwn) > 0 &&
		core.ReachableWithout(core.Entry(fn), isMain, func(i ssa.Instruction) bool { return i == ssa.Instruction(l1[0]) }) == nil &&
		core.ReachableWithout(core.Entry(fn), isOwn, func(i ssa.Instruction) bool { return i == ssa.Instruction(l2[0]) }) == nil
	c.Decide(okBr, rule, "bridgeservice.(*BridgeService).ClaimProofHandler#branch", fn.Pos(), "the L1 syncer answers only for network 0, the L2 syncer only for this node's network")
	// response: the proofs obtained and the same leaf
	var resp *core.Term
	var respPos ssa.Instruction
	core.Instrs(fn, func(i ssa.Instruction) {
		if call, ok := i.(*ssa.Call); ok && strings.HasSuffix(core.CallName(call), "gin.Context).JSON") {
			if k, ok := core.ConstInt(call.Call.Args[1]); ok && k == 200 {
				resp = sx.Of(call.Call.Args[2])
				respPos = call
			}
		}
	})
	if resp == nil || resp.Op != "lit" {
		c.Undecide(rule, "bridgeservice.(*BridgeService).ClaimProofHandler#response", fn.Pos(), "200 response literal not found")
		return
	}
	g := func(k string) string {
		if resp.Fields[k] == nil {
			return "<unset>"
		}
		return resp.Fields[k].String()
	}
	okResp := strings.HasPrefix(g("ProofLocalExitRoot"), "bridgeservice/types.ConvertToProofResponse(phi{") && strings.Contains(g("ProofLocalExitRoot"), ".GetProof(b.bridgeL1,") && strings.Contains(g("ProofLocalExitRoot"), ".GetProof(b.bridgeL2,") &&
		strings.HasPrefix(g("ProofRollupExitRoot"), "bridgeservice/types.ConvertToProofResponse(") && strings.Contains(g("ProofRollupExitRoot"), ".GetRollupExitTreeMerkleProof(") &&
		g("L1InfoTreeLeaf") == "*bridgeservice.NewL1InfoTreeLeafResponse(INFO)"
	c.Decide(okResp, rule, "bridgeservice.(*BridgeService).ClaimProofHandler#response", respPos.Pos(), "response = {proof obtained on the taken branch, rollup proof, the same info leaf}: "+g("L1InfoTreeLeaf"))
	// errors end the handler before the 200 response
	for _, call := range []*ssa.Call{infoCalls[0], l1[0], l2[0], ler[0], rer[0]} {
		ev := core.ErrValueOf(call)
		errE := core.NilEdgesRes(fn, ev, false)
		bad := len(errE) == 0
		for _, e := range errE {
			start := core.Point{B: e.B.Succs[e.Succ], I: 0}
			if (&core.Walk{Target: func(i ssa.Instruction) bool { return i == respPos }}).From(start, nil) != nil {
				bad = true
			}
		}
		c.Decide(!bad, "C12-error", "bridgeservice.(*BridgeService).ClaimProofHandler#error@"+call.Call.Method.Name()+"/"+core.NewSymx().Of(call.Call.Value).Brief(), call.Pos(), "an error of this lookup ends the handler without a 200 answer")
	}
}

func init() {
	register(&Property{
		ID:    "C12",
		Level: "other",
		Explanation: "Decides the assembly half of the claim flow structurally: C12-assemble — ClaimProofHandler looks up ONE L1 info leaf by the leaf_index parameter; the L1 branch (network 0 only) proves deposit_count against that leaf's MainnetExitRoot; the L2 branch (this node's network only) first obtains the local exit root as the leaf of the rollup exit tree at that leaf's RollupExitRoot and proves deposit_count against THAT root; the rollup proof is asked for (network, info.RollupExitRoot); the 200 response carries the proofs obtained and the same leaf; C12-error — an error of any of the five lookups ends the handler before the 200 response. Declined: the two binary searches getFirstL1InfoTreeIndexFor{L1,L2}Bridge — their correctness is monotonicity plus midpoint arithmetic over runtime data, which no structural rule in reach decides; that the proofs verify is C08's orientation argument only.",
		Rules: []Rule{
			{ID: "C12-assemble", Floor: 12, Run: c12Assemble, Text: "[PROV]+[DOM] proof assembly per network from one info leaf; response; error exits"},
		},
	})
}
