package rules

import (
	"fmt"
	"go/token"
	"go/types"
	"sort"
	"strings"

	"golang.org/x/tools/go/ssa"

	"verif/checker/internal/core"
)

var storePkgs = []string{"bridgesync", "l1infotreesync", "lastgersync"}

func storeFns(c *core.Ctx, rule string, names ...string) []*ssa.Function {
	var out []*ssa.Function
	for _, p := range storePkgs {
		for _, n := range names {
			if f := c.MustFn(rule, p, "processor", n); f != nil {
				out = append(out, f)
			}
		}
	}
	return out
}

func c07TxPair(c *core.Ctx) {
	const rule = "TX-pair"
	for _, fn := range storeFns(c, rule, "ProcessBlock", "Reorg") {
		n := ruleTxPair(c, rule, fn)
		if n == 0 {
			// no transaction at all: acceptable only for a function performing a single SQL statement
			writes := 0
			core.Instrs(fn, func(i ssa.Instruction) {
				if sqlWriteOf(i) != nil {
					writes++
				}
			})
			cone := false
			core.Instrs(fn, func(i ssa.Instruction) {
				if cc := core.AsCall(i); cc != nil {
					if g := cc.StaticCallee(); inRepo(g) && g.Pkg == fn.Pkg && fnWritesSQL(c, g, 0) {
						cone = true
					}
				}
			})
			construct := core.ShortFn(fn) + "#single-statement"
			if writes == 1 && !cone {
				c.Hold(rule, construct, "no transaction, exactly one SQL statement (atomic by itself)")
			} else {
				c.Violate(rule, construct, fn.Pos(), fmt.Sprintf("performs %d SQL writes (plus callees: %v) without a transaction", writes, cone))
			}
		}
	}
	// every other function of the store packages and of the tree/db packages that opens a transaction
	for _, fn := range c.AllFuncs() {
		if fn.Pkg == nil {
			continue
		}
		pp := fn.Pkg.Pkg.Path()
		if pp != core.P("bridgesync") && pp != core.P("l1infotreesync") && pp != core.P("lastgersync") && pp != core.P("tree") && pp != core.P("db") {
			continue
		}
		if fn.Name() == "ProcessBlock" || fn.Name() == "Reorg" {
			continue
		}
		ruleTxPair(c, rule, fn)
	}
}

func fnWritesSQL(c *core.Ctx, f *ssa.Function, d int) bool {
	if d > 5 {
		return false
	}
	w := false
	core.Instrs(f, func(i ssa.Instruction) {
		if sqlWriteOf(i) != nil {
			w = true
		}
		if cc := core.AsCall(i); cc != nil {
			if g := cc.StaticCallee(); inRepo(g) && g != f && fnWritesSQL(c, g, d+1) {
				w = true
			}
		}
	})
	return w
}

func c07TxErr(c *core.Ctx) {
	for _, fn := range storeFns(c, "TX-err", "ProcessBlock", "Reorg") {
		ruleTxErr(c, "TX-err", fn)
	}
}

func c07Stop(c *core.Ctx) {
	const rule = "C07-stop"
	for _, s := range haltingSyncers {
		pi := newProcInfo(c, s.pkg)
		fn := c.MustFn(rule, s.pkg, "processor", "ProcessBlock")
		if pi == nil || fn == nil {
			continue
		}
		if !guardObligation(c, rule, pi, fn, s.pkg+".(*processor).ProcessBlock") {
			c.Undecide(rule, s.pkg+".(*processor).ProcessBlock", fn.Pos(), "ProcessBlock does not access processor data?")
		}
	}
}

func c07TxThrough(c *core.Ctx) {
	const rule = "TX-through"
	for _, fn := range storeFns(c, rule, "ProcessBlock", "Reorg") {
		ruleTxThrough(c, rule, fn)
	}
}

// ---- TX-mem / TX-frame ----------------------------------------------------------------------

// longLived are the store object types whose in-memory fields outlive a transaction.
var longLived = [][2]string{
	{"bridgesync", "processor"}, {"l1infotreesync", "processor"}, {"lastgersync", "processor"},
	{"tree", "Tree"}, {"tree", "AppendOnlyTree"}, {"tree", "UpdatableTree"},
	{"bridgesync", "BridgeSync"}, {"l1infotreesync", "L1InfoTreeSync"}, {"lastgersync", "LastGERSync"},
}

// accounted: fields written after construction and the reason they are safe across rollback / reorg.
var accountedMutable = map[string]string{
	"tree.AppendOnlyTree.lastIndex":         "frontier guard: invalidated by the rollback callback registered in AddLeaf (TX-mem), rebuilt by initCache",
	"tree.AppendOnlyTree.lastLeftCache":     "frontier: only trusted when lastIndex matches; invalidated with lastIndex (TX-mem)",
	"bridgesync.processor.halted":           "sticky by design: survives the rollback (C14)",
	"bridgesync.processor.haltedReason":     "sticky by design: survives the rollback (C14)",
	"l1infotreesync.processor.halted":       "sticky by design: survives the rollback (C14)",
	"l1infotreesync.processor.haltedReason": "sticky by design: survives the rollback (C14)",
	"bridgesync.processor.mu":               "mutex protecting halted/haltedReason (its address is handed to UnhaltIfAffectedRows); no data",
	"l1infotreesync.processor.mu":           "mutex protecting halted/haltedReason (its address is handed to UnhaltIfAffectedRows); no data",
}

// fieldStores enumerates stores to fields of the named struct (direct, through IndexAddr of an array field, or by
// handing the field's address to a callee) in every repository function except constructors (functions that
// allocate the struct themselves).
type fieldStore struct {
	fn    *ssa.Function
	instr ssa.Instruction
	field string
	kind  string // store | addr-escape
}

func fieldStoresOf(c *core.Ctx, n *types.Named) []fieldStore {
	var out []fieldStore
	for _, fn := range c.AllFuncs() {
		core.Instrs(fn, func(i ssa.Instruction) {
			fa, ok := i.(*ssa.FieldAddr)
			if !ok {
				return
			}
			st := derefNamedStruct(fa.X.Type(), n)
			if st == nil {
				return
			}
			// constructor: base is a fresh allocation in this function
			if _, isAlloc := fa.X.(*ssa.Alloc); isAlloc {
				return
			}
			fname := st.Field(fa.Field).Name()
			var visit func(addr ssa.Value, depth int)
			visit = func(addr ssa.Value, depth int) {
				for _, ref := range *addr.Referrers() {
					switch r := ref.(type) {
					case *ssa.Store:
						if r.Addr == addr {
							out = append(out, fieldStore{fn, r, fname, "store"})
						} else {
							out = append(out, fieldStore{fn, r, fname, "addr-escape"})
						}
					case *ssa.IndexAddr:
						if depth < 3 {
							visit(r, depth+1)
						}
					case *ssa.FieldAddr:
						if depth < 3 {
							visit(r, depth+1)
						}
					case *ssa.UnOp, *ssa.DebugRef, *ssa.Slice:
					case *ssa.Call, *ssa.Defer, *ssa.Go:
						cc := core.AsCall(ref)
						// method calls on the field's address with a pointer receiver (e.g. mu.Lock()) are not stores
						// of ours; passing &field to a function is an escape.
						isRecv := false
						if !cc.IsInvoke() && cc.StaticCallee() != nil && cc.StaticCallee().Signature.Recv() != nil && len(cc.Args) > 0 && cc.Args[0] == addr {
							isRecv = true
						}
						if !isRecv || !isSyncPrimitive(st.Field(fa.Field).Type()) {
							out = append(out, fieldStore{fn, ref, fname, "addr-escape"})
						}
					default:
						out = append(out, fieldStore{fn, ref, fname, "addr-escape"})
					}
				}
			}
			visit(fa, 0)
		})
	}
	return out
}

// isSyncPrimitive: mutexes and similar carry no data; method calls on them are not state writes.
func isSyncPrimitive(t types.Type) bool {
	n, ok := t.(*types.Named)
	if !ok || n.Obj().Pkg() == nil || n.Obj().Pkg().Path() != "sync" {
		return false
	}
	switch n.Obj().Name() {
	case "Mutex", "RWMutex", "WaitGroup", "Once":
		return true
	}
	return false
}

func c07TxFrame(c *core.Ctx) {
	const rule = "TX-frame"
	for _, ll := range longLived {
		n := c.Named(ll[0], ll[1])
		if n == nil {
			c.Undecide(rule, "anchor "+ll[0]+"."+ll[1], token.NoPos, "long-lived store type does not resolve")
			continue
		}
		mutable := map[string]token.Pos{}
		for _, fs := range fieldStoresOf(c, n) {
			key := ll[0] + "." + ll[1] + "." + fs.field
			if _, ok := mutable[key]; !ok {
				mutable[key] = fs.instr.Pos()
			}
		}
		keys := make([]string, 0, len(mutable))
		for k := range mutable {
			keys = append(keys, k)
		}
		sort.Strings(keys)
		bad := false
		for _, k := range keys {
			if _, ok := accountedMutable[k]; !ok {
				// mutex fields and similar: a field whose address is handed to sync primitives is not data
				c.Violate(rule, ll[0]+"."+ll[1]+"#mutable-field:"+k, mutable[k],
					"field is written after construction but has no rollback/reorg story in the checker's table (new in-memory cache?)")
				bad = true
			}
		}
		if !bad {
			c.Hold(rule, ll[0]+"."+ll[1]+"#mutable-fields", fmt.Sprintf("fields written after construction: %v — all accounted for", keys))
		}
	}
}

func c07TxMem(c *core.Ctx) {
	const rule = "TX-mem"
	txWrapperRule(c, rule)
	aot := c.Named("tree", "AppendOnlyTree")
	addLeaf := c.MustFn(rule, "tree", "AppendOnlyTree", "AddLeaf")
	ctor := c.MustFn(rule, "tree", "", "NewAppendOnlyTree")
	if aot == nil || addLeaf == nil || ctor == nil {
		return
	}
	// sentinel: the constant the constructor stores into lastIndex
	var sentinel *int64
	core.Instrs(ctor, func(i ssa.Instruction) {
		st, ok := i.(*ssa.Store)
		if !ok {
			return
		}
		fa, ok := st.Addr.(*ssa.FieldAddr)
		if !ok {
			return
		}
		if s := derefNamedStruct(fa.X.Type(), aot); s != nil && s.Field(fa.Field).Name() == "lastIndex" {
			if v, ok := core.ConstInt(st.Val); ok {
				sentinel = &v
			}
		}
	})
	if sentinel == nil {
		c.Undecide(rule, "tree.NewAppendOnlyTree#sentinel", ctor.Pos(), "constructor does not store a constant into lastIndex")
		return
	}
	if *sentinel >= -1 {
		c.Violate(rule, "tree.NewAppendOnlyTree#sentinel", ctor.Pos(), fmt.Sprintf("initial lastIndex %d is a valid 'last index' value: the first AddLeaf after a restart would not rebuild the cache", *sentinel))
	} else {
		c.Hold(rule, "tree.NewAppendOnlyTree#sentinel", fmt.Sprintf("lastIndex starts at %d < -1 (not initialised)", *sentinel))
	}
	// the rollback registration in AddLeaf
	txParam := addLeaf.Params[1]
	recv := addLeaf.Params[0]
	var regs []*ssa.Call
	core.Instrs(addLeaf, func(i ssa.Instruction) {
		call, ok := i.(*ssa.Call)
		if !ok || methodName(&call.Call) != "AddRollbackCallback" {
			return
		}
		if call.Call.Value != ssa.Value(txParam) {
			return
		}
		mc, ok := call.Call.Args[0].(*ssa.MakeClosure)
		if !ok {
			return
		}
		cl := mc.Fn.(*ssa.Function)
		// (i) the callback stores the sentinel into t.lastIndex on every path, or (ii) assigns every tracked field
		storesSentinel := func(ins ssa.Instruction) bool {
			st, ok := ins.(*ssa.Store)
			if !ok {
				return false
			}
			fa, ok := st.Addr.(*ssa.FieldAddr)
			if !ok {
				return false
			}
			s := derefNamedStruct(fa.X.Type(), aot)
			if s == nil || s.Field(fa.Field).Name() != "lastIndex" {
				return false
			}
			// receiver must be the captured t
			base := fa.X
			if u, ok := base.(*ssa.UnOp); ok {
				if fv, ok := u.X.(*ssa.FreeVar); ok {
					b := bindingOf(fv)
					if al, ok := b.(*ssa.Alloc); ok {
						only := true
						for _, r := range *al.Referrers() {
							if s2, ok := r.(*ssa.Store); ok && s2.Addr == ssa.Value(al) && s2.Val != ssa.Value(recv) {
								only = false
							}
						}
						if !only {
							return false
						}
					} else if b != ssa.Value(recv) {
						return false
					}
				}
			} else if fv, ok := base.(*ssa.FreeVar); ok {
				if bindingOf(fv) != ssa.Value(recv) {
					return false
				}
			}
			v, ok := core.ConstInt(st.Val)
			return ok && v == *sentinel
		}
		if (&core.Walk{Target: core.IsExit, Stop: storesSentinel}).From(core.Entry(cl), nil) == nil {
			regs = append(regs, call)
		}
	})
	// every store to the tracked fields in AddLeaf and its cone must be dominated by a registration
	type site struct {
		instr ssa.Instruction
		desc  string
	}
	var sites []site
	tracked := func(f *ssa.Function) []ssa.Instruction {
		var out []ssa.Instruction
		for _, fs := range fieldStoresOf(c, aot) {
			if fs.fn == f {
				out = append(out, fs.instr)
			}
		}
		return out
	}
	for _, i := range tracked(addLeaf) {
		sites = append(sites, site{i, "store in AddLeaf"})
	}
	core.Instrs(addLeaf, func(i ssa.Instruction) {
		cc := core.AsCall(i)
		if cc == nil {
			return
		}
		g := cc.StaticCallee()
		if !inRepo(g) {
			return
		}
		if len(tracked(g)) > 0 {
			sites = append(sites, site{i, "call of " + g.Name() + " (writes the frontier)"})
		}
	})
	ord := 0
	for _, s := range sites {
		ord++
		construct := fmt.Sprintf("tree.(*AppendOnlyTree).AddLeaf#frontier-write-%d", ord)
		dominated := false
		for _, r := range regs {
			if core.Dominates(r, s.instr) {
				dominated = true
			}
		}
		if dominated {
			c.Hold(rule, construct, s.desc+" is dominated by tx.AddRollbackCallback(invalidate)")
		} else {
			c.Violate(rule, construct, s.instr.Pos(), s.desc+" is not dominated by the registration of a rollback callback that resets lastIndex to the not-initialised sentinel: after a rollback the in-memory frontier would not match the database")
		}
	}
	if len(sites) == 0 {
		c.Undecide(rule, "tree.(*AppendOnlyTree).AddLeaf#frontier-writes", addLeaf.Pos(), "no frontier writes found in AddLeaf")
	}
	// writers of the frontier outside AddLeaf's cone
	for _, fs := range fieldStoresOf(c, aot) {
		root := core.RootFn(fs.fn)
		name := root.Name()
		if name == "AddLeaf" || name == "initCache" {
			continue
		}
		c.Violate(rule, "tree.AppendOnlyTree."+fs.field+"@"+core.ShortFn(fs.fn), fs.instr.Pos(), "frontier field written outside AddLeaf/initCache/rollback callback")
	}
	// initCache is only called from AddLeaf
	for _, cs := range c.AllCallsTo("(*tree.AppendOnlyTree).initCache") {
		c.Decide(cs.Fn == addLeaf, rule, "call-initCache@"+core.ShortFn(cs.Fn), cs.Instr.Pos(), "initCache (frontier rebuild) is called from AddLeaf only, under its rollback registration")
	}
	// the mismatch test: int64(leaf.Index) != t.lastIndex+1 leads to initCache
	sx := core.NewSymx()
	foundTest := false
	for _, b := range addLeaf.Blocks {
		iff, ok := b.Instrs[len(b.Instrs)-1].(*ssa.If)
		if !ok {
			continue
		}
		v, pos := core.CondOf(iff.Cond)
		bo, ok := v.(*ssa.BinOp)
		if !ok || (bo.Op != token.NEQ && bo.Op != token.EQL) {
			continue
		}
		l, r := sx.Of(bo.X).String(), sx.Of(bo.Y).String()
		want1, want2 := "conv:int64(leaf.Index)", "(t.lastIndex + const(1))"
		if !((l == want1 && r == want2) || (l == want2 && r == want1)) {
			continue
		}
		// mismatch edge
		mism := (bo.Op == token.NEQ) == pos
		succ := 1
		if mism {
			succ = 0
		}
		start := core.Point{B: b.Succs[succ], I: 0}
		// on the mismatch edge: the loop that mutates the cache must not be reached without initCache or return
		isInit := func(i ssa.Instruction) bool { return core.IsCallTo(i, "(*tree.AppendOnlyTree).initCache") }
		reach := (&core.Walk{Target: func(i ssa.Instruction) bool {
			return core.IsCallTo(i, "(*tree.Tree).storeRoot")
		}, Stop: isInit}).From(start, nil)
		if !foundTest {
			foundTest = true
			c.Decide(reach == nil, rule, "tree.(*AppendOnlyTree).AddLeaf#mismatch-rebuilds", iff.Pos(),
				"index mismatch (incl. the not-initialised sentinel) always goes through initCache before a root is stored")
		}
	}
	if !foundTest {
		c.Violate(rule, "tree.(*AppendOnlyTree).AddLeaf#mismatch-rebuilds", addLeaf.Pos(), "AddLeaf no longer compares int64(leaf.Index) with lastIndex+1")
	}
}

// ---- C07-halt-or-retry ------------------------------------------------------------------------

func c07HaltOrRetry(c *core.Ctx) {
	const rule = "C07-halt-or-retry"
	sx := core.NewSymx()
	for _, pkg := range storePkgs {
		fn := c.MustFn(rule, pkg, "processor", "ProcessBlock")
		if fn == nil {
			continue
		}
		pi := newProcInfo(c, pkg)
		n := 0
		for _, r := range core.Returns(fn) {
			if len(r.Results) != 1 {
				continue
			}
			t := sx.Of(r.Results[0])
			may := false
			for _, a := range t.Alts() {
				if strings.Contains(a.String(), errInconsistent) {
					may = true
				}
			}
			if !may {
				continue
			}
			n++
			construct := fmt.Sprintf("%s.(*processor).ProcessBlock#return-ErrInconsistentState-%d", pkg, n)
			if pi == nil || pi.halted == nil {
				c.Violate(rule, construct, r.Pos(), "returns ErrInconsistentState but the store has no halted flag: the driver stops retrying while later blocks can still be recorded")
				continue
			}
			// allowed: reached only via isHalted()==true edge, or only after a store halted=true
			halted := core.IfEdgesWhere(fn, pi.isHaltedCall, true)
			isLatch := func(i ssa.Instruction) bool {
				st, ok := i.(*ssa.Store)
				if !ok || !isConstBool(st.Val, true) {
					return false
				}
				fa, ok := st.Addr.(*ssa.FieldAddr)
				return ok && pi.fieldOf(fa) == pi.halted
			}
			// the return instruction may be shared by several paths carrying different values (a Phi, e.g. after a helper
			// was expanded in place): only paths on which the value returned can be the sentinel count
			f := (&core.Walk{EdgeOK: core.Forbid(halted), Stop: isLatch, TargetPath: func(i ssa.Instruction, path []int) bool {
				if i != ssa.Instruction(r) {
					return false
				}
				for _, a := range sx.Of(core.ResolveOnPath(r.Results[0], path)).Alts() {
					if strings.Contains(a.String(), errInconsistent) {
						return true
					}
				}
				return false
			}}).From(core.Entry(fn), nil)
			if f != nil {
				c.Violate(rule, construct, r.Pos(), "ErrInconsistentState is returned on a path that neither found the processor halted nor latched halted=true: the driver gives up on this block while the store keeps accepting later blocks ("+core.PathStr(f)+")")
			} else {
				c.Hold(rule, construct, "ErrInconsistentState only on the halted edge or after latching halted=true")
			}
		}
		if n == 0 {
			c.Hold(rule, pkg+".(*processor).ProcessBlock#never-returns-ErrInconsistentState", "ProcessBlock never returns ErrInconsistentState itself (errors are retried by the driver)")
		}
	}
	// the sentinel error is not produced anywhere else in the store / tree packages
	for _, fn := range c.AllFuncs() {
		if fn.Pkg == nil {
			continue
		}
		pp := fn.Pkg.Pkg.Path()
		if pp != core.P("tree") && pp != core.P("db") && pp != core.P("lastgersync") && pp != core.P("bridgesync") && pp != core.P("l1infotreesync") {
			continue
		}
		core.Instrs(fn, func(i ssa.Instruction) {
			u, ok := i.(*ssa.UnOp)
			if !ok || u.Op != token.MUL {
				return
			}
			g, ok := u.X.(*ssa.Global)
			if !ok || g.Name() != "ErrInconsistentState" {
				return
			}
			root := core.RootFn(fn)
			okPlace := root.Name() == "ProcessBlock"
			if root.Signature.Recv() != nil {
				rt := root.Signature.Recv().Type()
				if p, isPtr := rt.(*types.Pointer); isPtr {
					rt = p.Elem()
				}
				if nn, isNamed := rt.(*types.Named); isNamed && (nn.Obj().Name() == "BridgeSync" || nn.Obj().Name() == "L1InfoTreeSync") {
					okPlace = true
				}
			}
			if !okPlace {
				c.Violate(rule, "ErrInconsistentState-produced@"+core.ShortFn(fn), i.Pos(), "sync.ErrInconsistentState is produced below ProcessBlock: it would reach the driver without a halt")
			}
		})
	}
}

// returnsOnlyViaOtherValues: placeholder for Phi-sensitive refinement (conservative: false).

// ---- C07-order -----------------------------------------------------------------------------------

func c07Order(c *core.Ctx) {
	const rule = "C07-order"
	for _, fn := range storeFns(c, rule, "ProcessBlock") {
		for k, s := range findTxScopes(fn) {
			if s.txVal == nil || s.returnsTx() {
				continue
			}
			construct := fmt.Sprintf("%s#tx%d", core.ShortFn(fn), k+1)
			// (a) the first SQL write after begin is INSERT INTO block
			isBlockInsert := func(i ssa.Instruction) bool {
				w := sqlWriteOf(i)
				if w == nil || w.what != "Exec" {
					return false
				}
				cc := core.AsCall(i)
				args := cc.Args
				if !cc.IsInvoke() {
					args = args[1:]
				}
				q, ok := core.ConstString(args[0])
				return ok && strings.HasPrefix(strings.ToUpper(strings.TrimSpace(q)), "INSERT INTO BLOCK")
			}
			writesSQL := func(i ssa.Instruction) bool {
				if sqlWriteOf(i) != nil {
					return true
				}
				if cc := core.AsCall(i); cc != nil {
					if g := cc.StaticCallee(); inRepo(g) && fnWritesSQL(c, g, 0) {
						return true
					}
				}
				return false
			}
			first := (&core.Walk{Stop: isBlockInsert, Target: func(i ssa.Instruction) bool { return !isBlockInsert(i) && writesSQL(i) }}).From(core.After(s.begin), nil)
			if first != nil {
				c.Violate(rule, construct+"#block-row-first", first.Instr.Pos(), "an SQL write is reachable in the transaction before the block row is inserted (children reference block(num))")
			} else {
				c.Hold(rule, construct+"#block-row-first", "INSERT INTO block precedes every other write of the transaction")
			}
			// (b) nothing is written after Commit
			var late *core.Found
			core.Instrs(fn, func(i ssa.Instruction) {
				if s.isCommit(i) && late == nil {
					late = (&core.Walk{Target: writesSQL}).From(core.After(i), nil)
				}
			})
			if late != nil {
				c.Violate(rule, construct+"#commit-last", late.Instr.Pos(), "an SQL write is reachable after Commit (outside the block's transaction)")
			} else {
				c.Hold(rule, construct+"#commit-last", "no SQL write after Commit")
			}
		}
	}
}

func init() {
	register(&Property{
		ID:          "C07",
		Level:       "other",
		Explanation: "Decides the structural necessary conditions of all-or-nothing block processing on every path of the code (not the behaviour under concrete faults): TX-pair — in every ProcessBlock/Reorg of the three stores (and every other function of the store, tree and db packages that begins a transaction) each path from the successful begin to a function exit commits, rolls back, or has a deferred rollback registered whose flag is cleared only after Commit()==nil; TX-through — every SQL write (Exec, meddler.Insert/Update/Save) in the transaction scope and its callee cone (static callees plus repository implementations of interface methods) uses the transaction, never the *sql.DB; TX-mem — every in-memory frontier write of AppendOnlyTree (lastIndex, lastLeftCache, in AddLeaf and initCache) is dominated by the registration on the same tx of a rollback callback that resets lastIndex to the constructor's not-initialised sentinel, and the index-mismatch test always rebuilds before a root is stored; TX-frame — the set of fields of the long-lived store objects written after construction is computed and must be within the accounted table; C07-halt-or-retry — ProcessBlock returns ErrInconsistentState (on which the driver stops retrying) only when the processor is halted or has just latched halted=true, and the sentinel error is produced nowhere below ProcessBlock; C07-order — the block row is the first write and nothing is written after Commit. The retry-the-same-block half is C05-retry. Added after round 7: C07-schema (column affinity; references not deferred to COMMIT), C07-clear (halt lifted only after the reorg committed, shared with C14). Added after round 9: TX-mem also decides db.Tx itself (Commit reports a failed commit; registered callbacks are called from the list as registered).",
		Assumptions: []string{
			"the SQL engine's transactions are atomic and durable (trusted)",
			"if Rollback itself fails the callbacks do not run; the next AddLeaf then relies on the index comparison only (documented in DESIGN.md C07)",
			"value-level equality of the state after retry with the fault-free run is not decided",
		},
		Rules: []Rule{
			{ID: "TX-pair", Floor: 6, Run: c07TxPair, Text: "[TX] every path from a successful begin to an exit commits / rolls back / has a deferred rollback; flag cleared only after Commit()==nil; lastgersync.Reorg is a single statement"},
			{ID: "TX-through", Floor: 19, Run: c07TxThrough, Text: "[TX] every SQL write in the tx scope and its callee cone uses the tx handle"},
			{ID: "TX-err", Floor: 15, Run: c07TxErr, Text: "[ERR] a failed SQL write in the tx cone always ends the function with that error (duplicate rht rows, extended code 1555, excepted)"},
			{ID: "C07-schema", Floor: 45, Run: func(c *core.Ctx) {
				schemaTypesRule(c, "C07-schema", "bridgesync", "l1infotreesync", "lastgersync", "tree")
			}, Text: "[SCHEMA-TYPES] integer columns have INTEGER affinity (numeric ORDER BY), big.Int text columns have TEXT affinity, references are not deferred to COMMIT"},
			{ID: "C07-clear", Floor: 7, Run: shared("C07-clear", c14Clear), Text: "(shared with C14-clear) the halt is lifted only after the reorg transaction committed"},
			{ID: "C07-stop", Floor: 2, Run: c07Stop, Text: "[DOM] (shared with C14-stop) a halted processor records nothing: ProcessBlock passes the !isHalted() edge before any data access"},
			{ID: "TX-mem", Floor: 9, Run: c07TxMem, Text: "[TX] frontier writes are dominated by AddRollbackCallback(invalidate to sentinel); sentinel < -1; mismatch rebuilds"},
			{ID: "TX-frame", Floor: 9, Run: c07TxFrame, Text: "[WHO] computed set of post-construction field writes of the long-lived store objects is within the accounted table"},
			{ID: "C07-halt-or-retry", Floor: 3, Run: c07HaltOrRetry, Text: "[DOM] ErrInconsistentState leaves ProcessBlock only on the halted edge or after latching halted=true"},
			{ID: "C07-order", Floor: 6, Run: c07Order, Text: "[DOM] INSERT INTO block first, no SQL write after Commit"},
		},
	})
}
