package rules

import (
	"fmt"
	"go/token"
	"go/types"
	"reflect"
	"sort"
	"strings"

	"verif/checker/internal/core"
)

// [SCHEMA-TYPES] — the declared column types agree with what the Go side stores in them.
//
// SQLite decides comparison and ORDER BY semantics from the column's *affinity*. The stores order and select by chain
// position (block_num, block_pos, block_position, position, height, …): those columns carry Go integers and must have
// INTEGER affinity, otherwise `ORDER BY … DESC LIMIT 1` compares text ('9' > '10') and the "last root" / "last
// processed" accessors pick the wrong row. Conversely a big.Int stored through the `bigint` converter (a decimal string)
// must live in a TEXT/BLOB column: NUMERIC/INTEGER/REAL affinity turns values ≥ 2^63 into a lossy REAL.
//
// The Go side is read from the meddler struct tags of the whole repository (column name → field types and converter);
// a column name that maps to fields of both kinds is skipped as ambiguous.

type colUse struct {
	intField, bigintConv, other bool
	where                       string
}

func meddlerColumns(c *core.Ctx) map[string]*colUse {
	out := map[string]*colUse{}
	for _, p := range c.Pkgs {
		if p.Types == nil || !strings.HasPrefix(p.PkgPath, core.Mod) || core.IsMockPkg(p.PkgPath) {
			continue
		}
		sc := p.Types.Scope()
		for _, n := range sc.Names() {
			tn, ok := sc.Lookup(n).(*types.TypeName)
			if !ok {
				continue
			}
			st, ok := tn.Type().Underlying().(*types.Struct)
			if !ok {
				continue
			}
			for i := 0; i < st.NumFields(); i++ {
				tag := reflect.StructTag(st.Tag(i)).Get("meddler")
				if tag == "" || tag == "-" {
					continue
				}
				parts := strings.Split(tag, ",")
				col := strings.ToLower(parts[0])
				u := out[col]
				if u == nil {
					u = &colUse{}
					out[col] = u
				}
				u.where = strings.TrimPrefix(p.PkgPath, core.Mod+"/") + "." + n + "." + st.Field(i).Name()
				conv := ""
				if len(parts) > 1 {
					conv = parts[1]
				}
				ft := st.Field(i).Type()
				if ptr, isPtr := ft.Underlying().(*types.Pointer); isPtr {
					ft = ptr.Elem()
				}
				b, isBasic := ft.Underlying().(*types.Basic)
				switch {
				case conv == "bigint":
					u.bigintConv = true
				case conv == "" && isBasic && b.Info()&types.IsInteger != 0:
					u.intField = true
				default:
					u.other = true
				}
			}
		}
	}
	return out
}

// schemaTypesRule checks the migrations of the given packages (the tree migrations are instantiated without prefix).
func schemaTypesRule(c *core.Ctx, rule string, pkgs ...string) {
	uses := meddlerColumns(c)
	for _, pkg := range pkgs {
		files, probs := c.MigrationFiles(pkg + "/migrations")
		s := c.LoadSchema(files, "")
		for _, p := range append(probs, s.Problems...) {
			c.Undecide(rule, pkg+"#schema-problem:"+p, token.NoPos, p)
		}
		for _, tn := range s.TableNames() {
			t := s.Tables[tn]
			var cols []string
			for _, col := range t.Cols {
				cols = append(cols, col.Name)
			}
			sort.Strings(cols)
			for _, cn := range cols {
				col := t.Col(cn)
				construct := fmt.Sprintf("%s.%s.%s#affinity", pkg, tn, strings.ToLower(cn))
				if col.RefTable != "" {
					c.Decide(!col.Deferred, rule, fmt.Sprintf("%s.%s.%s#reference-immediate", pkg, tn, strings.ToLower(cn)), token.NoPos,
						"the reference to "+col.RefTable+" is checked by the statement, not deferred to COMMIT (a deferred violation makes the commit itself fail, after every in-memory effect of the block has been applied)")
				}
				u := uses[strings.ToLower(cn)]
				if u == nil {
					continue
				}
				aff := core.Affinity(col.Type)
				switch {
				case u.intField && !u.bigintConv && !u.other:
					c.Decide(aff == "INTEGER", rule, construct, token.NoPos, fmt.Sprintf("column %s %s (affinity %s) holds the Go integer %s: needs INTEGER affinity so that comparisons and ORDER BY are numeric", cn, col.Type, aff, u.where))
				case u.bigintConv && !u.intField && !u.other:
					c.Decide(aff == "TEXT" || aff == "BLOB", rule, construct, token.NoPos, fmt.Sprintf("column %s %s (affinity %s) holds a big.Int as a decimal string (%s): needs TEXT/BLOB affinity, a numeric affinity stores values ≥ 2^63 as a lossy REAL", cn, col.Type, aff, u.where))
				}
			}
		}
	}
}
