package rules

import (
	"fmt"
	"go/types"
	"strings"

	"golang.org/x/tools/go/ssa"

	"verif/checker/internal/core"
)

func c15Gate(c *core.Ctx) {
	const rule = "C15-gate"
	sx := core.NewSymx()
	sites := 0
	for _, fn := range c.AllFuncs() {
		if fn.Pkg == nil || core.IsMockPkg(fn.Pkg.Pkg.Path()) {
			continue
		}
		core.Instrs(fn, func(i ssa.Instruction) {
			cc := core.AsCall(i)
			if cc == nil || methodName(cc) != "InjectGER" {
				return
			}
			// only the oracle's use of the ChainSender interface is an injection decision; implementations forward
			if !cc.IsInvoke() {
				return
			}
			sites++
			construct := "call-InjectGER@" + core.ShortFn(fn)
			if core.ShortFn(fn) != "(*aggoracle.AggOracle).processLatestGER" {
				c.Violate(rule, construct, i.Pos(), "a GER is injected outside the gated oracle step")
				return
			}
			g := cc.Args[1]
			var chk *ssa.Call
			core.Instrs(fn, func(j ssa.Instruction) {
				if call, ok := j.(*ssa.Call); ok && call.Call.IsInvoke() && call.Call.Method.Name() == "IsGERInjected" && call.Call.Args[0] == g {
					chk = call
				}
			})
			if chk == nil {
				c.Violate(rule, construct, i.Pos(), "InjectGER(g) is not preceded by IsGERInjected of the same g")
				return
			}
			notInj := core.BoolEdges(fn, core.ExtractOf(chk, 0), false)
			noErr := core.NilEdgesRes(fn, core.ExtractOf(chk, 1), true)
			ok := len(notInj) > 0 && len(noErr) > 0 &&
				core.ReachableWithout(core.Entry(fn), notInj, func(x ssa.Instruction) bool { return x == i }) == nil &&
				core.ReachableWithout(core.Entry(fn), noErr, func(x ssa.Instruction) bool { return x == i }) == nil
			c.Decide(ok, rule, construct, i.Pos(), "InjectGER(g) only after IsGERInjected(g) returned (false, nil)")
			// g is the root returned by getLastFinalizedGER of a successful call
			gs := sx.Of(g).String()
			okG := gs == "(*aggoracle.AggOracle).getLastFinalizedGER(a, ctx, *blockNumToFetch)#1"
			var gl *ssa.Call
			core.Instrs(fn, func(j ssa.Instruction) {
				if core.IsCallTo(j, "(*aggoracle.AggOracle).getLastFinalizedGER") {
					gl, _ = j.(*ssa.Call)
				}
			})
			if gl != nil {
				e := core.NilEdgesRes(fn, core.ExtractOf(gl, 2), true)
				okG = okG && len(e) > 0 && core.ReachableWithout(core.Entry(fn), e, func(x ssa.Instruction) bool { return x == i }) == nil
			} else {
				okG = false
			}
			c.Decide(okG, rule, construct+"#value", i.Pos(), "the injected root is the one returned by a successful getLastFinalizedGER: "+gs)
		})
	}
	if sites == 0 {
		c.Undecide(rule, "call-InjectGER", 0, "the oracle never injects")
	}
}

func c15Prov(c *core.Ctx) {
	const rule = "C15-prov"
	sx := core.NewSymx()
	fn := c.MustFn(rule, "aggoracle", "AggOracle", "getLastFinalizedGER")
	if fn == nil {
		return
	}
	var info, hdr *ssa.Call
	core.Instrs(fn, func(i ssa.Instruction) {
		if call, ok := i.(*ssa.Call); ok && call.Call.IsInvoke() {
			switch call.Call.Method.Name() {
			case "GetLatestInfoUntilBlock":
				info = call
			case "HeaderByNumber":
				hdr = call
			}
		}
	})
	if info == nil || hdr == nil {
		c.Violate(rule, "aggoracle.(*AggOracle).getLastFinalizedGER#shape", fn.Pos(), "expected HeaderByNumber(finality) and GetLatestInfoUntilBlock")
		return
	}
	c.Decide(sx.Of(hdr.Call.Args[1]).String() == "a.blockFinality", rule, "aggoracle.(*AggOracle).getLastFinalizedGER#finality-sample", hdr.Pos(), "the L1 block is sampled with the configured finality: HeaderByNumber(ctx, a.blockFinality)")
	// the block passed to the syncer: the sampled header's number, or the sticky target when it is non-zero
	n := info.Call.Args[1]
	okN := false
	if phi, ok := n.(*ssa.Phi); ok {
		okN = true
		nonZero := core.TermEdges(fn, sx, func(s string, _ *core.Term) bool { return s == "(targetBlockNum == const(0))" }, false)
		hdrOK := core.NilEdgesRes(fn, core.ExtractOf(hdr, 1), true)
		for k, e := range phi.Edges {
			pred := phi.Block().Preds[k]
			si := 0
			for j, sc := range pred.Succs {
				if sc == phi.Block() {
					si = j
				}
			}
			rc := core.RetCase{Pred: pred, Succ: si}
			switch s := sx.Of(e).String(); {
			case s == "targetBlockNum":
				okN = okN && rc.ReachableOnlyVia(fn, nonZero)
			case strings.HasSuffix(s, ".HeaderByNumber(a.l1Client, ctx, a.blockFinality)#0.Number)") && strings.HasPrefix(s, "(*math/big.Int).Uint64("):
				okN = okN && rc.ReachableOnlyVia(fn, hdrOK)
			case s == "const(0)":
				// a placeholder travelling with an error (after a helper was expanded in place): it must come only from
				// the failed header lookup, and the syncer is not queried on that path
				hdrErr := core.NilEdgesRes(fn, core.ExtractOf(hdr, 1), false)
				ok0 := len(hdrErr) > 0 && rc.ReachableOnlyVia(fn, hdrErr)
				for _, he := range hdrErr {
					start, env := core.AfterEdge(he)
					if (&core.Walk{Target: func(x ssa.Instruction) bool { return x == ssa.Instruction(info) }}).From(start, env) != nil {
						ok0 = false
					}
				}
				okN = okN && ok0
			default:
				okN = false
			}
		}
	}
	c.Decide(okN, rule, "aggoracle.(*AggOracle).getLastFinalizedGER#block", info.Pos(), "the syncer is asked for the latest info until the sampled finalized block (or the non-zero retry target): "+sx.Of(n).String())
	// returns
	okRet := true
	cases := 0
	infoOK := core.NilEdgesRes(fn, core.ExtractOf(info, 1), true)
	for _, rc := range core.ReturnCases(fn) {
		if len(rc.Values) != 3 {
			continue
		}
		if !isNilConst(rc.Values[2]) {
			continue
		}
		cases++
		g := sx.Of(rc.Values[1]).String()
		t, isC := core.ConstInt(rc.Values[0])
		okRet = okRet && strings.HasSuffix(g, ".GetLatestInfoUntilBlock(a.l1Info, ctx, "+sx.Of(n).String()+")#0.GlobalExitRoot") && isC && t == 0 && rc.ReachableOnlyVia(fn, infoOK)
	}
	c.Decide(okRet && cases == 1, rule, "aggoracle.(*AggOracle).getLastFinalizedGER#result", fn.Pos(), "on success: (0, info.GlobalExitRoot of that query, nil) — the next tick samples finality again")
	// retry target on syncer error is the sampled block
	okErr, nErr := true, 0
	for _, rc := range core.ReturnCases(fn) {
		if len(rc.Values) == 3 && sx.Of(rc.Values[2]).String() == sx.Of(core.ExtractOf(info, 1)).String() {
			nErr++
			same := rc.Values[0] == n
			for _, lf := range phiLeaves(n) { // the return may have been split per operand of the merged block number
				if lf.val == rc.Values[0] {
					same = true
				}
			}
			okErr = okErr && same
		}
	}
	okErr = okErr && nErr > 0
	c.Decide(okErr, rule, "aggoracle.(*AggOracle).getLastFinalizedGER#retry-target", fn.Pos(), "when the syncer is behind, the block that was sampled is returned as retry target")
	// blockFinality is written only by New, from the configured finality type
	f := c.Field("aggoracle", "AggOracle", "blockFinality")
	n2 := 0
	for _, fn2 := range c.AllFuncs() {
		core.Instrs(fn2, func(i ssa.Instruction) {
			st, ok := i.(*ssa.Store)
			if !ok {
				return
			}
			fa, ok := st.Addr.(*ssa.FieldAddr)
			if !ok {
				return
			}
			a := sx.Of(fa)
			if a.Op != "field" || a.Name != "blockFinality" || !strings.HasSuffix(fa.X.Type().String(), "aggoracle.AggOracle") {
				return
			}
			n2++
			v := sx.Of(st.Val).String()
			c.Decide(core.ShortFn(fn2) == "aggoracle.New" && strings.HasSuffix(v, ".ToBlockNum(blockFinalityType)#0"), rule, "aggoracle.AggOracle.blockFinality@"+core.ShortFn(fn2), st.Pos(), "blockFinality ← blockFinalityType.ToBlockNum(), in New only: "+v)
		})
	}
	_ = f
	if n2 == 0 {
		c.Undecide(rule, "aggoracle.AggOracle.blockFinality", 0, "no store to blockFinality found")
	}
	// the sticky target only ever holds results of getLastFinalizedGER
	pl := c.MustFn(rule, "aggoracle", "AggOracle", "processLatestGER")
	if pl != nil {
		ok := true
		n := 0
		core.Instrs(pl, func(i ssa.Instruction) {
			st, isS := i.(*ssa.Store)
			if !isS || st.Addr != ssa.Value(pl.Params[2]) {
				return
			}
			n++
			if sx.Of(st.Val).String() != "(*aggoracle.AggOracle).getLastFinalizedGER(a, ctx, *blockNumToFetch)#0" {
				ok = false
			}
		})
		c.Decide(ok, rule, "aggoracle.(*AggOracle).processLatestGER#target-writes", pl.Pos(), fmt.Sprintf("the retry target is written only with getLastFinalizedGER's first result (%d writes)", n))
		// a retry target may stick only while the syncer has not reached the sampled block; on any other outcome
		// (success: 0; nothing found at or below the block; other errors) the next tick must sample finality again,
		// or newer finalized roots are never looked at. Accepted: the store is dominated by the success edge of the
		// lookup, or by errors.Is(err, ErrBlockNotProcessed).
		var look *ssa.Call
		core.Instrs(pl, func(i ssa.Instruction) {
			if cl, isC := i.(*ssa.Call); isC && core.IsCallTo(i, "(*aggoracle.AggOracle).getLastFinalizedGER") {
				look = cl
			}
		})
		if look != nil {
			allowed := core.NilEdgesRes(pl, core.ErrValueOf(look), true)
			allowed = append(allowed, core.TermEdges(pl, sx, func(s string, _ *core.Term) bool {
				return strings.HasPrefix(s, "errors.Is(") && strings.Contains(s, "l1infotreesync.ErrBlockNotProcessed")
			}, true)...)
			okDom := len(allowed) > 0
			core.Instrs(pl, func(i ssa.Instruction) {
				st, isS := i.(*ssa.Store)
				if !isS || st.Addr != ssa.Value(pl.Params[2]) {
					return
				}
				if f := core.ReachableWithout(core.After(look), allowed, func(x ssa.Instruction) bool { return x == i }); f != nil {
					okDom = false
				}
			})
			c.Decide(okDom, rule, "aggoracle.(*AggOracle).processLatestGER#target-sticks-only-while-behind", pl.Pos(), "the retry target is stored only after a successful lookup (value 0) or for ErrBlockNotProcessed; it cannot stick on ErrNotFound or other errors")
		}
	}
}

// c15Until: "latest info until block n" is what its name says, for the n that was asked.
// c15SingleFlight: one oracle step at a time. The check "is it injected already?" and the injection are only
// meaningful together when steps do not overlap: a step started in a goroutine per tick re-injects the same root.
func c15SingleFlight(c *core.Ctx) {
	const rule = "C15-gate"
	reaches := map[*ssa.Function]bool{}
	var mark func(fn *ssa.Function, d int) bool
	mark = func(fn *ssa.Function, d int) bool {
		if fn == nil || d > 4 {
			return false
		}
		if v, ok := reaches[fn]; ok {
			return v
		}
		reaches[fn] = false
		hit := false
		core.Instrs(fn, func(i ssa.Instruction) {
			if cc := core.AsCall(i); cc != nil {
				if cc.IsInvoke() && cc.Method.Name() == "InjectGER" {
					hit = true
				}
				if g := cc.StaticCallee(); g != nil && g.Pkg == fn.Pkg && mark(g, d+1) {
					hit = true
				}
			}
			if mc, ok := i.(*ssa.MakeClosure); ok && mark(mc.Fn.(*ssa.Function), d+1) {
				hit = true
			}
		})
		reaches[fn] = hit
		return hit
	}
	var bad []string
	n := 0
	for _, fn := range c.AllFuncs() {
		if fn.Pkg == nil || fn.Pkg.Pkg.Path() != core.P("aggoracle") {
			continue
		}
		core.Instrs(fn, func(i ssa.Instruction) {
			g, ok := i.(*ssa.Go)
			if !ok {
				return
			}
			n++
			var target *ssa.Function
			if mc, isMC := g.Call.Value.(*ssa.MakeClosure); isMC {
				target = mc.Fn.(*ssa.Function)
			} else {
				target = g.Call.StaticCallee()
			}
			if target != nil && mark(target, 0) {
				bad = append(bad, core.ShortFn(fn))
			}
		})
	}
	c.Decide(len(bad) == 0, rule, "aggoracle#one-step-at-a-time", 0, fmt.Sprintf("no goroutine started in the oracle package reaches InjectGER (%d go statements; offending: %v)", n, bad))
}

func c15Until(c *core.Ctx) {
	const rule = "C15-until"
	checkOrdered(c, rule, []orderedSpec{
		{"l1infotreesync", "processor", "GetLatestInfoUntilBlock", "L1INFO_LEAF", "DESC", []string{"BLOCK_NUM <= $1"}, [][]string{{"BLOCK_NUM", "BLOCK_POS"}, {"POSITION"}}, []string{"blockNum"}},
	})
	sx := core.NewSymx()
	fa := c.MustFn(rule, "l1infotreesync", "L1InfoTreeSync", "GetLatestInfoUntilBlock")
	if fa != nil {
		ok := false
		for _, rc := range core.ReturnCases(fa) {
			if s := sx.Of(rc.Values[0]).String(); s == "(*l1infotreesync.processor).GetLatestInfoUntilBlock(s.processor, ctx, blockNum)#0" {
				ok = true
			} else if s != "const(nil)" {
				ok = false
				break
			}
		}
		c.Decide(ok, rule, "l1infotreesync.(*L1InfoTreeSync).GetLatestInfoUntilBlock#pass-through", fa.Pos(), "the façade hands the caller's block number to the store and returns its leaf")
	}
	// the query is refused when the syncer has not reached the block (so "nothing newer below n" is meaningful)
	pr := c.MustFn(rule, "l1infotreesync", "processor", "GetLatestInfoUntilBlock")
	if pr != nil {
		behind := core.TermEdges(pr, sx, func(s string, _ *core.Term) bool {
			return strings.HasSuffix(s, " < blockNum)") && strings.Contains(s, "getLastProcessedBlockWithTx(")
		}, false)
		behind = append(behind, core.TermEdges(pr, sx, func(s string, _ *core.Term) bool {
			return strings.HasPrefix(s, "(blockNum > ") && strings.Contains(s, "getLastProcessedBlockWithTx(")
		}, false)...)
		behind = append(behind, core.TermEdges(pr, sx, func(s string, _ *core.Term) bool {
			return strings.HasSuffix(s, " >= blockNum)") && strings.Contains(s, "getLastProcessedBlockWithTx(")
		}, true)...)
		var q ssa.Instruction
		core.Instrs(pr, func(i ssa.Instruction) {
			if core.CallName(i) == "github.com/russross/meddler.QueryRow" {
				q = i
			}
		})
		ok := q != nil && len(behind) > 0 && core.ReachableWithout(core.Entry(pr), behind, func(x ssa.Instruction) bool { return x == q }) == nil
		c.Decide(ok, rule, "l1infotreesync.(*processor).GetLatestInfoUntilBlock#processed-first", pr.Pos(), "the leaf table is queried only when the last processed block has reached blockNum")
	}
}

// c15Ctx: InjectGER returns only when the L2 transaction was mined — or when its context ends, in which case the EVM
// sender answers nil. The oracle must therefore wait under its own, unbounded context: a derived context with a deadline
// makes a slow L2 look like "injected", the next tick sees "not injected" and sends the same root again.
func c15Ctx(c *core.Ctx) {
	const rule = "C15-ctx"
	sx := core.NewSymx()
	for _, w := range []struct{ fn, callee string }{
		{"Start", "(*aggoracle.AggOracle).processLatestGER"},
		{"processLatestGER", ").InjectGER"},
	} {
		fn := c.MustFn(rule, "aggoracle", "AggOracle", w.fn)
		if fn == nil {
			continue
		}
		n := 0
		core.InstrsDeep(fn, func(_ *ssa.Function, i ssa.Instruction) {
			cc := core.AsCall(i)
			if cc == nil || !strings.HasSuffix(core.CallName(i), w.callee) {
				return
			}
			n++
			args := core.CallArgs(cc)
			ok := false
			for _, a := range args {
				if types.TypeString(a.Type(), nil) == "context.Context" {
					ok = sx.Of(a).String() == "ctx"
				}
			}
			c.Decide(ok, rule, "aggoracle.(*AggOracle)."+w.fn+"#ctx-of-"+strings.TrimPrefix(w.callee[strings.LastIndex(w.callee, ".")+1:], ")"), i.Pos(), "the call runs under the function's own context parameter (no derived deadline)")
		})
		if n == 0 {
			c.Violate(rule, "aggoracle.(*AggOracle)."+w.fn+"#ctx", fn.Pos(), "call to "+w.callee+" not found")
		}
	}
}

func init() {
	register(&Property{
		ID:          "C15",
		Level:       "other",
		Explanation: "Decides the structural necessary conditions of 'the oracle injects only finalized, current, not-yet-present roots': C15-gate — the only InjectGER call through the ChainSender interface is in processLatestGER, reachable only after IsGERInjected of the same value returned (false, nil), and that value is the root returned by a successful getLastFinalizedGER; C15-prov — that root is GetLatestInfoUntilBlock(ctx, n).GlobalExitRoot of a successful query, n is the number of the header sampled with the configured finality (HeaderByNumber(ctx, a.blockFinality), success edge) or the non-zero retry target, blockFinality is written only in New from ToBlockNum(), and the retry target is written only with getLastFinalizedGER's first result; C15-resample — the success path returns target 0 so the next tick samples finality again (keeps up with newer finalized roots), while the syncer-behind path returns the sampled block. the retry target is stored only on the success edge of the lookup or for ErrBlockNotProcessed, so it cannot stick on ErrNotFound / other errors; C15-until — the store's GetLatestInfoUntilBlock(n) selects the last leaf in chain order with block_num <= $1 bound to n, only after the last processed block reached n, and the façade passes n through. Not decided: liveness under arbitrary relative speeds. C15-gate also requires that no goroutine started in the oracle package reaches InjectGER (one step at a time). Added after round 7: C15-ctx (tick and injection wait under the oracle's own context), C15-finality (shared with C06-finality), C15-bootstrap (shared with C05-bootstrap).",
		Rules: []Rule{
			{ID: "C15-gate", Floor: 3, Run: func(c *core.Ctx) { c15Gate(c); c15SingleFlight(c) }, Text: "[DOM]+[WHO] inject only after IsGERInjected(g) == (false, nil); g from a successful lookup"},
			{ID: "C15-prov", Floor: 7, Run: c15Prov, Text: "[PROV]+[DOM] finality sample, queried block, result and retry target (sticks only while the syncer is behind), finality field writers"},
			{ID: "C15-bootstrap", Floor: 2, Run: shared("C15-bootstrap", c05Bootstrap), Text: "(shared with C05-bootstrap) the L1 info tree syncer also syncs the initial block"},
			{ID: "C15-finality", Floor: 7, Run: shared("C15-finality", c06Finality), Text: "(shared with C06-finality) a block beyond finality is never delivered as finalized: its L1 info leaf would survive a reorg and the oracle would inject a root the canonical L1 never held"},
			{ID: "C15-ctx", Floor: 2, Run: c15Ctx, Text: "[PROV] the tick and the injection wait under the oracle's own context"},
			{ID: "C15-until", Floor: 3, Run: c15Until, Text: "SQL+[PROV]: GetLatestInfoUntilBlock(n) = last leaf with block_num <= n, bound to n, only once block n was processed; façade pass-through"},
		},
	})
}
