package rules

import (
	"fmt"
	"strings"

	"golang.org/x/tools/go/ssa"

	"verif/checker/internal/core"
)

func c15Gate(c *core.Ctx) {
	const rule = "C15-gate"
	sx := core.NewSymx()
	sites := 0
	for _, fn := range c.AllFuncs() {
		if fn.Pkg == nil || core.IsMockPkg(fn.Pkg.Pkg.Path()) {
			continue
		}
		core.Instrs(fn, func(i ssa.Instruction) {
			cc := core.AsCall(i)
			if cc == nil || methodName(cc) != "InjectGER" {
				return
			}
			// only the oracle's use of the ChainSender interface is an injection decision; implementations forward
			if !cc.IsInvoke() {
				return
			}
			sites++
			construct := "call-InjectGER@" + core.ShortFn(fn)
			if core.ShortFn(fn) != "(*aggoracle.AggOracle).processLatestGER" {
				c.Violate(rule, construct, i.Pos(), "a GER is injected outside the gated oracle step")
				return
			}
			g := cc.Args[1]
			var chk *ssa.Call
			core.Instrs(fn, func(j ssa.Instruction) {
				if call, ok := j.(*ssa.Call); ok && call.Call.IsInvoke() && call.Call.Method.Name() == "IsGERInjected" && call.Call.Args[0] == g {
					chk = call
				}
			})
			if chk == nil {
				c.Violate(rule, construct, i.Pos(), "InjectGER(g) is not preceded by IsGERInjected of the same g")
				return
			}
			notInj := core.BoolEdges(fn, core.ExtractOf(chk, 0), false)
			noErr := core.NilEdgesRes(fn, core.ExtractOf(chk, 1), true)
			ok := len(notInj) > 0 && len(noErr) > 0 &&
				core.ReachableWithout(core.Entry(fn), notInj, func(x ssa.Instruction) bool { return x == i }) == nil &&
				core.ReachableWithout(core.Entry(fn), noErr, func(x ssa.Instruction) bool { return x == i }) == nil
			c.Decide(ok, rule, construct, i.Pos(), "InjectGER(g) only after IsGERInjected(g) returned (false, nil)")
			// g is the root returned by getLastFinalizedGER of a successful call
			gs := sx.Of(g).String()
			okG := gs == "(*aggoracle.AggOracle).getLastFinalizedGER(a, ctx, *blockNumToFetch)#1"
			var gl *ssa.Call
			core.Instrs(fn, func(j ssa.Instruction) {
				if core.IsCallTo(j, "(*aggoracle.AggOracle).getLastFinalizedGER") {
					gl, _ = j.(*ssa.Call)
				}
			})
			if gl != nil {
				e := core.NilEdgesRes(fn, core.ExtractOf(gl, 2), true)
				okG = okG && len(e) > 0 && core.ReachableWithout(core.Entry(fn), e, func(x ssa.Instruction) bool { return x == i }) == nil
			} else {
				okG = false
			}
			c.Decide(okG, rule, construct+"#value", i.Pos(), "the injected root is the one returned by a successful getLastFinalizedGER: "+gs)
		})
	}
	if sites == 0 {
		c.Undecide(rule, "call-InjectGER", 0, "the oracle never injects")
	}
}

func c15Prov(c *core.Ctx) {
	const rule = "C15-prov"
	sx := core.NewSymx()
	fn := c.MustFn(rule, "aggoracle", "AggOracle", "getLastFinalizedGER")
	if fn == nil {
		return
	}
	var info, hdr *ssa.Call
	core.Instrs(fn, func(i ssa.Instruction) {
		if call, ok := i.(*ssa.Call); ok && call.Call.IsInvoke() {
			switch call.Call.Method.Name() {
			case "GetLatestInfoUntilBlock":
				info = call
			case "HeaderByNumber":
				hdr = call
			}
		}
	})
	if info == nil || hdr == nil {
		c.Violate(rule, "aggoracle.(*AggOracle).getLastFinalizedGER#shape", fn.Pos(), "expected HeaderByNumber(finality) and GetLatestInfoUntilBlock")
		return
	}
	c.Decide(sx.Of(hdr.Call.Args[1]).String() == "a.blockFinality", rule, "aggoracle.(*AggOracle).getLastFinalizedGER#finality-sample", hdr.Pos(), "the L1 block is sampled with the configured finality: HeaderByNumber(ctx, a.blockFinality)")
	// the block passed to the syncer: the sampled header's number, or the sticky target when it is non-zero
	n := info.Call.Args[1]
	okN := false
	if phi, ok := n.(*ssa.Phi); ok {
		okN = true
		nonZero := core.TermEdges(fn, sx, func(s string, _ *core.Term) bool { return s == "(targetBlockNum == const(0))" }, false)
		hdrOK := core.NilEdgesRes(fn, core.ExtractOf(hdr, 1), true)
		for k, e := range phi.Edges {
			pred := phi.Block().Preds[k]
			si := 0
			for j, sc := range pred.Succs {
				if sc == phi.Block() {
					si = j
				}
			}
			rc := core.RetCase{Pred: pred, Succ: si}
			switch s := sx.Of(e).String(); {
			case s == "targetBlockNum":
				okN = okN && rc.ReachableOnlyVia(fn, nonZero)
			case strings.HasSuffix(s, ".HeaderByNumber(a.l1Client, ctx, a.blockFinality)#0.Number)") && strings.HasPrefix(s, "(*math/big.Int).Uint64("):
				okN = okN && rc.ReachableOnlyVia(fn, hdrOK)
			default:
				okN = false
			}
		}
	}
	c.Decide(okN, rule, "aggoracle.(*AggOracle).getLastFinalizedGER#block", info.Pos(), "the syncer is asked for the latest info until the sampled finalized block (or the non-zero retry target): "+sx.Of(n).String())
	// returns
	okRet := true
	cases := 0
	infoOK := core.NilEdgesRes(fn, core.ExtractOf(info, 1), true)
	for _, rc := range core.ReturnCases(fn) {
		if len(rc.Values) != 3 {
			continue
		}
		if !isNilConst(rc.Values[2]) {
			continue
		}
		cases++
		g := sx.Of(rc.Values[1]).String()
		t, isC := core.ConstInt(rc.Values[0])
		okRet = okRet && strings.HasSuffix(g, ".GetLatestInfoUntilBlock(a.l1Info, ctx, "+sx.Of(n).String()+")#0.GlobalExitRoot") && isC && t == 0 && rc.ReachableOnlyVia(fn, infoOK)
	}
	c.Decide(okRet && cases == 1, rule, "aggoracle.(*AggOracle).getLastFinalizedGER#result", fn.Pos(), "on success: (0, info.GlobalExitRoot of that query, nil) — the next tick samples finality again")
	// retry target on syncer error is the sampled block
	okErr := false
	for _, rc := range core.ReturnCases(fn) {
		if len(rc.Values) == 3 && sx.Of(rc.Values[2]).String() == sx.Of(core.ExtractOf(info, 1)).String() {
			okErr = rc.Values[0] == n
		}
	}
	c.Decide(okErr, rule, "aggoracle.(*AggOracle).getLastFinalizedGER#retry-target", fn.Pos(), "when the syncer is behind, the block that was sampled is returned as retry target")
	// blockFinality is written only by New, from the configured finality type
	f := c.Field("aggoracle", "AggOracle", "blockFinality")
	n2 := 0
	for _, fn2 := range c.AllFuncs() {
		core.Instrs(fn2, func(i ssa.Instruction) {
			st, ok := i.(*ssa.Store)
			if !ok {
				return
			}
			fa, ok := st.Addr.(*ssa.FieldAddr)
			if !ok {
				return
			}
			a := sx.Of(fa)
			if a.Op != "field" || a.Name != "blockFinality" || !strings.HasSuffix(fa.X.Type().String(), "aggoracle.AggOracle") {
				return
			}
			n2++
			v := sx.Of(st.Val).String()
			c.Decide(core.ShortFn(fn2) == "aggoracle.New" && strings.HasSuffix(v, ".ToBlockNum(blockFinalityType)#0"), rule, "aggoracle.AggOracle.blockFinality@"+core.ShortFn(fn2), st.Pos(), "blockFinality ← blockFinalityType.ToBlockNum(), in New only: "+v)
		})
	}
	_ = f
	if n2 == 0 {
		c.Undecide(rule, "aggoracle.AggOracle.blockFinality", 0, "no store to blockFinality found")
	}
	// the sticky target only ever holds results of getLastFinalizedGER
	pl := c.MustFn(rule, "aggoracle", "AggOracle", "processLatestGER")
	if pl != nil {
		ok := true
		n := 0
		core.Instrs(pl, func(i ssa.Instruction) {
			st, isS := i.(*ssa.Store)
			if !isS || st.Addr != ssa.Value(pl.Params[2]) {
				return
			}
			n++
			if sx.Of(st.Val).String() != "(*aggoracle.AggOracle).getLastFinalizedGER(a, ctx, *blockNumToFetch)#0" {
				ok = false
			}
		})
		c.Decide(ok, rule, "aggoracle.(*AggOracle).processLatestGER#target-writes", pl.Pos(), fmt.Sprintf("the retry target is written only with getLastFinalizedGER's first result (%d writes)", n))
	}
}

func init() {
	register(&Property{
		ID:    "C15",
		Level: "other",
		Explanation: "Decides the structural necessary conditions of 'the oracle injects only finalized, current, not-yet-present roots': C15-gate — the only InjectGER call through the ChainSender interface is in processLatestGER, reachable only after IsGERInjected of the same value returned (false, nil), and that value is the root returned by a successful getLastFinalizedGER; C15-prov — that root is GetLatestInfoUntilBlock(ctx, n).GlobalExitRoot of a successful query, n is the number of the header sampled with the configured finality (HeaderByNumber(ctx, a.blockFinality), success edge) or the non-zero retry target, blockFinality is written only in New from ToBlockNum(), and the retry target is written only with getLastFinalizedGER's first result; C15-resample — the success path returns target 0 so the next tick samples finality again (keeps up with newer finalized roots), while the syncer-behind path returns the sampled block. Not decided: liveness under arbitrary relative speeds.",
		Rules: []Rule{
			{ID: "C15-gate", Floor: 2, Run: c15Gate, Text: "[DOM]+[WHO] inject only after IsGERInjected(g) == (false, nil); g from a successful lookup"},
			{ID: "C15-prov", Floor: 6, Run: c15Prov, Text: "[PROV]+[DOM] finality sample, queried block, result and retry target, finality field writers"},
		},
	})
}
