package rules

import (
	"fmt"
	"go/types"
	"regexp"
	"strconv"
	"strings"

	"golang.org/x/tools/go/ssa"

	"verif/checker/internal/core"
)

func c03LeafAgree(c *core.Ctx) {
	const rule = "C03-leaf-agree"
	endianHelpersRule(c, rule)
	lx := core.NewLayout()
	sx := core.NewSymx()
	// Agglayer-side exit leaf
	be := c.MustFn(rule, "agglayer/types", "BridgeExit", "Hash")
	if be != nil {
		for _, r := range core.Returns(be) {
			got := lx.Of(r.Results[0])
			want := "K(U8((agglayer/types.LeafType).Uint8(b.LeafType))|BE32(b.TokenInfo.OriginNetwork)|RAW20(b.TokenInfo.OriginTokenAddress)|BE32(b.DestinationNetwork)|RAW20(b.DestinationAddress)|U256BE(b.Amount)|PHI{BYTES(b.Metadata)|GLOBAL(agglayer/types.emptyBytesHash)})"
			c.Decide(got == want, rule, "agglayer/types.(*BridgeExit).Hash#layout", r.Pos(), "exit leaf = "+got)
		}
		// the substitution is taken exactly when the metadata is empty
		empty := core.TermEdges(be, sx, func(s string, _ *core.Term) bool { return s == "(len(b.Metadata) == const(0))" }, true)
		c.Decide(len(empty) > 0, rule, "agglayer/types.(*BridgeExit).Hash#empty-metadata-substitution", be.Pos(), "empty metadata is replaced by emptyBytesHash (keccak of nothing)")
	}
	// emptyBytesHash = Keccak256(nil)
	if sp := c.SSA[core.P("agglayer/types")]; sp != nil {
		ok := false
		if initFn := sp.Func("init"); initFn != nil {
			core.Instrs(initFn, func(i ssa.Instruction) {
				if st, isS := i.(*ssa.Store); isS {
					if g, isG := st.Addr.(*ssa.Global); isG && g.Name() == "emptyBytesHash" {
						l := lx.Of(st.Val)
						ok = l == "K()" || l == "K(EMPTY)"
					}
				}
			})
		}
		c.Decide(ok, rule, "agglayer/types.emptyBytesHash", 0, "emptyBytesHash = keccak256 of the empty string")
	}
	lt := c.MustFn(rule, "agglayer/types", "LeafType", "Uint8")
	if lt != nil {
		ok := false
		for _, r := range core.Returns(lt) {
			s := sx.Of(r.Results[0]).String()
			ok = s == "conv:uint8(l)" || s == "l"
		}
		c.Decide(ok, rule, "agglayer/types.LeafType.Uint8", lt.Pos(), "LeafType.Uint8 is the identity on the byte")
	}
	// node side: metadata is hashed unless empty
	cm := c.MustFn(rule, "aggsender/flows", "", "convertBridgeMetadata")
	if cm != nil {
		nonEmpty := core.TermEdges(cm, sx, func(s string, _ *core.Term) bool { return s == "(len(metadata) > const(0))" }, true)
		empty := core.TermEdges(cm, sx, func(s string, _ *core.Term) bool { return s == "(len(metadata) > const(0))" }, false)
		okVal := true
		seen := map[string]bool{}
		for _, rc := range core.ReturnCases(cm) {
			l := lx.Of(rc.Values[0])
			seen[l] = true
			switch l {
			case "EMPTY":
				okVal = okVal && rc.ReachableOnlyVia(cm, empty)
			case "K(BYTES(metadata))":
				okVal = okVal && rc.ReachableOnlyVia(cm, nonEmpty)
			default:
				okVal = false
			}
		}
		okVal = okVal && seen["EMPTY"] && seen["K(BYTES(metadata))"]
		c.Decide(okVal && len(nonEmpty) > 0, rule, "flows.convertBridgeMetadata", cm.Pos(), "metadata ↦ keccak(metadata) when non-empty, nil otherwise (so BridgeExit.Hash's leg equals Bridge.Hash's keccak(metadata) in both cases)")
	}
	// field map bridge → exit (composition with the layouts above gives Bridge.Hash's layout, C01-leaf)
	gb := c.MustFn(rule, "aggsender/flows", "baseFlow", "getBridgeExits")
	if gb != nil {
		als := allocsOfType(gb, "agglayer/types.BridgeExit")
		if len(als) != 1 {
			c.Undecide(rule, "flows.(*baseFlow).getBridgeExits#literal", gb.Pos(), fmt.Sprintf("expected one BridgeExit literal, found %d", len(als)))
		} else {
			lit := sx.Of(als[0])
			norm := func(t *core.Term) string {
				if t == nil {
					return "<unset>"
				}
				return strings.ReplaceAll(t.String(), "bridges"+rangeElemIdx, "BRIDGE")
			}
			want := map[string]string{
				"LeafType":           "BRIDGE.LeafType",
				"DestinationNetwork": "BRIDGE.DestinationNetwork",
				"DestinationAddress": "BRIDGE.DestinationAddress",
				"Amount":             "BRIDGE.Amount",
				"Metadata":           "aggsender/flows.convertBridgeMetadata(BRIDGE.Metadata)",
			}
			for k, w := range want {
				c.Decide(norm(lit.Fields[k]) == w, rule, "flows.(*baseFlow).getBridgeExits#"+k, als[0].Pos(), k+" ← "+norm(lit.Fields[k]))
			}
			ti := lit.Fields["TokenInfo"]
			for k, w := range map[string]string{"OriginNetwork": "BRIDGE.OriginNetwork", "OriginTokenAddress": "BRIDGE.OriginAddress"} {
				var got *core.Term
				if ti != nil {
					got = ti.Fields[k]
				}
				c.Decide(norm(got) == w, rule, "flows.(*baseFlow).getBridgeExits#TokenInfo."+k, als[0].Pos(), k+" ← "+norm(got))
			}
		}
	}
}

// orderPreservingMap: the slice the function returns holds exactly one element per input element, in index order
// ([LIST]: append to an empty list, or index store into make(len(input)), inside a loop over the whole input).
func orderPreservingMap(fn *ssa.Function, input string) (bool, string) {
	sx := core.NewSymx()
	var list ssa.Value
	var use ssa.Instruction
	for _, r := range core.Returns(fn) {
		if len(r.Results) == 0 {
			continue
		}
		if len(r.Results) == 2 && !isNilConst(r.Results[1]) {
			continue
		}
		if _, isSlice := r.Results[0].Type().Underlying().(*types.Slice); isSlice && !isNilConst(r.Results[0]) {
			list = r.Results[0]
			use = r
		}
	}
	if list == nil {
		return false, "no returned slice"
	}
	lb := core.AnalyseList(list)
	if len(lb.Problems) > 0 || len(lb.Elems) != 1 {
		return false, fmt.Sprintf("list construction: %v (%d element writes)", lb.Problems, len(lb.Elems))
	}
	e := lb.Elems[0]
	okSize := false
	if lb.Append {
		n, isC := core.ConstInt(lb.Make.Len)
		okSize = isC && n == 0
	} else {
		okSize = sx.Of(lb.Make.Len).String() == "len("+input+")" && e.Idx != nil && sx.Of(e.Idx).String() == "(loop{const(-1)} + const(1))"
	}
	full, why := core.FullRangeFor(e.At, sx, input, use)
	// no reordering helpers
	reorder := false
	core.Instrs(fn, func(i ssa.Instruction) {
		n := core.CallName(i)
		if strings.HasPrefix(n, "sort.") || strings.HasPrefix(n, "slices.Sort") || strings.HasPrefix(n, "slices.Reverse") {
			reorder = true
		}
	})
	return okSize && full && !reorder, fmt.Sprintf("one element per entry of %s, whole range, in order: size=%v range=%v %s reorder=%v", input, okSize, full, why, reorder)
}

func c03Order(c *core.Ctx) {
	const rule = "C03-order"
	for _, f := range [][2]string{{"getBridgeExits", "bridges"}, {"getImportedBridgeExits", "claims"}} {
		fn := c.MustFn(rule, "aggsender/flows", "baseFlow", f[0])
		if fn == nil {
			continue
		}
		ok, d := orderPreservingMap(fn, f[1])
		c.Decide(ok, rule, "flows.(*baseFlow)."+f[0]+"#order-preserving", fn.Pos(), "one output per input, in input order: "+d)
	}
	// the inputs come from the ordered, bounded range query
	q := c.MustFn(rule, "bridgesync", "processor", "queryBlockRange")
	if q != nil {
		sx := core.NewSymx()
		found := false
		core.Instrs(q, func(i ssa.Instruction) {
			cc := core.AsCall(i)
			if cc == nil || methodName(cc) != "Query" {
				return
			}
			found = true
			t := sx.Of(cc.Args[0])
			format := ""
			t.Walk(func(x *core.Term) {
				if x.Op == "const" && strings.Contains(x.Name, "SELECT") {
					format = x.Name
				}
			})
			if uq, err := strconv.Unquote(format); err == nil {
				format = uq
			}
			tk := " " + strings.Join(sqlTokensUpper(format), " ") + " "
			okW := strings.Contains(tk, " WHERE BLOCK_NUM >= $1 AND BLOCK_NUM <= $2 ORDER ")
			okO := strings.Contains(tk, " ORDER BY BLOCK_NUM ASC , BLOCK_POS ASC ") || strings.Contains(tk, " ORDER BY BLOCK_NUM , BLOCK_POS ")
			args := sx.Of(cc.Args[len(cc.Args)-1]).String()
			okA := strings.Contains(args, "[const(0)]: fromBlock") && strings.Contains(args, "[const(1)]: toBlock")
			c.Decide(okW && okO && okA, rule, "bridgesync.(*processor).queryBlockRange#statement", i.Pos(), fmt.Sprintf("block_num in [$1=fromBlock, $2=toBlock], ORDER BY block_num, block_pos ascending (where=%v order=%v args=%v)", okW, okO, okA))
		})
		if !found {
			c.Undecide(rule, "bridgesync.(*processor).queryBlockRange#statement", q.Pos(), "no Query call")
		}
	}
	for _, g := range [][2]string{{"GetBridges", "bridge"}, {"GetClaims", "claim"}} {
		fn := c.MustFn(rule, "bridgesync", "processor", g[0])
		if fn == nil {
			continue
		}
		sx := core.NewSymx()
		ok := false
		core.Instrs(fn, func(i ssa.Instruction) {
			if core.IsCallTo(i, "(*bridgesync.processor).queryBlockRange") {
				a := core.AsCall(i).Args
				ok = sx.Of(a[2]).String() == "fromBlock" && sx.Of(a[3]).String() == "toBlock" && strings.Contains(sx.Of(a[4]).String(), g[1])
			}
		})
		c.Decide(ok, rule, "bridgesync.(*processor)."+g[0]+"#range-args", fn.Pos(), g[0]+" queries table "+g[1]+" for exactly [fromBlock, toBlock]")
	}
}

func c03NewLER(c *core.Ctx) {
	const rule = "C03-newler"
	sx := core.NewSymx()
	fn := c.MustFn(rule, "aggsender/flows", "baseFlow", "getNewLocalExitRoot")
	if fn != nil {
		noBridges := core.TermEdges(fn, sx, func(s string, _ *core.Term) bool {
			// a count: `<= 0` says the same as `== 0`
			return s == "((*aggsender/types.CertificateBuildParams).NumberOfBridges(certParams) == const(0))" ||
				s == "((*aggsender/types.CertificateBuildParams).NumberOfBridges(certParams) <= const(0))"
		}, true)
		n := 0
		for _, rc := range core.ReturnCases(fn) {
			if len(rc.Values) != 2 || !isNilConst(rc.Values[1]) {
				continue
			}
			n++
			v := sx.Of(rc.Values[0]).String()
			switch v {
			case "previousLER":
				c.Decide(rc.ReachableOnlyVia(fn, noBridges), rule, "flows.(*baseFlow).getNewLocalExitRoot#previous", rc.Ret.Pos(), "new LER = previous LER only when the certificate has no bridge exits")
			default:
				want := "(aggsender/types.BridgeQuerier).GetExitRootByIndex(f.l2BridgeQuerier, ctx, (*aggsender/types.CertificateBuildParams).MaxDepositCount(certParams))#0"
				c.Decide(v == want, rule, "flows.(*baseFlow).getNewLocalExitRoot#by-max-deposit-count", rc.Ret.Pos(), "new LER = exit root recorded for the highest deposit count of the certificate: "+v)
			}
		}
		if n < 2 {
			c.Undecide(rule, "flows.(*baseFlow).getNewLocalExitRoot#cases", fn.Pos(), "expected two producing returns")
		}
	}
	md := c.MustFn(rule, "aggsender/types", "CertificateBuildParams", "MaxDepositCount")
	if md != nil {
		ok := false
		for _, rc := range core.ReturnCases(md) {
			if sx.Of(rc.Values[0]).String() == "c.Bridges[(len(c.Bridges) - const(1))].DepositCount" {
				ok = true
			}
		}
		c.Decide(ok, rule, "types.(*CertificateBuildParams).MaxDepositCount", md.Pos(), "highest deposit count = DepositCount of the LAST bridge (bridges are in chain order)")
	}
	bq := c.MustFn(rule, "aggsender/query", "bridgeDataQuerier", "GetExitRootByIndex")
	if bq != nil {
		ok := false
		for _, r := range core.Returns(bq) {
			if len(r.Results) == 2 && isNilConst(r.Results[1]) && strings.HasSuffix(sx.Of(r.Results[0]).String(), ").GetExitRootByIndex(b.bridgeSyncer, ctx, index)#0.Hash") {
				ok = true
			}
		}
		c.Decide(ok, rule, "aggsender/query.(*bridgeDataQuerier).GetExitRootByIndex", bq.Pos(), "returns the hash of the syncer's root for that index")
	}
	// certificate literal
	bc := c.MustFn(rule, "aggsender/flows", "baseFlow", "BuildCertificate")
	if bc != nil {
		als := allocsOfType(bc, "agglayer/types.Certificate")
		if len(als) == 1 {
			nh := "(*aggsender/flows.baseFlow).getNextHeightAndPreviousLER(f, lastSentCertificate)"
			bindLivePhis(sx, bc, als[0])
			checkFields(c, rule, "flows.(*baseFlow).BuildCertificate#certificate", als[0].Pos(), sx.Of(als[0]), map[string]string{
				"Height":              nh + "#0",
				"PrevLocalExitRoot":   nh + "#1",
				"NewLocalExitRoot":    "(*aggsender/flows.baseFlow).getNewLocalExitRoot(f, ctx, certParams, " + nh + "#1)#0",
				"BridgeExits":         "(*aggsender/flows.baseFlow).getBridgeExits(f, certParams.Bridges)",
				"ImportedBridgeExits": "(*aggsender/flows.baseFlow).getImportedBridgeExits(f, ctx, certParams.Claims, certParams.L1InfoTreeRootFromWhichToProve)#0",
				"NetworkID":           "(aggsender/types.BridgeQuerier).OriginNetwork(f.l2BridgeQuerier)",
			})
		} else {
			c.Undecide(rule, "flows.(*baseFlow).BuildCertificate#certificate", bc.Pos(), "certificate literal not found")
		}
	}
}

var sliceRe = regexp.MustCompile(`\[const\((\d+)\):const\((\d+)\)\]`)
var idxRe = regexp.MustCompile(`\[const\((\d+)\)\]$`)

func c03Meta(c *core.Ctx) {
	const rule = "C03-meta"
	sx := core.NewSymx()
	// builder: metadata arguments
	bc := c.MustFn(rule, "aggsender/flows", "baseFlow", "BuildCertificate")
	if bc != nil {
		found := false
		core.Instrs(bc, func(i ssa.Instruction) {
			if !core.IsCallTo(i, "aggsender/types.NewCertificateMetadata") {
				return
			}
			found = true
			a := core.AsCall(i).Args
			want := []string{"certParams.FromBlock", "conv:uint32((certParams.ToBlock - certParams.FromBlock))", "certParams.CreatedAt", "(aggsender/types.CertificateType).ToInt(certParams.CertificateType)"}
			for k, w := range want {
				c.Decide(sx.Of(a[k]).String() == w, rule, fmt.Sprintf("flows.(*baseFlow).BuildCertificate#metadata-arg-%d", k), i.Pos(), "NewCertificateMetadata arg "+fmt.Sprint(k)+" ← "+sx.Of(a[k]).String())
			}
		})
		if !found {
			c.Violate(rule, "flows.(*baseFlow).BuildCertificate#metadata", bc.Pos(), "certificate metadata is no longer built from the block range")
		}
		als := allocsOfType(bc, "agglayer/types.Certificate")
		if len(als) == 1 {
			m := sx.Of(als[0]).Fields["Metadata"]
			c.Decide(m != nil && strings.HasPrefix(m.String(), "(*aggsender/types.CertificateMetadata).ToHash(aggsender/types.NewCertificateMetadata("), rule, "flows.(*baseFlow).BuildCertificate#metadata-field", als[0].Pos(), "certificate.Metadata ← metadata.ToHash()")
		}
	}
	nm := c.MustFn(rule, "aggsender/types", "", "NewCertificateMetadata")
	if nm != nil {
		als := allocsOfType(nm, "types.CertificateMetadata")
		if len(als) == 1 {
			checkFields(c, rule, "types.NewCertificateMetadata", als[0].Pos(), sx.Of(als[0]), map[string]string{"FromBlock": "fromBlock", "Offset": "offset", "CreatedAt": "createdAt", "CertType": "certType"})
		}
	}
	// writer table
	type slot struct {
		bits   int
		lo, hi int
	}
	writer := map[string]slot{}
	th := c.MustFn(rule, "aggsender/types", "CertificateMetadata", "ToHash")
	if th != nil {
		core.Instrs(th, func(i ssa.Instruction) {
			switch x := i.(type) {
			case *ssa.Call:
				n := core.CallName(x)
				bits := 0
				switch n {
				case "(encoding/binary.bigEndian).PutUint64":
					bits = 64
				case "(encoding/binary.bigEndian).PutUint32":
					bits = 32
				default:
					if strings.HasPrefix(n, "(encoding/binary.") {
						writer["?"+n] = slot{}
					}
					return
				}
				m := sliceRe.FindStringSubmatch(sx.Of(x.Call.Args[1]).String())
				f := sx.Of(x.Call.Args[2]).String()
				if m != nil {
					var lo, hi int
					fmt.Sscan(m[1], &lo)
					fmt.Sscan(m[2], &hi)
					writer[strings.TrimPrefix(f, "c.")] = slot{bits, lo, hi}
				}
			case *ssa.Store:
				if ia, ok := x.Addr.(*ssa.IndexAddr); ok {
					if k, ok := core.ConstInt(ia.Index); ok {
						f := sx.Of(x.Val).String()
						if strings.HasPrefix(f, "c.") {
							writer[strings.TrimPrefix(f, "c.")] = slot{8, int(k), int(k) + 1}
						}
					}
				}
			}
		})
	}
	// reader table (latest version literal: the one that reads CertType)
	reader := map[string]slot{}
	rf := c.MustFn(rule, "aggsender/types", "", "NewCertificateMetadataFromHash")
	if rf != nil {
		for _, al := range allocsOfType(rf, "types.CertificateMetadata") {
			lit := sx.Of(al)
			if lit.Fields["CertType"] == nil {
				continue
			}
			for k, v := range lit.Fields {
				s := v.String()
				switch {
				case strings.HasPrefix(s, "(encoding/binary.bigEndian).Uint64("):
					if m := sliceRe.FindStringSubmatch(s); m != nil {
						var lo, hi int
						fmt.Sscan(m[1], &lo)
						fmt.Sscan(m[2], &hi)
						reader[k] = slot{64, lo, hi}
					}
				case strings.HasPrefix(s, "(encoding/binary.bigEndian).Uint32("):
					if m := sliceRe.FindStringSubmatch(s); m != nil {
						var lo, hi int
						fmt.Sscan(m[1], &lo)
						fmt.Sscan(m[2], &hi)
						reader[k] = slot{32, lo, hi}
					}
				case strings.HasPrefix(s, "(encoding/binary."):
					reader[k] = slot{-1, 0, 0}
				default:
					if m := idxRe.FindStringSubmatch(s); m != nil {
						var lo int
						fmt.Sscan(m[1], &lo)
						reader[k] = slot{8, lo, lo + 1}
					}
				}
			}
		}
	}
	for _, f := range []string{"Version", "FromBlock", "Offset", "CreatedAt", "CertType"} {
		w, okW := writer[f]
		r, okR := reader[f]
		ok := okW && okR && w == r && w.hi-w.lo == w.bits/8
		c.Decide(ok, rule, "types.CertificateMetadata#codec."+f, 0, fmt.Sprintf("writer %v / reader %v agree on %s (big-endian, bytes [%d:%d))", w, r, f, w.lo, w.hi))
	}
	// no overlap between slots
	over := false
	for a, x := range writer {
		for b, y := range writer {
			if a < b && x.lo < y.hi && y.lo < x.hi {
				over = true
			}
		}
	}
	c.Decide(!over && len(writer) >= 5, rule, "types.CertificateMetadata#codec.disjoint", 0, fmt.Sprintf("metadata slots are disjoint: %v", writer))
}

func init() {
	register(&Property{
		ID:          "C03",
		Level:       "other",
		Explanation: "Decides the structural necessary conditions of 'a built certificate's new exit root follows from its bridge exits': C03-leaf-agree — the byte layout of agglayer/types.BridgeExit.Hash (what the Agglayer appends to its tree), composed with the field map of getBridgeExits and with convertBridgeMetadata / the empty-metadata substitution (emptyBytesHash = keccak of nothing), is the layout of bridgesync.Bridge.Hash (what the node appended, C01-leaf): same seven parts, widths and order; C03-order — both conversions are order-preserving maps (one append per element of a range over the input, no reordering call), and the inputs come from queryBlockRange whose statement (constant-folded, tokenised) bounds block_num by [$1=fromBlock, $2=toBlock] and orders by block_num, block_pos ascending; C03-newler — NewLocalExitRoot is the exit root recorded for MaxDepositCount (= DepositCount of the LAST bridge) or the previous LER when there are no bridges, and the certificate literal takes height / previous LER / exits / network from the matching sources; C03-meta — metadata arguments (FromBlock, uint32(ToBlock-FromBlock), CreatedAt, type) and writer/reader agreement of the metadata codec (slot table extracted from PutUintNN / UintNN calls, big-endian, disjoint). Not decided: that the stored root for that deposit count is the right one (C01) and the choice of range (C02/C17). Added after round 7: C03-fk (foreign keys on every pooled connection, shared with C04), C03-recover (range recovered from an Agglayer header, shared with C13). Added after round 8: C03-range (shared with C02-range) and C03-calldata (shared with C20-abi/C20-match).",
		Rules: []Rule{
			{ID: "C03-leaf-agree", Floor: 11, Run: c03LeafAgree, Text: "[LAYOUT]+[FIELDMAP] BridgeExit.Hash ∘ getBridgeExits ≡ Bridge.Hash"},
			{ID: "C03-fk", Floor: 4, Run: shared("C03-fk", c04FK), Text: "(shared with C04-fk) foreign keys are enabled on every pooled connection: a reorg cascades to bridge/claim rows whichever connection runs it"},
			{ID: "C03-recover", Floor: 8, Run: shared("C03-recover", c13Recover), Text: "(shared with C13-recover) the block range recovered from an Agglayer header is the range that certificate covered"},
			{ID: "C03-range", Floor: 9, Run: shared("C03-range", c02LastSent), Text: "(shared with C02-range) a retry re-sends the failed range from its first block"},
			{ID: "C03-calldata", Floor: 24, Run: shared("C03-calldata", c20ABI, c20Match), Text: "(shared with C20-abi/C20-match) the leaf type of an imported exit comes from the call that matched the claim"},
			{ID: "C03-order", Floor: 5, Run: c03Order, Text: "order-preserving conversions over an ordered, bounded range query"},
			{ID: "C03-newler", Floor: 9, Run: c03NewLER, Text: "[PROV] new LER by highest deposit count / previous LER; certificate literal"},
			{ID: "C03-prev", Floor: 5, Run: shared("C03-prev", c02Next), Text: "(shared with C02-next) previous LER / height derivation from the last certificate's state"},
			{ID: "C03-cut", Floor: 15, Run: shared("C03-cut", c17Filter, c17Exit), Text: "(shared with C17) a cut certificate holds exactly the events of its cut range; limiter clamp"},
			{ID: "C03-stateless", Floor: 3, Run: func(c *core.Ctx) { statelessQueriers(c, "C03-stateless") }, Text: "(shared with C09) querier / flow objects are stateless: no memo of chain data survives a reorg"},
			{ID: "C03-meta", Floor: 14, Run: c03Meta, Text: "[PROV]+[LAYOUT] metadata arguments; codec writer/reader slot tables agree"},
		},
	})
}
