package rules

import (
	"fmt"
	"go/token"
	"go/types"
	"strings"

	"golang.org/x/tools/go/ssa"

	"verif/checker/internal/core"
)

// storeSchema loads the final schema of one store from its embedded migrations.
func storeSchema(c *core.Ctx, pkg string) (*core.Schema, []string) {
	files, probs := c.MigrationFiles(pkg + "/migrations")
	s := c.LoadSchema(files, "")
	probs = append(probs, s.Problems...)
	return s, probs
}

// sqlTokensUpper tokenises a statement and upper-cases keywords/identifiers, dropping a trailing ';'.
func sqlTokensUpper(q string) []string {
	tk := core.SQLTokens(q)
	for i := range tk {
		tk[i] = strings.ToUpper(tk[i])
	}
	for len(tk) > 0 && tk[len(tk)-1] == ";" {
		tk = tk[:len(tk)-1]
	}
	return tk
}

func tokensEqual(a []string, b ...string) bool {
	if len(a) != len(b) {
		return false
	}
	for i := range a {
		if a[i] != b[i] {
			return false
		}
	}
	return true
}

// execArgs returns (query constant, variadic argument terms) of an Exec-like call.
func execQuery(cc *ssa.CallCommon) (string, bool) {
	args := cc.Args
	if !cc.IsInvoke() && cc.StaticCallee() != nil && cc.StaticCallee().Signature.Recv() != nil {
		args = args[1:]
	}
	for _, a := range args {
		if q, ok := core.ConstString(a); ok {
			return q, true
		}
	}
	return "", false
}

func c04Cascade(c *core.Ctx) {
	const rule = "C04-cascade"
	for _, pkg := range storePkgs {
		s, probs := storeSchema(c, pkg)
		for _, p := range probs {
			c.Undecide(rule, pkg+"#schema-problem:"+p, token.NoPos, p)
		}
		blk := s.Tables["block"]
		okBlk := blk != nil && blk.HasUnique("num")
		c.Decide(okBlk, rule, pkg+".block#pk-num", token.NoPos, "block(num) is the primary key the per-block tables reference")
		for _, name := range s.TableNames() {
			if name == "block" {
				continue
			}
			t := s.Tables[name]
			ok := false
			for _, col := range t.Cols {
				if strings.EqualFold(col.RefTable, "block") && strings.EqualFold(col.RefCol, "num") && col.OnDelete == "CASCADE" {
					ok = true
				}
			}
			if ok {
				c.Hold(rule, pkg+"."+name, "references block(num) ON DELETE CASCADE (created in "+t.Pos+")")
			} else {
				c.Violate(rule, pkg+"."+name, token.NoPos, "table "+name+" ("+t.Pos+") holds synced data but has no `REFERENCES block(num) ON DELETE CASCADE` column: its rows survive a reorg")
			}
		}
	}
	// tree tables: root is deleted by block_num in Tree.Reorg (C04-trees), rht is content addressed
	files, probs := c.MigrationFiles("tree/migrations")
	ts := c.LoadSchema(files, "")
	for _, p := range append(probs, ts.Problems...) {
		c.Undecide(rule, "tree#schema-problem:"+p, token.NoPos, p)
	}
	for _, name := range ts.TableNames() {
		t := ts.Tables[name]
		switch name {
		case "root":
			c.Decide(t.Col("block_num") != nil, rule, "tree.root", token.NoPos, "root rows carry block_num (removed by Tree.Reorg)")
		case "rht":
			hasBlock := false
			for _, col := range t.Cols {
				if strings.Contains(strings.ToLower(col.Name), "block") {
					hasBlock = true
				}
			}
			c.Decide(!hasBlock && t.HasUnique("hash"), rule, "tree.rht", token.NoPos, "rht is content-addressed by hash and version-free: stale nodes are unreachable from surviving roots")
		default:
			c.Violate(rule, "tree."+name, token.NoPos, "new tree table without a reorg story")
		}
	}
}

func c04FK(c *core.Ctx) {
	const rule = "C04-fk"
	sx := core.NewSymx()
	n := 0
	for _, cs := range c.AllCallsTo("database/sql.Open") {
		n++
		construct := "sql.Open@" + core.ShortFn(cs.Fn)
		if core.ShortFn(cs.Fn) != "db.NewSQLiteDB" {
			c.Violate(rule, construct, cs.Instr.Pos(), "a second way to open a database: foreign keys (ON DELETE CASCADE) may be off for this connection")
			continue
		}
		// the DSN text, folded through Sprintf, concatenation, constants and static helpers (the path is a placeholder)
		format := stmtText(core.AsCall(cs.Instr).Args[1], 0)
		ok := false
		if i := strings.Index(format, "?"); i >= 0 {
			for _, kv := range strings.Split(format[i+1:], "&") {
				if kv == "_foreign_keys=on" || kv == "_foreign_keys=1" || kv == "_fk=on" || kv == "_fk=1" || kv == "_foreign_keys=true" || kv == "_fk=true" {
					ok = true
				}
			}
		}
		c.Decide(ok, rule, construct+"#dsn", cs.Instr.Pos(), "DSN enables foreign keys: "+format)
	}
	if n == 0 {
		c.Undecide(rule, "sql.Open", token.NoPos, "no sql.Open call found")
	}
	// each store opens its database through db.NewSQLiteDB
	for _, pkg := range storePkgs {
		pi := c.Named(pkg, "processor")
		fn := c.MustFn(rule, pkg, "", "newProcessor")
		if pi == nil || fn == nil {
			continue
		}
		st := pi.Underlying().(*types.Struct)
		for i := 0; i < st.NumFields(); i++ {
			f := st.Field(i)
			pt, ok := f.Type().(*types.Pointer)
			if !ok {
				continue
			}
			nn, ok := pt.Elem().(*types.Named)
			if !ok || nn.Obj().Pkg() == nil || nn.Obj().Pkg().Path() != "database/sql" || nn.Obj().Name() != "DB" {
				continue
			}
			// find the store into this field in the constructor
			found := false
			core.Instrs(fn, func(ins ssa.Instruction) {
				s, ok := ins.(*ssa.Store)
				if !ok {
					return
				}
				fa, ok := s.Addr.(*ssa.FieldAddr)
				if !ok || derefNamedStruct(fa.X.Type(), pi) == nil || st.Field(fa.Field) != f {
					return
				}
				found = true
				v := sx.Of(s.Val).String()
				c.Decide(strings.HasPrefix(v, "db.NewSQLiteDB("), rule, pkg+".processor."+f.Name(), s.Pos(), "store database handle comes from db.NewSQLiteDB: "+v)
			})
			if !found {
				c.Undecide(rule, pkg+".processor."+f.Name(), fn.Pos(), "constructor does not initialise the database handle")
			}
		}
	}
}

func isTreeType(t types.Type) bool {
	if p, ok := t.(*types.Pointer); ok {
		t = p.Elem()
	}
	n, ok := t.(*types.Named)
	return ok && n.Obj().Pkg() != nil && n.Obj().Pkg().Path() == core.P("tree") && strings.HasSuffix(n.Obj().Name(), "Tree")
}

func c04Trees(c *core.Ctx) {
	const rule = "C04-trees"
	sx := core.NewSymx()
	for _, pkg := range storePkgs {
		fn := c.MustFn(rule, pkg, "processor", "Reorg")
		pn := c.Named(pkg, "processor")
		if fn == nil || pn == nil {
			continue
		}
		param := fn.Params[2]
		scopes := findTxScopes(fn)
		// a rewind removes rows and writes none: a row added here (a "processed up to" marker, say) moves the resume point
		// past blocks of the new branch that were never downloaded
		onlyDel, nStmt := true, 0
		core.Instrs(fn, func(i ssa.Instruction) {
			w := sqlWriteOf(i)
			if w == nil {
				return
			}
			nStmt++
			if w.what != "Exec" && w.what != "ExecContext" {
				onlyDel = false
				return
			}
			q := ""
			for _, a := range core.AsCall(i).Args {
				if a.Type().String() == "string" {
					q = stmtText(a, 0)
				}
			}
			tk := sqlTokensUpper(q)
			onlyDel = onlyDel && len(tk) > 0 && tk[0] == "DELETE"
		})
		c.Decide(onlyDel && nStmt > 0, rule, pkg+".(*processor).Reorg#only-deletes", fn.Pos(), fmt.Sprintf("every statement the rewind executes itself is a DELETE (%d statements)", nStmt))
		// the DELETE FROM block statement
		var del ssa.Instruction
		core.Instrs(fn, func(i ssa.Instruction) {
			w := sqlWriteOf(i)
			if w == nil {
				return
			}
			q, ok := execQuery(core.AsCall(i))
			if !ok {
				return
			}
			if tokensEqual(sqlTokensUpper(q), "DELETE", "FROM", "BLOCK", "WHERE", "NUM", ">=", "$1") {
				del = i
			}
		})
		if del == nil {
			c.Violate(rule, pkg+".(*processor).Reorg#delete-blocks", fn.Pos(), "Reorg does not execute `DELETE FROM block WHERE num >= $1`")
			continue
		}
		cc := core.AsCall(del)
		argsT := sx.Of(cc.Args[len(cc.Args)-1]).String()
		c.Decide(strings.Contains(argsT, "[const(0)]: firstReorgedBlock}") && !strings.Contains(argsT, "const(1)]"), rule, pkg+".(*processor).Reorg#delete-blocks", del.Pos(),
			"`DELETE FROM block WHERE num >= $1` is bound to firstReorgedBlock: "+argsT)
		_ = param
		// every tree field is reorged with the same tx and argument before Commit
		st := pn.Underlying().(*types.Struct)
		for i := 0; i < st.NumFields(); i++ {
			f := st.Field(i)
			if !isTreeType(f.Type()) {
				continue
			}
			construct := fmt.Sprintf("%s.(*processor).Reorg#tree:%s", pkg, f.Name())
			var call *ssa.Call
			core.Instrs(fn, func(ins ssa.Instruction) {
				cl, ok := ins.(*ssa.Call)
				if !ok || core.CallName(cl) != "(*tree.Tree).Reorg" {
					return
				}
				if strings.HasPrefix(sx.Of(cl.Call.Args[0]).String(), "p."+f.Name()+".") || sx.Of(cl.Call.Args[0]).String() == "p."+f.Name() {
					call = cl
				}
			})
			if call == nil {
				c.Violate(rule, construct, fn.Pos(), "tree field "+f.Name()+" is not rewound in Reorg: its roots for the dropped blocks survive")
				continue
			}
			okTx := len(scopes) == 1 && scopes[0].isTx(call.Call.Args[1])
			okArg := sx.Of(call.Call.Args[2]).String() == "firstReorgedBlock"
			// not skippable: Commit unreachable from the begin without passing the call
			skippable := false
			if len(scopes) == 1 {
				s := scopes[0]
				f := (&core.Walk{Stop: func(x ssa.Instruction) bool { return x == ssa.Instruction(call) }, Target: s.isCommit}).From(core.After(s.begin), nil)
				skippable = f != nil
			}
			switch {
			case !okTx:
				c.Violate(rule, construct, call.Pos(), "tree reorg does not use the Reorg transaction")
			case !okArg:
				c.Violate(rule, construct, call.Pos(), "tree reorg uses a different block number than the block deletion: "+sx.Of(call.Call.Args[2]).String())
			case skippable:
				c.Violate(rule, construct, call.Pos(), "a path commits the reorg without rewinding this tree")
			default:
				c.Hold(rule, construct, "Reorg(tx, firstReorgedBlock) on every committing path")
			}
		}
	}
	// Tree.Reorg deletes the roots at or above the block
	tr := c.MustFn(rule, "tree", "Tree", "Reorg")
	if tr != nil {
		okStmt := false
		core.Instrs(tr, func(i ssa.Instruction) {
			w := sqlWriteOf(i)
			if w == nil {
				return
			}
			cc := core.AsCall(i)
			tk := sqlTokensUpper(stmtText(cc.Args[0], 0))
			argsT := sx.Of(cc.Args[len(cc.Args)-1]).String()
			if len(tk) == 7 && tableMatches(tk[2], "TREE:ROOT") && tokensEqual(append(append([]string{}, tk[:2]...), tk[3:]...), "DELETE", "FROM", "WHERE", "BLOCK_NUM", ">=", "$1") &&
				strings.Contains(argsT, "[const(0)]: firstReorgedBlock}") && stripIface(w.handle) == ssa.Value(tr.Params[1]) {
				okStmt = true
			}
		})
		c.Decide(okStmt, rule, "tree.(*Tree).Reorg#delete-roots", tr.Pos(), "`DELETE FROM <rootTable> WHERE block_num >= $1` bound to firstReorgedBlock, on the caller's tx")
	}
}

// c04Destructive: block processing must only ADD rows keyed (through the cascade) to the block being processed. A
// DELETE / UPDATE executed while processing block N changes rows that belong to earlier blocks; when block N is later
// reorged away nothing restores them, so the store no longer looks as if N had never been seen.
func c04Destructive(c *core.Ctx) {
	const rule = "C04-destructive"
	sx := core.NewSymx()
	globalInit := func(g *ssa.Global) string {
		out := ""
		if initFn := g.Pkg.Func("init"); initFn != nil {
			core.Instrs(initFn, func(i ssa.Instruction) {
				if st, ok := i.(*ssa.Store); ok && st.Addr == ssa.Value(g) {
					out = sx.Of(st.Val).String()
				}
			})
		}
		return out
	}
	for _, fn := range storeFns(c, rule, "ProcessBlock") {
		for _, s := range findTxScopes(fn) {
			if s.txVal == nil || s.returnsTx() {
				continue
			}
			ord := map[string]int{}
			cv := &coneVisitor{c: c, visited: map[string]bool{}}
			cv.onWrite = func(f *ssa.Function, w *sqlWrite, isTx bool, chain string) {
				verb := ""
				switch w.what {
				case "meddler.Insert":
					verb = "INSERT"
				case "meddler.Update", "meddler.Save":
					verb = "UPDATE"
				default:
					cc := core.AsCall(w.instr)
					args := cc.Args
					if !cc.IsInvoke() {
						args = args[1:]
					}
					q := sx.Of(args[0]).String()
					if u, ok := args[0].(*ssa.UnOp); ok {
						if g, ok := u.X.(*ssa.Global); ok {
							q = globalInit(g)
						}
					}
					for _, kw := range []string{"INSERT", "DELETE", "UPDATE", "REPLACE"} {
						if i := strings.Index(strings.ToUpper(q), kw); i >= 0 && (verb == "" || i < strings.Index(strings.ToUpper(q), verb)) {
							verb = kw
						}
					}
					if verb == "" {
						verb = "?" + q
					}
				}
				base := fmt.Sprintf("%s:%s@%s", core.ShortFn(fn), verb, core.ShortFn(f))
				ord[base]++
				construct := fmt.Sprintf("%s#%d", base, ord[base])
				if verb == "INSERT" {
					c.Hold(rule, construct, "adds rows only ("+chain+")")
				} else {
					c.Violate(rule, construct, w.instr.Pos(), "block processing executes a "+verb+" ("+chain+"): it alters rows recorded for earlier blocks, and a later reorg of this block cannot restore them")
				}
			}
			cv.visit(fn, s.isTx, fn.Name(), 0)
		}
	}
}

func c04Atomic(c *core.Ctx) {
	for _, fn := range storeFns(c, "C04-atomic", "Reorg") {
		n := ruleTxPair(c, "C04-atomic", fn)
		n += ruleTxThrough(c, "C04-atomic", fn)
		// a failed step of the rewind ends the reorg with that error (never a commit or a success report with part of the
		// rows still there); shared with C07's TX-err
		n += ruleTxErr(c, "C04-atomic", fn)
		if n == 0 {
			writes := 0
			core.Instrs(fn, func(i ssa.Instruction) {
				if sqlWriteOf(i) != nil {
					writes++
				}
			})
			c.Decide(writes == 1, "C04-atomic", core.ShortFn(fn)+"#single-statement", fn.Pos(), "single SQL statement, atomic by itself")
		}
	}
}

func c04Frontier(c *core.Ctx) {
	const rule = "C04-frontier"
	aot := c.Named("tree", "AppendOnlyTree")
	ic := c.MustFn(rule, "tree", "AppendOnlyTree", "initCache")
	if aot == nil || ic == nil {
		return
	}
	for _, field := range []string{"lastIndex", "lastLeftCache"} {
		isStore := func(i ssa.Instruction) bool {
			st, ok := i.(*ssa.Store)
			if !ok {
				return false
			}
			fa, ok := st.Addr.(*ssa.FieldAddr)
			if !ok {
				return false
			}
			s := derefNamedStruct(fa.X.Type(), aot)
			return s != nil && s.Field(fa.Field).Name() == field
		}
		f := (&core.Walk{Stop: isStore, Target: func(i ssa.Instruction) bool {
			r, ok := i.(*ssa.Return)
			return ok && len(r.Results) == 1 && isNilConst(r.Results[0])
		}}).From(core.Entry(ic), nil)
		c.Decide(f == nil, rule, "tree.(*AppendOnlyTree).initCache#rewrites-"+field, ic.Pos(), "every successful return of initCache has rewritten "+field+" from the database")
	}
	// the rebuilt values come from the last stored root
	sx := core.NewSymx()
	okSrc := false
	core.Instrs(ic, func(i ssa.Instruction) {
		st, ok := i.(*ssa.Store)
		if !ok {
			return
		}
		if strings.HasSuffix(sx.Of(st.Addr).String(), ".lastIndex") && strings.Contains(sx.Of(st.Val).String(), "getLastRootWithTx(") && strings.HasSuffix(sx.Of(st.Val).String(), "#0.Index)") {
			okSrc = true
		}
	})
	c.Decide(okSrc, rule, "tree.(*AppendOnlyTree).initCache#lastIndex-from-last-root", ic.Pos(), "lastIndex ← index of the last stored root (read through the caller's tx)")
}

func init() {
	register(&Property{
		ID:          "C04",
		Level:       "other",
		Explanation: "Decides the structural necessary conditions of 'a reorg leaves the node as if the dropped blocks had never been seen': C04-cascade — the final schema of each of the three stores is computed from the embedded migrations (files and order read from the Go AST; unlisted .sql files and unknown DDL fail) and every table other than block references block(num) ON DELETE CASCADE; tree root rows carry block_num and rht is content-addressed; C04-fk — the only sql.Open is db.NewSQLiteDB whose DSN enables foreign keys and every store handle comes from it; C04-trees — each Reorg binds `DELETE FROM block WHERE num >= $1` to firstReorgedBlock and rewinds every tree-typed field of its processor (computed from the struct type) with the same tx and argument on every committing path, and Tree.Reorg deletes root rows with block_num >= $1; C04-atomic — Reorg transaction pairing, every write through the tx, and a failed write/rewind step always ends the reorg with its error (lastgersync: single statement); C04-frontier — initCache rewrites both in-memory frontier fields from the last stored root on every successful return (with TX-mem's mismatch-rebuild obligation this forces a rebuild after leaves were removed; the index comparison itself is value-level). Observational equivalence of all queries for all histories and SQLite's cascade semantics are not decided. Added after round 7: C04-rewind (driver acknowledges only after Reorg()==nil and passes the notified block unchanged, shared with C06) and TX-err on the Reorg functions (a failed rewind step ends the reorg with its error). Added after round 9: C04-notify (shared with C06-notify), Reorg#only-deletes (C04-trees), db.(*Tx).Commit#failure-reported and #callbacks-run (TX-mem).",
		Rules: []Rule{
			{ID: "C04-tree", Floor: 9, Run: func(c *core.Ctx) { storeRule(c, "C04-tree") }, Text: "(shared with C08-store) node storage tolerates rows left by a dropped fork without skipping the rest of the branch"},
			{ID: "C04-resume", Floor: 3, Run: shared("C04-resume", c05Restart), Text: "(shared with C05-restart) after a reorg the download restarts at lastProcessed+1, whatever block the detector named"},
			{ID: "C04-cascade", Floor: 13, Run: c04Cascade, Text: "[SCHEMA] every per-block table cascades from block(num); tree tables accounted"},
			{ID: "C04-rewind", Floor: 5, Run: shared("C04-rewind", c06Rewind), Text: "(shared with C06-rewind/C06-value) the driver acknowledges a reorg only after Reorg returned nil and passes the notified block unchanged"},
			{ID: "C04-notify", Floor: 9, Run: shared("C04-notify", c06Notify), Text: "(shared with C06-notify) the detector forgets the dropped blocks only after the subscriber confirmed the rewind"},
			{ID: "C04-fk", Floor: 4, Run: c04FK, Text: "[WHO]+const: single sql.Open with _foreign_keys=on; stores use it"},
			{ID: "C04-trees", Floor: 9, Run: c04Trees, Text: "[WHO]+[PROV]+[DOM] every tree field rewound with (tx, firstReorgedBlock) before Commit; block delete bound to it"},
			{ID: "C04-destructive", Floor: 15, Run: c04Destructive, Text: "[WHO] block processing only inserts; a DELETE/UPDATE in the ProcessBlock cone is not undone by a reorg (2 known findings)"},
			{ID: "C04-atomic", Floor: 12, Run: c04Atomic, Text: "[TX] Reorg pairing, write-through, and no carried-on failure of a rewind step"},
			{ID: "C04-frontier-mem", Floor: 9, Run: c07TxMem, Text: "[TX] (shared with C07 TX-mem) frontier writes under the rollback registration; mismatch rebuilds"},
			{ID: "C04-frontier", Floor: 3, Run: c04Frontier, Text: "[DOM] initCache rewrites lastIndex and lastLeftCache on every successful return"},
		},
	})
}
