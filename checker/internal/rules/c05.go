package rules

import (
	"fmt"
	"go/token"
	"go/types"
	"regexp"
	"strings"

	"golang.org/x/tools/go/ssa"

	"verif/checker/internal/core"
)

var constRe = regexp.MustCompile(`const\([^)]*\)`)

// guardName names a program point by its nearest dominating branch condition (constants elided), so that obligation
// keys are stable under code motion and constant changes.
var counterGuardRE = regexp.MustCompile(`^\((?:[A-Za-z_][A-Za-z0-9_]*|phi\{[^}]*\}|loopvar)(>=|>|<=|<)K\)$`)

func guardName(instr ssa.Instruction) string {
	b := instr.Block()
	sx := core.NewSymx()
	for d := b.Idom(); d != nil; d = d.Idom() {
		iff, ok := d.Instrs[len(d.Instrs)-1].(*ssa.If)
		if !ok {
			b = d
			continue
		}
		side := -1
		for k, s := range d.Succs {
			if (s == b || s.Dominates(b) || s.Dominates(instr.Block())) && len(s.Preds) == 1 {
				side = k
			}
		}
		b = d
		if side < 0 {
			continue
		}
		n := sx.Of(iff.Cond).Brief()
		if strings.Contains(n, "select") {
			continue
		}
		// a counter compared with a constant: the name of the counter (parameter, loop variable) is not part of the key
		n = counterGuardRE.ReplaceAllString(n, "(v${1}K)")
		if side == 1 {
			n = "!" + n
		}
		return n
	}
	return "entry"
}

func isNilConst(v ssa.Value) bool {
	c, ok := v.(*ssa.Const)
	return ok && c.Value == nil
}

// cancelEdges: edges that witness cancellation: `case <-ctx.Done()`, the `canceled` result of GetBlockHeader,
// errors.Is(err, context.Canceled), ctx.Err() != nil.
func cancelEdges(fn *ssa.Function) []core.IfEdge {
	edges := core.CtxDoneEdges(fn)
	sx := core.NewSymx()
	core.Instrs(fn, func(i ssa.Instruction) {
		call, ok := i.(*ssa.Call)
		if !ok {
			return
		}
		switch {
		case strings.HasSuffix(core.CallName(call), ").GetBlockHeader"):
			if v := core.ExtractOf(call, 1); v != nil {
				edges = append(edges, core.BoolEdges(fn, v, true)...)
			}
		case core.CallName(call) == "errors.Is":
			if sx.Of(call.Call.Args[1]).String() == "context.Canceled" {
				edges = append(edges, core.BoolEdges(fn, call, true)...)
			}
		}
	})
	return edges
}

func c05Conflate(c *core.Ctx) {
	const rule = "C05-conflate"
	for _, name := range []string{"getEventsByBlockRangeWithRetry", "GetLogs"} {
		fn := c.MustFn(rule, "sync", "EVMDownloaderImplementation", name)
		if fn == nil {
			continue
		}
		cancel := cancelEdges(fn)
		for _, r := range core.Returns(fn) {
			if len(r.Results) != 1 {
				continue
			}
			v := r.Results[0]
			nilAlts := 0
			if isNilConst(v) {
				nilAlts = 1
			} else if phi, ok := v.(*ssa.Phi); ok {
				for _, e := range phi.Edges {
					if isNilConst(e) {
						nilAlts++
					}
				}
			}
			if nilAlts == 0 {
				continue
			}
			construct := fmt.Sprintf("sync.(*EVMDownloaderImplementation).%s#return-nil@%s", name, guardName(r))
			f := core.ReachableWithout(core.Entry(fn), cancel, func(i ssa.Instruction) bool { return i == ssa.Instruction(r) })
			if f != nil {
				c.Violate(rule, construct, r.Pos(), "returns nil (indistinguishable from \"no events in this range\") on a path that is not a cancellation: the caller advances its cursor past the range ("+core.PathStr(f)+")")
			} else {
				c.Hold(rule, construct, "nil result only under cancellation")
			}
		}
	}
}

func c05Group(c *core.Ctx) {
	const rule = "C05-group"
	fn := c.MustFn(rule, "sync", "EVMDownloaderImplementation", "getEventsByBlockRangeWithRetry")
	if fn == nil {
		return
	}
	sx := core.NewSymx()
	evmBlock := c.Named("sync", "EVMBlock")
	// the hash comparison
	var eqEdges []core.IfEdge
	var cmpPos token.Pos
	for _, b := range fn.Blocks {
		iff, ok := b.Instrs[len(b.Instrs)-1].(*ssa.If)
		if !ok {
			continue
		}
		v, pos := core.CondOf(iff.Cond)
		bo, ok := v.(*ssa.BinOp)
		if !ok || (bo.Op != token.NEQ && bo.Op != token.EQL) {
			continue
		}
		l, r := sx.Of(bo.X).String(), sx.Of(bo.Y).String()
		isHdr := func(s string) bool {
			return strings.Contains(s, ").GetBlockHeader(") && strings.HasSuffix(s, "#0.Hash") && strings.Contains(s, ".BlockNumber")
		}
		isLog := func(s string) bool { return strings.HasSuffix(s, ".BlockHash") && strings.Contains(s, "GetLogs(") }
		if !((isHdr(l) && isLog(r)) || (isHdr(r) && isLog(l))) {
			continue
		}
		equalWhenTrue := (bo.Op == token.EQL) == pos
		succ := 1
		if equalWhenTrue {
			succ = 0
		}
		eqEdges = append(eqEdges, core.IfEdge{B: b, Succ: succ, If: iff, Val: v})
		cmpPos = iff.Pos()
	}
	if len(eqEdges) == 0 {
		c.Violate(rule, "sync.getEventsByBlockRangeWithRetry#hash-crosscheck", fn.Pos(), "no comparison between the fetched header's hash (for the log's block number) and the log's block hash")
		return
	}
	c.Hold(rule, "sync.getEventsByBlockRangeWithRetry#hash-crosscheck", "header(l.BlockNumber).Hash is compared with l.BlockHash")
	_ = cmpPos
	// every creation of an EVMBlock is reachable only through the equal edge
	n := 0
	core.Instrs(fn, func(i ssa.Instruction) {
		al, ok := i.(*ssa.Alloc)
		if !ok || !al.Heap {
			return
		}
		if st := derefNamedStruct(al.Type(), evmBlock); st == nil {
			return
		}
		n++
		construct := fmt.Sprintf("sync.getEventsByBlockRangeWithRetry#new-EVMBlock-%d", n)
		f := core.ReachableWithout(core.Entry(fn), eqEdges, func(x ssa.Instruction) bool { return x == i })
		if f != nil {
			c.Violate(rule, construct, i.Pos(), "a block is created for a log without the header/log hash comparison having succeeded")
			return
		}
		// fields of the new block come from the same log
		t := sx.Of(al)
		hdr := t.Fields["EVMBlockHeader"]
		ok2 := hdr != nil && hdr.Op == "lit" &&
			strings.HasSuffix(hdr.Fields["Num"].String(), ".BlockNumber") && strings.HasSuffix(hdr.Fields["Hash"].String(), ".BlockHash") &&
			strings.HasSuffix(hdr.Fields["ParentHash"].String(), "#0.ParentHash") && strings.HasSuffix(hdr.Fields["Timestamp"].String(), "#0.Timestamp")
		c.Decide(ok2, rule, construct, i.Pos(), "block created after the cross-check; Num/Hash from the log, ParentHash/Timestamp from the header")
	})
	if n == 0 {
		c.Undecide(rule, "sync.getEventsByBlockRangeWithRetry#new-EVMBlock", fn.Pos(), "no EVMBlock creation found")
	}
	// a new block is started whenever the log's block number grows: condition latestBlock == nil || latestBlock.Num < l.BlockNumber
	// (order-preservation itself relies on eth_getLogs ordering, trusted)
	// GetLogs: removed logs and foreign topics are dropped
	gl := c.MustFn(rule, "sync", "EVMDownloaderImplementation", "GetLogs")
	if gl == nil {
		return
	}
	var appends []ssa.Instruction
	core.Instrs(gl, func(i ssa.Instruction) {
		call, ok := i.(*ssa.Call)
		if !ok {
			return
		}
		if b, ok := call.Call.Value.(*ssa.Builtin); ok && b.Name() == "append" {
			appends = append(appends, i)
		}
	})
	var keepEdges []core.IfEdge
	removedSeen, topicSeen := false, false
	for _, b := range gl.Blocks {
		iff, ok := b.Instrs[len(b.Instrs)-1].(*ssa.If)
		if !ok {
			continue
		}
		v, pos := core.CondOf(iff.Cond)
		s := sx.Of(v).String()
		switch {
		case strings.HasSuffix(s, ".Removed") && strings.Contains(s, "FilterLogs"):
			removedSeen = true
			succ := 0
			if pos {
				succ = 1
			}
			keepEdges = append(keepEdges, core.IfEdge{B: b, Succ: succ, If: iff})
		case strings.HasPrefix(s, "slices.Contains") && strings.Contains(s, "topicsToQuery") && strings.Contains(s, ".Topics["):
			topicSeen = true
		}
	}
	c.Decide(removedSeen, rule, "sync.GetLogs#removed-filter", gl.Pos(), "logs flagged Removed are tested")
	c.Decide(topicSeen, rule, "sync.GetLogs#topic-filter", gl.Pos(), "logs are filtered by the watched topics")
	for k, a := range appends {
		construct := fmt.Sprintf("sync.GetLogs#append-%d", k+1)
		if !removedSeen {
			continue
		}
		f := core.ReachableWithout(core.Entry(gl), keepEdges, func(x ssa.Instruction) bool { return x == a })
		c.Decide(f == nil, rule, construct, a.Pos(), "a log is kept only on the !Removed edge")
	}
}

// c05Append: a log whose appender failed is never skipped. On the error edge of the appender call, neither the next log of
// the response nor the end of the function is reachable without calling the appender for this log again (the retry
// handler decides when to give up — by stopping the node, not by dropping the event).
func c05Append(c *core.Ctx, rule string) {
	fn := c.MustFn(rule, "sync", "EVMDownloaderImplementation", "getEventsByBlockRangeWithRetry")
	if fn == nil {
		return
	}
	sx := core.NewSymx()
	var app *ssa.Call
	core.Instrs(fn, func(i ssa.Instruction) {
		cl, ok := i.(*ssa.Call)
		if !ok || cl.Call.IsInvoke() {
			return
		}
		if strings.Contains(sx.Of(cl.Call.Value).String(), "d.appender[") {
			app = cl
		}
	})
	construct := "sync.(*EVMDownloaderImplementation).getEventsByBlockRangeWithRetry#appender-error-retried"
	if app == nil {
		c.Undecide(rule, construct, fn.Pos(), "appender call not found")
		return
	}
	errEdges := core.NilEdgesRes(fn, app, false)
	if len(errEdges) == 0 {
		c.Violate(rule, construct, app.Pos(), "the appender's error is not tested")
		return
	}
	var bad *core.Found
	for _, e := range errEdges {
		start, env0 := core.AfterEdge(e)
		f := (&core.Walk{Stop: func(i ssa.Instruction) bool { return i == ssa.Instruction(app) }, Target: func(i ssa.Instruction) bool {
			if _, isRet := i.(*ssa.Return); isRet {
				return true
			}
			p, isPhi := i.(*ssa.Phi)
			return isPhi && p.Comment == "rangeindex"
		}}).From(start, env0)
		if f != nil {
			bad = f
		}
	}
	if bad != nil {
		c.Violate(rule, construct, bad.Instr.Pos(), "after the appender failed, the next log or the end of the function is reached without appending this log again: the event is dropped while its block counts as downloaded ("+core.PathStr(bad)+")")
	} else {
		c.Hold(rule, construct, "a failed appender is always called again for the same log")
	}
}

func c05Retry(c *core.Ctx) {
	const rule = "C05-retry"
	c05Append(c, rule)
	fn := c.MustFn(rule, "sync", "EVMDriver", "handleNewBlock")
	if fn == nil {
		return
	}
	sx := core.NewSymx()
	var procCalls []*ssa.Call
	core.Instrs(fn, func(i ssa.Instruction) {
		if core.IsCallTo(i, "(sync.processorInterface).ProcessBlock") {
			procCalls = append(procCalls, i.(*ssa.Call))
		}
	})
	if len(procCalls) != 1 {
		c.Undecide(rule, "sync.(*EVMDriver).handleNewBlock#ProcessBlock-call", fn.Pos(), fmt.Sprintf("expected exactly one ProcessBlock call, found %d", len(procCalls)))
		return
	}
	pc := procCalls[0]
	allowed := core.CtxDoneEdges(fn)
	allowed = append(allowed, core.NilEdgesRes(fn, pc, true)...)
	core.Instrs(fn, func(i ssa.Instruction) {
		if core.IsCallTo(i, "errors.Is") {
			call := i.(*ssa.Call)
			if sx.Of(call.Call.Args[1]).String() == errInconsistent && call.Call.Args[0] == ssa.Value(pc) {
				allowed = append(allowed, core.BoolEdges(fn, call, true)...)
			}
		}
	})
	n := 0
	names := map[string]int{}
	for _, r := range core.Returns(fn) {
		n++
		construct := fmt.Sprintf("sync.(*EVMDriver).handleNewBlock#return@%s", guardName(r))
		names[construct]++
		if names[construct] > 1 {
			construct += fmt.Sprintf("#%d", names[construct])
		}
		f := core.ReachableWithout(core.Entry(fn), allowed, func(i ssa.Instruction) bool { return i == ssa.Instruction(r) })
		if f != nil {
			c.Violate(rule, construct, r.Pos(), "the driver abandons the block on a path that is neither cancellation, ErrInconsistentState, nor a successful ProcessBlock: later blocks would be processed while this one is missing ("+core.PathStr(f)+")")
		} else {
			c.Hold(rule, construct, "return only after success, cancellation or ErrInconsistentState")
		}
	}
	// the block handed to the processor is the one received
	arg := sx.Of(pc.Call.Args[1])
	fromB := func(t *core.Term, f string) bool {
		return t != nil && strings.HasPrefix(t.String(), "b.") && strings.HasSuffix(t.String(), "."+f)
	}
	okMap := arg.Op == "lit" && fromB(arg.Fields["Num"], "Num") && fromB(arg.Fields["Events"], "Events") && fromB(arg.Fields["Hash"], "Hash")
	c.Decide(okMap, rule, "sync.(*EVMDriver).handleNewBlock#block-fields", pc.Pos(), "ProcessBlock receives {Num,Events,Hash} of the delivered block: "+arg.String())
}

func c05Restart(c *core.Ctx) {
	const rule = "C05-restart"
	fn := c.MustFn(rule, "sync", "EVMDriver", "Sync")
	if fn == nil {
		return
	}
	sx := core.NewSymx()
	var goDl *ssa.Go
	core.Instrs(fn, func(i ssa.Instruction) {
		if g, ok := i.(*ssa.Go); ok && core.CallName(g) == "(sync.Downloader).Download" {
			goDl = g
		}
	})
	if goDl == nil {
		c.Undecide(rule, "sync.(*EVMDriver).Sync#go-Download", fn.Pos(), "no `go downloader.Download(...)`")
		return
	}
	from := sx.Of(goDl.Call.Args[1]).String()
	want := "((sync.processorInterface).GetLastProcessedBlock("
	okFrom := strings.HasPrefix(from, want) && strings.HasSuffix(from, "#0 + const(1))")
	c.Decide(okFrom, rule, "sync.(*EVMDriver).Sync#download-from", goDl.Pos(), "download starts at GetLastProcessedBlock()+1: "+from)
	// ... of a call that returned no error
	var glpb *ssa.Call
	core.Instrs(fn, func(i ssa.Instruction) {
		if core.IsCallTo(i, "(sync.processorInterface).GetLastProcessedBlock") {
			glpb = i.(*ssa.Call)
		}
	})
	if glpb != nil {
		ev := core.ErrValueOf(glpb)
		nilE := core.NilEdgesRes(fn, ev, true)
		f := core.ReachableWithout(core.After(glpb), nilE, func(i ssa.Instruction) bool { return i == ssa.Instruction(goDl) })
		c.Decide(len(nilE) > 0 && f == nil, rule, "sync.(*EVMDriver).Sync#last-processed-ok", glpb.Pos(), "the download is started only after GetLastProcessedBlock succeeded")
	}
	// after handleReorg the loop is re-entered through reset (last processed block re-read, new download)
	found := false
	core.Instrs(fn, func(i ssa.Instruction) {
		if !core.IsCallTo(i, "(*sync.EVMDriver).handleReorg") {
			return
		}
		found = true
		f := (&core.Walk{
			Stop: func(x ssa.Instruction) bool { return x == ssa.Instruction(glpb) },
			Target: func(x ssa.Instruction) bool {
				_, isSel := x.(*ssa.Select)
				return isSel || core.IsCallTo(x, "(*sync.EVMDriver).handleNewBlock")
			},
		}).From(core.After(i), nil)
		c.Decide(f == nil, rule, "sync.(*EVMDriver).Sync#reset-after-reorg", i.Pos(), "after handleReorg no block is handled before the last processed block is re-read and a new download started")
		// the reorg value is the one received from the subscription
		call := i.(*ssa.Call)
		arg := sx.Of(call.Call.Args[3]).String()
		c.Decide(strings.HasPrefix(arg, "<-") && strings.HasSuffix(arg, ".ReorgedBlock"), "C06-value", "sync.(*EVMDriver).Sync#reorg-arg", i.Pos(), "handleReorg receives the value read from reorgSub.ReorgedBlock: "+arg)
	})
	if !found {
		c.Violate(rule, "sync.(*EVMDriver).Sync#reset-after-reorg", fn.Pos(), "Sync no longer calls handleReorg")
	}
}

// ---- [CURSOR] -----------------------------------------------------------------------------------

// cursorRule decides the cursor discipline of a Download implementation.
func cursorRule(c *core.Ctx, rule string, fn *ssa.Function, label string) {
	sx := core.NewSymx()
	var fetches []*ssa.Call
	core.Instrs(fn, func(i ssa.Instruction) {
		call, ok := i.(*ssa.Call)
		if ok && strings.HasSuffix(core.CallName(call), ").GetEventsByBlockRange") {
			fetches = append(fetches, call)
		}
	})
	if len(fetches) == 0 {
		c.Undecide(rule, label+"#fetch", fn.Pos(), "Download does not call GetEventsByBlockRange")
		return
	}
	fromParam := fn.Params[2]
	for k, fc := range fetches {
		args := fc.Call.Args
		if !fc.Call.IsInvoke() {
			args = args[1:]
		}
		lo, hi := args[1], args[2]
		construct := fmt.Sprintf("%s#fetch-%d-lower-bound", label, k+1)
		hiS := sx.Of(hi).String()
		var bad []string
		for _, alt := range cursorAlts(lo, fn) {
			s := sx.Of(alt).String()
			switch {
			case alt == ssa.Value(fromParam):
			case isPlusOne(alt) != nil:
				x := isPlusOne(alt)
				xs := sx.Of(x).String()
				okX := false
				if sameAsAnyUpper(x, fetches, sx) {
					continue
				}
				for _, xa := range flattenPhi(x) {
					xas := sx.Of(xa).String()
					switch {
					case xas == hiS || sameAsAnyUpper(xa, fetches, sx):
						okX = true
					case strings.Contains(xas, ").GetEventsByBlockRange(") && strings.HasSuffix(xas, ".Num"):
						okX = true
					case strings.Contains(xas, "GetLastFinalizedBlock("):
						okX = true
					default:
						okX = false
						bad = append(bad, "cursor advanced to ("+xas+")+1")
					}
					if !okX {
						break
					}
				}
				_ = xs
			default:
				bad = append(bad, "lower bound may be "+s)
			}
		}
		if len(bad) > 0 {
			c.Violate(rule, construct, fc.Pos(), "the lower bound of the fetch is not the loop-carried cursor (start value, or previous upper bound / last delivered block / finalized clamp + 1): "+strings.Join(bad, "; ")+" — blocks between the cursor and that value are never fetched")
		} else {
			c.Hold(rule, construct, "lower bound is the cursor: fromBlock parameter or previous bound + 1")
		}
	}
}

func sameAsAnyUpper(x ssa.Value, fetches []*ssa.Call, sx *core.Symx) bool {
	for _, fc := range fetches {
		args := fc.Call.Args
		if !fc.Call.IsInvoke() {
			args = args[1:]
		}
		if args[2] == x {
			return true
		}
	}
	return false
}

func isPlusOne(v ssa.Value) ssa.Value {
	b, ok := v.(*ssa.BinOp)
	if !ok || b.Op != token.ADD {
		return nil
	}
	if k, ok := core.ConstInt(b.Y); ok && k == 1 {
		return b.X
	}
	if k, ok := core.ConstInt(b.X); ok && k == 1 {
		return b.Y
	}
	return nil
}

func flattenPhi(v ssa.Value) []ssa.Value {
	seen := map[ssa.Value]bool{}
	var out []ssa.Value
	var rec func(v ssa.Value)
	rec = func(v ssa.Value) {
		if seen[v] {
			return
		}
		seen[v] = true
		if p, ok := v.(*ssa.Phi); ok {
			for _, e := range p.Edges {
				rec(e)
			}
			return
		}
		out = append(out, v)
	}
	rec(v)
	return out
}

// cursorAlts: the non-phi values that can flow into the lower bound.
func cursorAlts(lo ssa.Value, fn *ssa.Function) []ssa.Value { return flattenPhi(lo) }

// c05Range: the range requested from the node is the range asked for, also on retries.
func c05Range(c *core.Ctx) {
	const rule = "C05-range"
	sx := core.NewSymx()
	fn := c.MustFn(rule, "sync", "EVMDownloaderImplementation", "getEventsByBlockRangeWithRetry")
	pub := c.MustFn(rule, "sync", "EVMDownloaderImplementation", "GetEventsByBlockRange")
	gl := c.MustFn(rule, "sync", "EVMDownloaderImplementation", "GetLogs")
	if fn == nil || pub == nil || gl == nil {
		return
	}
	n := 0
	core.Instrs(fn, func(i ssa.Instruction) {
		call, ok := i.(*ssa.Call)
		if !ok {
			return
		}
		switch core.CallName(call) {
		case "(*sync.EVMDownloaderImplementation).getEventsByBlockRangeWithRetry":
			n++
			a := call.Call.Args
			ok := a[2] == ssa.Value(fn.Params[2]) && a[3] == ssa.Value(fn.Params[3]) && sx.Of(a[4]).String() == "(retryCount + const(1))"
			c.Decide(ok, rule, fmt.Sprintf("sync.getEventsByBlockRangeWithRetry#recursive-retry-%d", n), call.Pos(),
				"a retry re-requests the whole [fromBlock, toBlock] range with retryCount+1 (blocks already assembled are discarded by the return): "+sx.Of(a[2]).String()+", "+sx.Of(a[3]).String()+", "+sx.Of(a[4]).String())
		case "(*sync.EVMDownloaderImplementation).GetLogs":
			a := call.Call.Args
			c.Decide(a[2] == ssa.Value(fn.Params[2]) && a[3] == ssa.Value(fn.Params[3]), rule, "sync.getEventsByBlockRangeWithRetry#GetLogs-range", call.Pos(), "logs are fetched for exactly [fromBlock, toBlock]")
		}
	})
	for _, r := range core.Returns(pub) {
		s := sx.Of(r.Results[0]).String()
		c.Decide(s == "(*sync.EVMDownloaderImplementation).getEventsByBlockRangeWithRetry(d, ctx, fromBlock, toBlock, const(0))", rule, "sync.GetEventsByBlockRange#passthrough", r.Pos(), "public entry forwards its range, retry count 0: "+s)
	}
	// the filter query
	core.Instrs(gl, func(i ssa.Instruction) {
		if !strings.HasSuffix(core.CallName(i), ").FilterLogs") {
			return
		}
		q := sx.Of(core.AsCall(i).Args[len(core.AsCall(i).Args)-1])
		f := func(n string) string {
			if q.Fields[n] == nil {
				return "<unset>"
			}
			return q.Fields[n].String()
		}
		ok := q.Op == "lit" && strings.HasSuffix(f("FromBlock"), ", fromBlock)") && strings.HasPrefix(f("FromBlock"), "(*math/big.Int).SetUint64(") &&
			strings.HasSuffix(f("ToBlock"), ", toBlock)") && strings.HasPrefix(f("ToBlock"), "(*math/big.Int).SetUint64(") && f("Addresses") == "d.addressesToQuery"
		c.Decide(ok, rule, "sync.GetLogs#filter-query", i.Pos(), "FilterQuery{FromBlock: fromBlock, ToBlock: toBlock, Addresses: d.addressesToQuery}: "+q.String())
	})
}

// c05Marker: the empty "last downloaded block" marker must not duplicate a block that was just delivered with events.
func c05Marker(c *core.Ctx) {
	const rule = "C05-marker"
	fn := c.MustFn(rule, "sync", "EVMDownloader", "Download")
	if fn == nil {
		return
	}
	var reports, empties []*ssa.Call
	core.Instrs(fn, func(i ssa.Instruction) {
		if call, ok := i.(*ssa.Call); ok {
			switch core.CallName(call) {
			case "(*sync.EVMDownloader).reportBlocks":
				reports = append(reports, call)
			case "(*sync.EVMDownloader).reportEmptyBlock":
				empties = append(empties, call)
			}
		}
	})
	// loop header: the block holding the cursor Phi (the lower bound of the range fetch)
	var loopHead *ssa.BasicBlock
	core.Instrs(fn, func(i ssa.Instruction) {
		if call, ok := i.(*ssa.Call); ok && strings.HasSuffix(core.CallName(call), ").GetEventsByBlockRange") {
			args := call.Call.Args
			if !call.Call.IsInvoke() {
				args = args[1:]
			}
			if p, ok := args[1].(*ssa.Phi); ok {
				loopHead = p.Block()
			}
		}
	})
	n := 0
	for _, r := range reports {
		blocks := r.Call.Args[2]
		for _, e := range empties {
			sameIter := func(b *ssa.BasicBlock, s int) bool { return loopHead == nil || b.Succs[s] != loopHead }
			if (&core.Walk{EdgeOK: sameIter, Target: func(i ssa.Instruction) bool { return i == ssa.Instruction(e) }}).From(core.After(r), nil) == nil {
				continue
			}
			n++
			num := e.Call.Args[3]
			sx := core.NewSymx().Bind(blocks, "blocks").Bind(num, "N")
			var guard []core.IfEdge
			guard = append(guard, core.TermEdges(fn, sx, func(s string, _ *core.Term) bool {
				return s == "((sync.EVMBlocks).Len(blocks) == const(0))" || s == "(len(blocks) == const(0))"
			}, true)...)
			guard = append(guard, core.TermEdges(fn, sx, func(s string, _ *core.Term) bool {
				return s == "(blocks[((sync.EVMBlocks).Len(blocks) - const(1))].EVMBlockHeader.Num < N)" || s == "(blocks[(len(blocks) - const(1))].EVMBlockHeader.Num < N)"
			}, true)...)
			f := (&core.Walk{EdgeOK: func(b *ssa.BasicBlock, s int) bool { return sameIter(b, s) && core.Forbid(guard)(b, s) },
				Target: func(i ssa.Instruction) bool { return i == ssa.Instruction(e) }}).From(core.After(r), nil)
			c.Decide(f == nil, rule, fmt.Sprintf("sync.(*EVMDownloader).Download#empty-marker-after-report-%d", n), e.Pos(),
				"after delivering `blocks`, the empty marker for block N is sent only when blocks is empty or its LAST block is below N (otherwise block N would be delivered twice)")
		}
	}
	if n == 0 {
		c.Hold(rule, "sync.(*EVMDownloader).Download#no-marker-after-report", "no empty marker follows a delivery in the same iteration")
	}
}

func c05Cursor(c *core.Ctx) {
	fn := c.MustFn("C05-cursor", "sync", "EVMDownloader", "Download")
	if fn != nil {
		cursorRule(c, "C05-cursor", fn, "sync.(*EVMDownloader).Download")
	}
}

// c05LastBlock: the block a syncer resumes after is the greatest block number its store recorded.
func c05LastBlock(c *core.Ctx) {
	num := [][]string{{"NUM"}}
	checkOrdered(c, "C05-lastblock", []orderedSpec{
		{"bridgesync", "processor", "getLastProcessedBlockWithTx", "BLOCK", "DESC", nil, num, nil},
		{"l1infotreesync", "processor", "getLastProcessedBlockWithTx", "BLOCK", "DESC", nil, num, nil},
		{"lastgersync", "processor", "GetLastProcessedBlock", "BLOCK", "DESC", nil, num, nil},
	})
}

// c05Bootstrap: a fresh store is primed with a block row that marks "everything up to here is processed". That block
// must be the one BEFORE the configured first block, with the hash fetched for that very number, and only when the
// store is behind it — otherwise the events of the first block are skipped while the marker is already past them.
func c05Bootstrap(c *core.Ctx) {
	const rule = "C05-bootstrap"
	for _, w := range []struct{ pkg, fn string }{{"l1infotreesync", "New"}, {"bridgesync", "newBridgeSync"}} {
		fn := c.MustFn(rule, w.pkg, "", w.fn)
		if fn == nil {
			continue
		}
		label := w.pkg + "." + w.fn + "#marker"
		sx := core.NewSymx()
		var pb *ssa.Call
		core.Instrs(fn, func(i ssa.Instruction) {
			if cl, ok := i.(*ssa.Call); ok && strings.HasSuffix(core.CallName(i), ".processor).ProcessBlock") {
				pb = cl
			}
		})
		if pb == nil {
			c.Hold(rule, label, "the constructor does not prime the store (the first block downloaded is block 1)")
			continue
		}
		blk := sx.Of(pb.Call.Args[2])
		num, hash := "<unset>", "<unset>"
		if blk.Op == "lit" {
			if f := blk.Fields["Num"]; f != nil {
				num = f.String()
			}
			if f := blk.Fields["Hash"]; f != nil {
				hash = f.String()
			}
		}
		okNum := num == "(initialBlock - const(1))"
		okHash := strings.Contains(hash, ").BlockByNumber(") && strings.Contains(hash, "(*math/big.Int).SetUint64(alloc:math/big.Int, (initialBlock - const(1)))") && strings.Contains(hash, ".Hash(")
		// reached only when initialBlock > 0 (no wrap) and the store is behind initialBlock-1
		pos := core.TermEdges(fn, sx, func(s string, _ *core.Term) bool { return s == "(initialBlock > const(0))" }, true)
		behind := core.TermEdges(fn, sx, func(s string, _ *core.Term) bool {
			return strings.Contains(s, ").GetLastProcessedBlock(") && strings.HasSuffix(s, "#0 < (initialBlock - const(1)))")
		}, true)
		target := func(x ssa.Instruction) bool { return x == ssa.Instruction(pb) }
		okGuard := len(pos) > 0 && len(behind) > 0 &&
			core.ReachableWithout(core.Entry(fn), pos, target) == nil && core.ReachableWithout(core.Entry(fn), behind, target) == nil
		c.Decide(okNum && okHash && okGuard, rule, label, pb.Pos(), fmt.Sprintf("primed with block initialBlock-1 (Num ← %s), its own hash, only for initialBlock > 0 and lastProcessed < initialBlock-1", num))
	}
}

func init() {
	_ = types.Typ
	register(&Property{
		ID:          "C05",
		Level:       "other",
		Explanation: "Decides the structural necessary conditions of exactly-once, in-order delivery on every path of the downloader and driver code: C05-conflate — a nil result of the range fetch (which Download treats as 'no events' and moves its cursor past) is returned only under cancellation (known finding: the max-hash-mismatch-retries return); C05-group — a block is created for a log only after the header fetched for that log's number had the log's block hash, with fields from that log/header, and removed / foreign-topic logs are dropped before grouping; C05-retry — the driver leaves handleNewBlock only after a successful ProcessBlock, a cancellation or ErrInconsistentState, so an ordinary error loops back to the same block (boolean-flag loops are handled path-sensitively); C05-restart — Sync starts the download at GetLastProcessedBlock()+1 of a successful call and re-reads it after every reorg; C05-cursor — the lower bound of every range fetch in EVMDownloader.Download is the loop-carried cursor (start parameter, or previous upper bound / last delivered block / finalized clamp + 1), never a freshly observed tip. The range arithmetic (chunk size × finality × tip movement covering every block exactly once) is value-level and is not decided. Added after the sub-agent rounds: C05-lastblock (the resume point is the greatest recorded block), C05-bootstrap (a fresh store is primed with the block before the configured first block, with that block's hash, only when behind it), C05-watch (each downloader is built with the literal list of its contract addresses and the log filter carries it). Added after round 7: C05-claim-once (shared with C20-error), C05-gercursor (shared with C16-cursor), C05-feed (block position from the log index, shared with C11-feed), and a failed appender is always retried for the same log. Added after round 8: C05-stop (shared with C07-stop).",
		Rules: []Rule{
			{ID: "C05-claim-once", Floor: 6, Run: shared("C05-claim-once", c20Error), Text: "(shared with C20-error) a claim is appended to the block only after its fallible calldata lookup succeeded (a retried appender would otherwise deliver it twice)"},
			{ID: "C05-gercursor", Floor: 1, Run: shared("C05-gercursor", c16Cursor), Text: "(shared with C16-cursor) the last-GER downloader advances its cursor to the end of the chunk it fetched"},
			{ID: "C05-feed", Floor: 40, Run: shared("C05-feed", c11Feed), Text: "(shared with C11-feed) every stored event takes its block position from the log index"},
			{ID: "C05-stop", Floor: 2, Run: shared("C05-stop", c07Stop), Text: "(shared with C07-stop/C14-stop) a halted processor accepts no block, with or without events: the last-processed marker never passes a block whose events were not stored"},
			{ID: "C05-conflate", Floor: 4, Run: c05Conflate, Text: "[DOM] nil result of the fetch only on cancellation edges"},
			{ID: "C05-group", Floor: 5, Run: c05Group, Text: "[DOM]+[PROV] EVMBlock creation dominated by header.Hash == log.BlockHash; Removed/topic filters"},
			{ID: "C05-retry", Floor: 2, Run: c05Retry, Text: "[DOM]+flag threading: handleNewBlock returns only after success / cancel / ErrInconsistentState"},
			{ID: "C05-lastblock", Floor: 3, Run: c05LastBlock, Text: "SQL: the resume point of each store is the greatest recorded block number"},
			{ID: "C05-watch", Floor: 6, Run: func(c *core.Ctx) { watchListRule(c, "C05-watch", nil) }, Text: "[PROV] each downloader is built with the literal list of its contract address(es); the log filter carries it"},
			{ID: "C05-bootstrap", Floor: 2, Run: c05Bootstrap, Text: "[PROV]+[DOM] a fresh store is primed with the block before the configured first block"},
			{ID: "C05-restart", Floor: 3, Run: c05Restart, Text: "[PROV]+[DOM] Download(from = lastProcessed+1); reset after reorg"},
			{ID: "C05-cursor", Floor: 1, Run: c05Cursor, Text: "[CURSOR] lower bound of each fetch is the loop-carried cursor"},
			{ID: "C05-range", Floor: 3, Run: c05Range, Text: "[PROV] the requested range is the range asked for, also on hash-mismatch retries; filter query fields"},
			{ID: "C05-marker", Floor: 1, Run: c05Marker, Text: "[DOM]+[PROV] empty marker after a delivery only when the delivery's last block is below the marker block"},
		},
	})
}

// watchListRule: a downloader is built with the literal list of the contract address(es) it is meant to watch — a nil or
// wider list delivers same-signature events of foreign contracts — and the log query carries that list.
func watchListRule(c *core.Ctx, rule string, only map[string]bool) {
	sx := core.NewSymx()
	want := map[string][]string{
		"bridgesync.newBridgeSync":    {"bridge"},
		"l1infotreesync.New":          {"globalExitRoot", "rollupManager"},
		"lastgersync.newDownloaderPP": {"l2GERAddr"},
	}
	n := 0
	for _, cs := range c.AllCallsTo("sync.NewEVMDownloader", "sync.NewEVMDownloaderImplementation") {
		name := core.ShortFn(cs.Fn)
		if strings.HasPrefix(name, "sync.") {
			continue // NewEVMDownloader forwarding to the implementation
		}
		if only != nil && !only[name] {
			continue
		}
		n++
		args := core.AsCall(cs.Instr).Args
		idx := 6
		if core.CallName(cs.Instr) == "sync.NewEVMDownloaderImplementation" {
			idx = 5
		}
		t := sx.Of(args[idx])
		var got []string
		t.Walk(func(x *core.Term) {
			if x.Op == "lit" && len(got) == 0 {
				for k := 0; k < len(x.Fields); k++ {
					if f := x.Fields[fmt.Sprintf("[const(%d)]", k)]; f != nil {
						got = append(got, f.String())
					}
				}
			}
		})
		if name == "lastgersync.newDownloaderFEP" {
			// this downloader reads the contract's map, not logs: no appender and no address list
			c.Decide(isNilConst(args[idx]) && isNilConst(args[idx-1]), rule, "watch-list@"+name, cs.Instr.Pos(), "the FEP downloader does not consume logs (nil appender, nil address list)")
			continue
		}
		w, known := want[name]
		c.Decide(known && fmt.Sprint(got) == fmt.Sprint(w), rule, "watch-list@"+name, cs.Instr.Pos(), fmt.Sprintf("the downloader watches exactly %v (got %v)", w, got))
	}
	if n == 0 {
		c.Undecide(rule, "watch-list", 0, "no downloader construction site found")
	}
	// the forwarding constructor and the log query use the list they were given
	if fn := c.MustFn(rule, "sync", "", "NewEVMDownloader"); fn != nil && only == nil {
		ok := false
		core.Instrs(fn, func(i ssa.Instruction) {
			if core.IsCallTo(i, "sync.NewEVMDownloaderImplementation") {
				ok = sx.Of(core.AsCall(i).Args[5]).String() == "addressesToQuery"
			}
		})
		c.Decide(ok, rule, "sync.NewEVMDownloader#forwards-list", fn.Pos(), "the address list is handed to the implementation unchanged")
	}
	if fn := c.MustFn(rule, "sync", "EVMDownloaderImplementation", "GetLogs"); fn != nil && only == nil {
		ok := false
		core.Instrs(fn, func(i ssa.Instruction) {
			if cc := core.AsCall(i); cc != nil && cc.IsInvoke() && cc.Method.Name() == "FilterLogs" {
				q := sx.Of(cc.Args[1])
				ok = q.Op == "lit" && q.Fields["Addresses"] != nil && q.Fields["Addresses"].String() == "d.addressesToQuery"
			}
		})
		c.Decide(ok, rule, "sync.(*EVMDownloaderImplementation).GetLogs#query-addresses", fn.Pos(), "the log filter is restricted to the configured addresses")
	}
}
