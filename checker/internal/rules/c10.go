package rules

import (
	"fmt"
	"go/types"
	"reflect"
	"sort"
	"strings"

	"golang.org/x/tools/go/ssa"

	"verif/checker/internal/core"
)

// fieldsRead returns the names of the fields of `named` read in fn (directly; callees are not followed).
func fieldsRead(fn *ssa.Function, named *types.Named) map[string]bool {
	out := map[string]bool{}
	core.Instrs(fn, func(i ssa.Instruction) {
		switch x := i.(type) {
		case *ssa.FieldAddr:
			if st := derefNamedStruct(x.X.Type(), named); st != nil {
				out[st.Field(x.Field).Name()] = true
			}
		case *ssa.Field:
			if st := derefNamedStruct(x.X.Type(), named); st != nil {
				out[st.Field(x.Field).Name()] = true
			}
		}
	})
	return out
}

func keysOf(m map[string]bool) []string {
	var out []string
	for k := range m {
		out = append(out, k)
	}
	sort.Strings(out)
	return out
}

func jsonKeys(st *types.Struct) map[string]string {
	out := map[string]string{} // key -> field name
	for i := 0; i < st.NumFields(); i++ {
		tag := reflect.StructTag(st.Tag(i)).Get("json")
		name := strings.Split(tag, ",")[0]
		if name == "-" {
			continue
		}
		if name == "" {
			name = st.Field(i).Name()
		}
		out[name] = st.Field(i).Name()
	}
	return out
}

func c10Sign(c *core.Ctx) {
	const rule = "C10-sign"
	for _, f := range []struct{ recv, hash, signerField string }{
		{"PPFlow", "PPHashToSign", "signer"}, {"AggchainProverFlow", "FEPHashToSign", "certificateSigner"},
	} {
		fn := c.MustFn(rule, "aggsender/flows", f.recv, "signCertificate")
		if fn == nil {
			continue
		}
		certP := fn.Params[2]
		sx := core.NewSymx().Bind(certP, "CERT")
		var sign *ssa.Call
		core.Instrs(fn, func(i ssa.Instruction) {
			if call, ok := i.(*ssa.Call); ok && call.Call.IsInvoke() && call.Call.Method.Name() == "SignHash" {
				sign = call
			}
		})
		label := "flows.(*" + f.recv + ").signCertificate"
		if sign == nil {
			c.Violate(rule, label+"#sign", fn.Pos(), "the certificate is not signed through the signer's SignHash")
			continue
		}
		recvS := sx.Of(sign.Call.Value).String()
		h := sx.Of(sign.Call.Args[1]).String()
		okH := h == "(*agglayer/types.Certificate)."+f.hash+"(CERT)" && strings.HasSuffix(recvS, "."+f.signerField)
		c.Decide(okH, rule, label+"#signed-value", sign.Pos(), "signature = "+recvS+".SignHash(ctx, cert."+f.hash+"()) of the certificate being returned: "+h)
		// the signature stored is that call's result, on the same certificate object
		sig := core.ExtractOf(sign, 0)
		stored := false
		core.Instrs(fn, func(i ssa.Instruction) {
			st, ok := i.(*ssa.Store)
			if !ok {
				return
			}
			a := sx.Of(st.Addr).String()
			v := sx.Of(st.Val)
			if a == "CERT.AggchainData" {
				if v.Op == "lit" && v.Fields["Signature"] != nil && sameModuloNil(v.Fields["Signature"].Val, sig) {
					stored = true
				}
			}
			if strings.HasPrefix(a, "CERT.AggchainData") && strings.HasSuffix(a, ".Signature") && sameModuloNil(st.Val, sig) {
				stored = true
			}
		})
		c.Decide(stored, rule, label+"#stored", sign.Pos(), "the stored signature is the result of that SignHash call, in the same certificate's aggchain data")
		// every successful return has been through this SignHash call and the store of its result: no path (a cache,
		// a shortcut for "already signed") hands back a certificate whose signature was not computed over its current content
		isOKRet := func(i ssa.Instruction) bool {
			r, ok := i.(*ssa.Return)
			return ok && len(r.Results) == 2 && isNilConst(r.Results[1])
		}
		skip := (&core.Walk{Stop: func(i ssa.Instruction) bool { return i == ssa.Instruction(sign) }, Target: isOKRet}).From(core.Entry(fn), nil)
		sigWrites := 0
		core.Instrs(fn, func(i ssa.Instruction) {
			if st, ok := i.(*ssa.Store); ok {
				a := sx.Of(st.Addr).String()
				if strings.HasPrefix(a, "CERT.AggchainData") {
					sigWrites++
				}
			}
		})
		c.Decide(skip == nil && sigWrites == 1, rule, label+"#signed-on-every-path", sign.Pos(), fmt.Sprintf("no successful return bypasses SignHash (%s); the aggchain data is written once, with that call's result (%d writes)", core.PathStr(skip), sigWrites))
		// commitment fields are not modified after the hash was taken (stores through CERT after the hash call)
		var hashCall ssa.Instruction
		core.Instrs(fn, func(i ssa.Instruction) {
			if core.IsCallTo(i, "(*agglayer/types.Certificate)."+f.hash) {
				hashCall = i
			}
		})
		covered := map[string]bool{"NewLocalExitRoot": true, "ImportedBridgeExits": true, "Height": true, "NetworkID": true, "PrevLocalExitRoot": true, "BridgeExits": true, "Metadata": true, "L1InfoTreeLeafCount": true, "CustomChainData": true}
		late := ""
		if hashCall != nil {
			core.Instrs(fn, func(i ssa.Instruction) {
				st, ok := i.(*ssa.Store)
				if !ok {
					return
				}
				a := sx.Of(st.Addr)
				if a.Op == "field" && len(a.Args) == 1 && a.Args[0].String() == "CERT" && covered[a.Name] {
					if (&core.Walk{Target: func(x ssa.Instruction) bool { return x == i }}).From(core.After(hashCall), nil) != nil {
						late = a.Name
					}
				}
				// aggchain params (covered by the FEP commitment) must not change after hashing either
				if strings.HasSuffix(a.String(), ".AggchainParams") {
					late = "AggchainData.AggchainParams"
				}
			})
		}
		c.Decide(hashCall != nil && late == "", rule, label+"#no-late-mutation", fn.Pos(), "no covered field is written after the commitment was computed"+map[bool]string{true: "", false: " (written: " + late + ")"}[late == ""])
		// returned certificate is the signed one
		okRet := true
		for _, r := range core.Returns(fn) {
			if len(r.Results) == 2 && isNilConst(r.Results[1]) && r.Results[0] != ssa.Value(certP) {
				okRet = false
			}
		}
		c.Decide(okRet, rule, label+"#returns-same", fn.Pos(), "the certificate returned is the one that was hashed and signed")
	}
	// BuildCertificate of both flows returns the signed certificate built by the base flow
	for _, recv := range []string{"PPFlow", "AggchainProverFlow"} {
		fn := c.MustFn(rule, "aggsender/flows", recv, "BuildCertificate")
		if fn == nil {
			continue
		}
		sx := core.NewSymx()
		ok := false
		for _, r := range core.Returns(fn) {
			if len(r.Results) == 2 && isNilConst(r.Results[1]) {
				s := sx.Of(r.Results[0]).String()
				ok = strings.HasPrefix(s, "(*aggsender/flows."+recv+").signCertificate(") && strings.Contains(s, ").BuildCertificate(") && strings.HasSuffix(s, "#0")
			}
		}
		c.Decide(ok, rule, "flows.(*"+recv+").BuildCertificate#returns-signed", fn.Pos(), "the flow returns signCertificate(baseFlow.BuildCertificate(...))")
	}
	// sendCertificate: the certificate is not modified between build, send and store
	sc := c.MustFn(rule, "aggsender", "AggSender", "sendCertificate")
	if sc != nil {
		cert := c.Named("agglayer/types", "Certificate")
		writes := []string{}
		core.Instrs(sc, func(i ssa.Instruction) {
			st, ok := i.(*ssa.Store)
			if !ok {
				return
			}
			if fa, ok := st.Addr.(*ssa.FieldAddr); ok {
				if s := derefNamedStruct(fa.X.Type(), cert); s != nil {
					writes = append(writes, s.Field(fa.Field).Name())
				}
			}
		})
		c.Decide(len(writes) == 0, rule, "aggsender.(*AggSender).sendCertificate#no-mutation", sc.Pos(), fmt.Sprintf("the signed certificate is sent and stored as built (writes: %v)", writes))
		sx := core.NewSymx()
		built := "(aggsender/types.AggsenderFlow).BuildCertificate(a.flow, ctx, (aggsender/types.AggsenderFlow).GetCertificateBuildParams(a.flow, ctx)#0)#0"
		okSend, okJSON := false, false
		core.Instrs(sc, func(i ssa.Instruction) {
			if core.IsCallTo(i, agglayerSendIf) {
				okSend = sx.Of(core.AsCall(i).Args[1]).String() == built
			}
			if core.IsCallTo(i, "encoding/json.Marshal") {
				okJSON = sx.Of(core.AsCall(i).Args[0]).String() == built
			}
		})
		c.Decide(okSend && okJSON, rule, "aggsender.(*AggSender).sendCertificate#same-object", sc.Pos(), "the object sent to the Agglayer and the object serialised into the local record are the certificate returned by BuildCertificate")
	}
	// the signer fields are written by the constructors only
	for _, f := range [][2]string{{"PPFlow", "signer"}, {"AggchainProverFlow", "certificateSigner"}} {
		n := c.Named("aggsender/flows", f[0])
		if n == nil {
			continue
		}
		bad := []string{}
		for _, fs := range fieldStoresOf(c, n) {
			if fs.field == f[1] {
				bad = append(bad, core.ShortFn(fs.fn))
			}
		}
		c.Decide(len(bad) == 0, rule, "flows."+f[0]+"."+f[1]+"#constructor-only", 0, fmt.Sprintf("the configured signer is set at construction only (other writers: %v)", bad))
	}
}

func c10Cover(c *core.Ctx) {
	const rule = "C10-cover"
	cert := c.Named("agglayer/types", "Certificate")
	if cert == nil {
		c.Undecide(rule, "anchor agglayer/types.Certificate", 0, "type does not resolve")
		return
	}
	covered := map[string]bool{}
	for _, h := range []string{"Hash", "PPHashToSign", "FEPHashToSign"} {
		fn := c.MustFn(rule, "agglayer/types", "Certificate", h)
		if fn == nil {
			continue
		}
		for k := range fieldsRead(fn, cert) {
			covered[k] = true
		}
	}
	send := c.MustFn(rule, "agglayer/grpc", "AgglayerGRPCClient", "SendCertificate")
	if send == nil {
		return
	}
	wire := fieldsRead(send, cert)
	st := cert.Underlying().(*types.Struct)
	jk := jsonKeys(st)
	inJSON := map[string]bool{}
	for _, f := range jk {
		inJSON[f] = true
	}
	// UnmarshalJSON assigns every field
	um := c.MustFn(rule, "agglayer/types", "Certificate", "UnmarshalJSON")
	assigned := map[string]bool{}
	if um != nil {
		core.Instrs(um, func(i ssa.Instruction) {
			if s, ok := i.(*ssa.Store); ok {
				if fa, ok := s.Addr.(*ssa.FieldAddr); ok {
					if s2 := derefNamedStruct(fa.X.Type(), cert); s2 != nil {
						assigned[s2.Field(fa.Field).Name()] = true
					}
				}
			}
		})
	}
	for _, f := range keysOf(covered) {
		c.Decide(wire[f] && inJSON[f] && assigned[f], rule, "agglayer/types.Certificate."+f, 0,
			fmt.Sprintf("field %s enters a commitment/identity hash; forwarded on the wire=%v, has a JSON key=%v, restored by UnmarshalJSON=%v", f, wire[f], inJSON[f], assigned[f]))
	}
	if len(covered) < 5 {
		c.Undecide(rule, "agglayer/types.Certificate#covered-set", 0, fmt.Sprintf("suspiciously small covered set: %v", keysOf(covered)))
	}
}

// flattenLit flattens nested struct literals into path -> term string.
func flattenLit(t *core.Term, prefix string, out map[string]string) {
	if t == nil {
		return
	}
	if t.Op == "lit" {
		for k, v := range t.Fields {
			p := k
			if prefix != "" {
				p = prefix + "." + k
			}
			flattenLit(v, p, out)
		}
		return
	}
	out[prefix] = t.String()
}

func c10Wire(c *core.Ctx) {
	const rule = "C10-wire"
	sx := core.NewSymx()
	hb := "(github.com/ethereum/go-ethereum/common.Hash).Bytes("
	ab := "(github.com/ethereum/go-ethereum/common.Address).Bytes("
	check := func(label string, lit *core.Term, want map[string]string, pos ssa.Instruction) {
		got := map[string]string{}
		flattenLit(lit, "", got)
		keys := make([]string, 0, len(want))
		for k := range want {
			keys = append(keys, k)
		}
		sort.Strings(keys)
		for _, k := range keys {
			g, ok := got[k]
			if !ok {
				g = "<unset>"
			}
			g = strings.ReplaceAll(g, "ibe.ClaimData#0.", "ibe.ClaimData.")
			c.Decide(g == want[k], rule, label+"."+k, pos.Pos(), "proto "+k+" ← "+g)
		}
	}
	send := c.MustFn(rule, "agglayer/grpc", "AgglayerGRPCClient", "SendCertificate")
	if send != nil {
		var pc *ssa.Alloc
		core.Instrs(send, func(i ssa.Instruction) {
			if al, ok := i.(*ssa.Alloc); ok && al.Heap && strings.HasSuffix(al.Type().String(), "types/v1.Certificate") {
				pc = al
			}
		})
		if pc == nil {
			c.Undecide(rule, "grpc.SendCertificate#proto", send.Pos(), "proto certificate literal not found")
		} else {
			check("grpc.SendCertificate", sx.Of(pc), map[string]string{
				"NetworkId": "certificate.NetworkID", "Height": "certificate.Height", "L1InfoTreeLeafCount": "certificate.L1InfoTreeLeafCount",
				"PrevLocalExitRoot.Value": hb + "certificate.PrevLocalExitRoot)", "NewLocalExitRoot.Value": hb + "certificate.NewLocalExitRoot)",
				"Metadata.Value": hb + "certificate.Metadata)", "CustomChainData": "certificate.CustomChainData",
				"AggchainData": "agglayer/grpc.convertAggchainData(certificate.AggchainData)#0",
			}, pc)
			// the exits are converted element by element, in order, and the request carries this proto certificate
			okBE, okIBE, okReq := false, false, false
			core.Instrs(send, func(i ssa.Instruction) {
				switch core.CallName(i) {
				case "agglayer/grpc.convertToProtoBridgeExit":
					okBE = sx.Of(core.AsCall(i).Args[0]).String() == "certificate.BridgeExits"+rangeElemIdx
				case "agglayer/grpc.convertToProtoImportedBridgeExit":
					okIBE = sx.Of(core.AsCall(i).Args[0]).String() == "certificate.ImportedBridgeExits"+rangeElemIdx
				}
				if cc := core.AsCall(i); cc != nil && cc.IsInvoke() && cc.Method.Name() == "SubmitCertificate" {
					req := sx.Of(cc.Args[1])
					okReq = false
					if req.Op == "lit" && req.Fields["Certificate"] != nil {
						// the value may have travelled through a merge with nil placeholders of error paths
						okReq = true
						n := 0
						for _, lf := range phiLeaves(req.Fields["Certificate"].Val) {
							if isNilConst(lf.val) {
								continue
							}
							n++
							okReq = okReq && lf.val == ssa.Value(pc)
						}
						okReq = okReq && n >= 1
					}
				}
			})
			c.Decide(okBE && okIBE, rule, "grpc.SendCertificate#exits", send.Pos(), "every bridge exit / imported bridge exit is converted, in order")
			c.Decide(okReq, rule, "grpc.SendCertificate#request", send.Pos(), "the request submitted carries the proto certificate built here")
		}
	}
	be := c.MustFn(rule, "agglayer/grpc", "", "convertToProtoBridgeExit")
	if be != nil {
		for _, al := range allocsOfType(be, "types/v1.BridgeExit") {
			check("grpc.convertToProtoBridgeExit", sx.Of(al), map[string]string{
				"LeafType": "agglayer/grpc.leafTypeToProto(be.LeafType)", "DestNetwork": "be.DestinationNetwork", "DestAddress.Value": ab + "be.DestinationAddress)",
				"TokenInfo.OriginNetwork": "be.TokenInfo.OriginNetwork", "TokenInfo.OriginTokenAddress.Value": ab + "be.TokenInfo.OriginTokenAddress)",
				"Amount.Value":   hb + "github.com/ethereum/go-ethereum/common.BigToHash(be.Amount))",
				"Metadata.Value": hb + "github.com/ethereum/go-ethereum/common.BytesToHash(be.Metadata))",
			}, al)
		}
	}
	ibe := c.MustFn(rule, "agglayer/grpc", "", "convertToProtoImportedBridgeExit")
	if ibe != nil {
		leaf := func(p string) map[string]string {
			return map[string]string{
				p + "L1Leaf.L1InfoTreeIndex": "ibe.ClaimData.L1Leaf.L1InfoTreeIndex", p + "L1Leaf.Rer.Value": hb + "ibe.ClaimData.L1Leaf.RollupExitRoot)", p + "L1Leaf.Mer.Value": hb + "ibe.ClaimData.L1Leaf.MainnetExitRoot)",
				p + "L1Leaf.Inner.GlobalExitRoot.Value": hb + "ibe.ClaimData.L1Leaf.Inner.GlobalExitRoot)", p + "L1Leaf.Inner.BlockHash.Value": hb + "ibe.ClaimData.L1Leaf.Inner.BlockHash)", p + "L1Leaf.Inner.Timestamp": "ibe.ClaimData.L1Leaf.Inner.Timestamp",
				p + "ProofGerL1Root.Root.Value": hb + "ibe.ClaimData.ProofGERToL1Root.Root)", p + "ProofGerL1Root.Siblings": "agglayer/grpc.convertToProtoSiblings(ibe.ClaimData.ProofGERToL1Root.Proof)",
			}
		}
		for _, al := range allocsOfType(ibe, "types/v1.ClaimFromMainnet") {
			w := leaf("")
			w["ProofLeafMer.Root.Value"] = hb + "ibe.ClaimData.ProofLeafMER.Root)"
			w["ProofLeafMer.Siblings"] = "agglayer/grpc.convertToProtoSiblings(ibe.ClaimData.ProofLeafMER.Proof)"
			check("grpc.convertToProtoImportedBridgeExit#mainnet", sx.Of(al), w, al)
		}
		for _, al := range allocsOfType(ibe, "types/v1.ClaimFromRollup") {
			w := leaf("")
			w["ProofLeafLer.Root.Value"] = hb + "ibe.ClaimData.ProofLeafLER.Root)"
			w["ProofLeafLer.Siblings"] = "agglayer/grpc.convertToProtoSiblings(ibe.ClaimData.ProofLeafLER.Proof)"
			w["ProofLerRer.Root.Value"] = hb + "ibe.ClaimData.ProofLERToRER.Root)"
			w["ProofLerRer.Siblings"] = "agglayer/grpc.convertToProtoSiblings(ibe.ClaimData.ProofLERToRER.Proof)"
			check("grpc.convertToProtoImportedBridgeExit#rollup", sx.Of(al), w, al)
		}
		for _, al := range allocsOfType(ibe, "types/v1.ImportedBridgeExit") {
			lit := sx.Of(al)
			okBE := lit.Fields["BridgeExit"] != nil && lit.Fields["BridgeExit"].String() == "agglayer/grpc.convertToProtoBridgeExit(ibe.BridgeExit)"
			c.Decide(okBE, rule, "grpc.convertToProtoImportedBridgeExit#BridgeExit", al.Pos(), "proto BridgeExit ← convertToProtoBridgeExit(ibe.BridgeExit)")
			// the global index on the wire is the same 256-bit integer that the commitments hash (sibling agreement:
			// GlobalIndex.Hash, GlobalIndexToLittleEndianBytes and the wire all go through bridgesync.GenerateGlobalIndex)
			check("grpc.convertToProtoImportedBridgeExit", lit, map[string]string{
				"GlobalIndex.Value": hb + "github.com/ethereum/go-ethereum/common.BigToHash(bridgesync.GenerateGlobalIndex(ibe.GlobalIndex.MainnetFlag, ibe.GlobalIndex.RollupIndex, ibe.GlobalIndex.LeafIndex)))",
			}, al)
		}
	}
	sib := c.MustFn(rule, "agglayer/grpc", "", "convertToProtoSiblings")
	if sib != nil {
		ok := false
		core.Instrs(sib, func(i ssa.Instruction) {
			if st, isS := i.(*ssa.Store); isS {
				a, v := sx.Of(st.Addr).String(), sx.Of(st.Val)
				if strings.Contains(a, "["+"(loop{const(-1)} + const(1))"+"]") && v.Op == "lit" && v.Fields["Value"] != nil && v.Fields["Value"].String() == hb+"siblings"+rangeElemIdx+")" {
					ok = true
				}
			}
		})
		c.Decide(ok, rule, "grpc.convertToProtoSiblings#positional", sib.Pos(), "sibling i of the proof becomes sibling i of the proto")
	}
	lt := c.MustFn(rule, "agglayer/grpc", "", "leafTypeToProto")
	if lt != nil {
		consts := constsOfType(c.Pkg("agglayer/types").Types.Scope(), c.Named("agglayer/types", "LeafType"))
		okLT := true
		for _, rc := range core.ReturnCases(lt) {
			v := sx.Of(rc.Values[0]).String()
			asset := core.TermEdges(lt, sx, func(s string, _ *core.Term) bool { return s == "(leafType == const("+consts["LeafTypeAsset"]+"))" }, true)
			msg := core.TermEdges(lt, sx, func(s string, _ *core.Term) bool { return s == "(leafType == const("+consts["LeafTypeMessage"]+"))" }, true)
			switch v {
			case "const(1)": // LEAF_TYPE_TRANSFER
				okLT = okLT && rc.ReachableOnlyVia(lt, asset)
			case "const(2)": // LEAF_TYPE_MESSAGE
				okLT = okLT && rc.ReachableOnlyVia(lt, msg)
			}
		}
		c.Decide(okLT, rule, "grpc.leafTypeToProto", lt.Pos(), "asset ↦ TRANSFER, message ↦ MESSAGE")
	}
}

// tagOf returns the json key of field `name` in struct st ("" when absent).
func tagOf(st *types.Struct, name string) (string, types.Type) {
	for i := 0; i < st.NumFields(); i++ {
		if st.Field(i).Name() == name {
			tag := strings.Split(reflect.StructTag(st.Tag(i)).Get("json"), ",")[0]
			if tag == "" {
				tag = name
			}
			return tag, st.Field(i).Type()
		}
	}
	return "", nil
}

func structOf(t types.Type) *types.Struct {
	for k := 0; k < 3; k++ {
		if pt, ok := t.Underlying().(*types.Pointer); ok {
			t = pt.Elem()
		}
	}
	s, _ := t.Underlying().(*types.Struct)
	return s
}

// receiverField: the field of the receiver a value term is derived from (first receiver-rooted field found).
func receiverField(t *core.Term, recv string) string {
	out := ""
	t.Walk(func(x *core.Term) {
		if out == "" && x.Op == "field" && len(x.Args) == 1 && x.Args[0].Op == "param" && x.Args[0].Name == recv {
			out = x.Name
		}
	})
	return out
}

// marshalPaths walks the literal handed to json.Marshal: key path -> receiver field.
func marshalPaths(lit *core.Term, st *types.Struct, recv, prefix string, out map[string]string) {
	if lit == nil || lit.Op != "lit" {
		return
	}
	for fname, v := range lit.Fields {
		key, ft := fname, types.Type(nil)
		if st != nil {
			key, ft = tagOf(st, fname)
			if key == "" {
				continue
			}
		} else if uq := strings.Trim(fname, "\""); uq != fname {
			key = uq // map literal: the field name is the quoted constant key
		}
		p := key
		if prefix != "" {
			p = prefix + "." + key
		}
		if v.Op == "lit" && receiverFieldDirect(v, recv) == "" {
			var nst *types.Struct
			if ft != nil {
				nst = structOf(ft)
			}
			marshalPaths(v, nst, recv, p, out)
			continue
		}
		out[p] = receiverField(v, recv)
	}
}

func receiverFieldDirect(t *core.Term, recv string) string {
	if t.Op == "field" && len(t.Args) == 1 && t.Args[0].Op == "param" && t.Args[0].Name == recv {
		return t.Name
	}
	return ""
}

// unmarshalPath converts the chain of selections on the decoded aux value into a key path.
func unmarshalPath(t *core.Term, aux *types.Struct) string {
	// collect the selection chain from the leaf up to the aux literal
	var chain []*core.Term
	cur := t
	for cur != nil {
		switch cur.Op {
		case "field", "lookup", "index":
			chain = append([]*core.Term{cur}, chain...)
			cur = cur.Args[0]
			continue
		case "call":
			// conversions such as common.Hex2Bytes(aux.X), aux.Sel.GetObject(): follow the first argument that selects from aux
			var next *core.Term
			for _, a := range cur.Args {
				if strings.Contains(a.String(), "{") || a.Op == "field" {
					next = a
					break
				}
			}
			cur = next
			continue
		case "deref", "extract":
			cur = cur.Args[0]
			continue
		}
		break
	}
	st := aux
	path := ""
	for _, sel := range chain {
		switch sel.Op {
		case "field":
			if st == nil {
				return path
			}
			tag, ft := tagOf(st, sel.Name)
			if tag == "" {
				return path
			}
			if path != "" {
				path += "."
			}
			path += tag
			st = structOf(ft)
		case "lookup", "index":
			k := strings.Trim(strings.TrimSuffix(strings.TrimPrefix(sel.Args[1].String(), "const("), ")"), "\"")
			path += "." + k
			st = nil
		}
	}
	return path
}

func c10JSON(c *core.Ctx) {
	const rule = "C10-json"
	if c.Pkg("agglayer/types") == nil {
		return
	}
	sx := core.NewSymx()
	typesWith := []string{"AggchainDataSignature", "AggchainDataProof", "Certificate", "BridgeExit", "MerkleProof", "ClaimFromMainnnet", "ClaimFromRollup", "ImportedBridgeExit"}
	for _, tn := range typesWith {
		named := c.Named("agglayer/types", tn)
		if named == nil {
			c.Undecide(rule, "anchor agglayer/types."+tn, 0, "type does not resolve")
			continue
		}
		st := named.Underlying().(*types.Struct)
		mf := c.Fn("agglayer/types", tn, "MarshalJSON")
		uf := c.Fn("agglayer/types", tn, "UnmarshalJSON")
		// field -> key path on each side; default codec: the struct's own tags
		mKey, uKey := map[string]string{}, map[string]string{}
		for i := 0; i < st.NumFields(); i++ {
			tag, _ := tagOf(st, st.Field(i).Name())
			if strings.Split(reflect.StructTag(st.Tag(i)).Get("json"), ",")[0] == "-" {
				continue
			}
			mKey[st.Field(i).Name()], uKey[st.Field(i).Name()] = tag, tag
		}
		if mf != nil && mf.Blocks != nil {
			mKey = map[string]string{}
			found := false
			core.Instrs(mf, func(i ssa.Instruction) {
				if !core.IsCallTo(i, "encoding/json.Marshal") {
					return
				}
				found = true
				v := stripIface(core.AsCall(i).Args[0])
				paths := map[string]string{}
				marshalPaths(sx.Of(v), structOf(v.Type()), core.ParamName(mf, 0), "", paths)
				for p, f := range paths {
					if f != "" {
						mKey[f] = p
					} else {
						mKey["?"+p] = p
					}
				}
			})
			if !found {
				c.Undecide(rule, "agglayer/types."+tn+"#marshal-shape", mf.Pos(), "MarshalJSON does not call json.Marshal on a literal")
				continue
			}
		}
		if uf != nil && uf.Blocks != nil {
			uKey = map[string]string{}
			var aux *types.Struct
			core.Instrs(uf, func(i ssa.Instruction) {
				if core.IsCallTo(i, "encoding/json.Unmarshal") {
					aux = structOf(stripIface(core.AsCall(i).Args[1]).Type())
				}
			})
			if aux == nil {
				c.Undecide(rule, "agglayer/types."+tn+"#unmarshal-shape", uf.Pos(), "UnmarshalJSON does not decode into a struct value")
				continue
			}
			core.Instrs(uf, func(i ssa.Instruction) {
				if s, ok := i.(*ssa.Store); ok {
					if fa, ok := s.Addr.(*ssa.FieldAddr); ok {
						if s2 := derefNamedStruct(fa.X.Type(), named); s2 != nil {
							if _, isRecv := fa.X.(*ssa.Parameter); !isRecv {
								if u, ok := fa.X.(*ssa.UnOp); !ok || u.X == nil {
									return
								}
							}
							for _, alt := range sx.Of(s.Val).Alts() {
								if p := unmarshalPath(alt, aux); p != "" {
									uKey[s2.Field(fa.Field).Name()] = p
								}
							}
						}
					}
				}
			})
		}
		for i := 0; i < st.NumFields(); i++ {
			f := st.Field(i).Name()
			if strings.Split(reflect.StructTag(st.Tag(i)).Get("json"), ",")[0] == "-" {
				continue
			}
			m, okM := mKey[f]
			u, okU := uKey[f]
			c.Decide(okM && okU && m == u, rule, "agglayer/types."+tn+"#"+f, 0, fmt.Sprintf("field %s is written under key %q (found=%v) and restored from key %q (found=%v)", f, m, okM, u, okU))
		}
		for k, p := range mKey {
			if strings.HasPrefix(k, "?") {
				c.Violate(rule, "agglayer/types."+tn+"#orphan-key:"+p, 0, "MarshalJSON writes key "+p+" from something that is not a field of the receiver")
			}
		}
	}
}

func keysOfS(m map[string]string) []string {
	var out []string
	for k := range m {
		out = append(out, k)
	}
	sort.Strings(out)
	return out
}

func c10HashFields(c *core.Ctx) {
	const rule = "C10-hashfields"
	// fields deliberately outside a hash, with the reason
	except := map[string]string{
		"Certificate.Metadata":            "not part of the Agglayer's certificate id",
		"Certificate.CustomChainData":     "not part of the Agglayer's certificate id",
		"Certificate.AggchainData":        "carries the signature itself",
		"Certificate.L1InfoTreeLeafCount": "not part of the Agglayer's certificate id",
		"L1InfoTreeLeaf.L1InfoTreeIndex":  "Agglayer's leaf hash covers Inner only",
		"L1InfoTreeLeaf.RollupExitRoot":   "Agglayer's leaf hash covers Inner only (GER = keccak(mer, rer) is inside Inner)",
		"L1InfoTreeLeaf.MainnetExitRoot":  "Agglayer's leaf hash covers Inner only",
	}
	for _, tn := range []string{"Certificate", "BridgeExit", "GlobalIndex", "MerkleProof", "L1InfoTreeLeafInner", "L1InfoTreeLeaf", "ClaimFromMainnnet", "ClaimFromRollup", "ImportedBridgeExit"} {
		named := c.Named("agglayer/types", tn)
		fn := c.MustFn(rule, "agglayer/types", tn, "Hash")
		if named == nil || fn == nil {
			continue
		}
		st := named.Underlying().(*types.Struct)
		read := fieldsRead(fn, named)
		var missing []string
		for i := 0; i < st.NumFields(); i++ {
			f := st.Field(i).Name()
			if !read[f] {
				if _, ok := except[tn+"."+f]; !ok {
					missing = append(missing, f)
				}
			}
		}
		c.Decide(len(missing) == 0, rule, "agglayer/types.(*"+tn+").Hash#covers", fn.Pos(), fmt.Sprintf("Hash reads every field of %s except the documented ones (missing: %v)", tn, missing))
	}
}

func init() {
	register(&Property{
		ID:          "C10",
		Level:       "other",
		Explanation: "Decides the structural necessary conditions of 'the signature commits to exactly what is sent and stored': C10-sign — in both flows the signature stored in the certificate is the result of the configured signer's SignHash over cert.PPHashToSign() / cert.FEPHashToSign() of that same certificate object, no covered field is written after the commitment was computed, no successful return of signCertificate bypasses the SignHash call and the aggchain data is written exactly once (no signature cache or shortcut), the signed object is what the flow returns, sendCertificate neither modifies it nor substitutes another object between build, send and JSON serialisation, and the signer fields are written by the constructors only; C10-commit — the byte layout of Certificate.Hash / PPHashToSign / FEPHashToSign ([LAYOUT]) and the construction of their per-exit lists ([LIST]): one element per entry of the exit slice, for the whole range, in order, with the expected element layout, each element in storage of its own (a hoisted, re-sliced buffer makes every chunk alias the last one); GlobalIndex.Hash, GlobalIndexToLittleEndianBytes and the wire encode the same integer bridgesync.GenerateGlobalIndex(flag, rollup, leaf); C10-cover — the set of Certificate fields read by the commitment and identity hashes is computed, and each of them is forwarded by the gRPC conversion, has a JSON key and is restored by UnmarshalJSON; C10-wire — every proto field of the certificate, bridge exit, both claim kinds and their proofs/leaves takes the same-named source field (rename table Rer/Mer/DestNetwork/…; both claim kinds agree on the shared fields), exits converted element-wise in order, siblings positional, leaf type mapping; C10-json — for each type with a hand-written codec the key set written equals the key set read, UnmarshalJSON assigns every field from the decoded field of the same name and MarshalJSON fills every key from it; C10-hashfields — each Hash() of the nested types reads every field of its struct except an explicit, reasoned table. Not decided: collision-freeness beyond 'the field is read into the hash input'. Added after the sub-agent rounds: C10-selector (the tagged-union decoders choose the variant by the presence of a key only that variant's encoder writes), C10-wire#fields-set-on-every-path (a protobuf field is left unset only when the very source it forwards is nil/empty), C10-alias. Added after round 7: C10-record (stored header from the sent certificate on every path, shared with C02-store), C10-cut (shared with C17-filter), and in C10-alias: a mutating big.Int method only on a big.Int the function created, a slice of an array declared outside a loop and refilled in it is never stored. Added after round 9: C10-replace (shared with C13-replace).",
		Rules: []Rule{
			{ID: "C10-cut", Floor: 13, Run: shared("C10-cut", c17Filter), Text: "(shared with C17-filter) a range cut copies every other build parameter (retry count included: the stored copy of a resized retry must be storable)"},
			{ID: "C10-record", Floor: 9, Run: shared("C10-record", c02Store), Text: "(shared with C02-store) the stored header takes height, exit roots and id from the certificate that was sent (the previous LER from that object on every path)"},
			{ID: "C10-replace", Floor: 20, Run: shared("C10-replace", c13Replace), Text: "(shared with C13-replace) the stored copy is replaced by the certificate that was sent: the old row at that height goes first, inside one transaction"},
			{ID: "C10-sign", Floor: 16, Run: c10Sign, Text: "[PROV]+[DOM]+[WHO] sign-after-build over the commitment of the same object; no late mutation; same object sent and stored"},
			{ID: "C10-commit", Floor: 20, Run: c10Commit, Text: "[LAYOUT]+[LIST] byte layout of Hash / PPHashToSign / FEPHashToSign; per-exit lists: one element per exit, whole range, in order, own storage"},
			{ID: "C10-alias", Floor: 40, Run: c10Alias, Text: "[LIST] repository-wide: no []byte list element shares a loop-carried buffer"},
			{ID: "C10-cover", Floor: 5, Run: c10Cover, Text: "computed commitment read set ⊆ wire ∩ JSON"},
			{ID: "C10-wire", Floor: 40, Run: func(c *core.Ctx) { c10Wire(c); c10WireUnconditional(c) }, Text: "[FIELDMAP] proto conversion field by field"},
			{ID: "C10-selector", Floor: 4, Run: c10Selector, Text: "tagged-union decoders choose the variant by key presence, with a key only that variant's encoder writes"},
			{ID: "C10-json", Floor: 35, Run: c10JSON, Text: "codec key sets and per-field assignment"},
			{ID: "C10-hashfields", Floor: 9, Run: c10HashFields, Text: "every Hash() covers its struct's fields except the reasoned table"},
		},
	})
}

// c10Commit: the byte layout of the three certificate commitments, including how the per-exit lists are built:
// one element per exit, in order, for the whole range, each in storage of its own.
func c10Commit(c *core.Ctx) {
	commitRule(c, "C10-commit", nil)
	endianHelpersRule(c, "C10-commit")
}

// endianHelpersRule: the layouts above name the integer helpers of package common by what they are supposed to produce;
// this checks their bodies against that.
func endianHelpersRule(c *core.Ctx, rule string) {
	for _, h := range [][2]string{{"Uint32ToBytes", "BE32"}, {"Uint64ToBigEndianBytes", "BE64"}, {"Uint64ToLittleEndianBytes", "LE64"}} {
		fn := c.MustFn(rule, "common", "", h[0])
		if fn == nil {
			continue
		}
		got := ""
		for _, r := range core.Returns(fn) {
			got = core.NewLayout().Of(r.Results[0])
		}
		want := h[1] + "(" + core.NewSymx().Of(fn.Params[0]).String() + ")"
		c.Decide(got == want, rule, "common."+h[0]+"#layout", fn.Pos(), "helper body = "+got)
	}
}

func commitRule(c *core.Ctx, rule string, only map[string]bool) {
	idx := "[(loop{const(-1)} + const(1))]"
	ibes := "c.ImportedBridgeExits"
	type listWant struct{ over, elem string }
	// the integer form of the global index is the same in both commitments (and on the wire, see C10-wire)
	for _, g := range []struct{ recv, fn, want string }{
		{"GlobalIndex", "Hash", "K(BYTES(common.BigIntToLittleEndianBytes(bridgesync.GenerateGlobalIndex(g.MainnetFlag, g.RollupIndex, g.LeafIndex))))"},
		{"ImportedBridgeExit", "GlobalIndexToLittleEndianBytes", "BYTES(common.BigIntToLittleEndianBytes(bridgesync.GenerateGlobalIndex(c.GlobalIndex.MainnetFlag, c.GlobalIndex.RollupIndex, c.GlobalIndex.LeafIndex)))"},
	} {
		fn := c.MustFn(rule, "agglayer/types", g.recv, g.fn)
		if fn == nil {
			continue
		}
		var ret ssa.Value
		for _, r := range core.Returns(fn) {
			ret = r.Results[0]
		}
		got := core.NewLayout().Of(ret)
		c.Decide(got == g.want, rule, "agglayer/types.(*"+g.recv+")."+g.fn+"#global-index", fn.Pos(), "= "+got)
	}
	for _, w := range []struct {
		fn     string
		layout string
		lists  []listWant
	}{
		{"PPHashToSign", "K(RAW32(c.NewLocalExitRoot)|K(LIST))", []listWant{
			{ibes, "RAW32((*agglayer/types.GlobalIndex).Hash(" + ibes + idx + ".GlobalIndex))"}}},
		{"FEPHashToSign", "K(RAW32(c.NewLocalExitRoot)|K(LIST)|LE64(c.Height)|PHI{GLOBAL(agglayer/types.emptyBytesHash)|RAW32(c.AggchainData#0.AggchainParams)})", []listWant{
			{ibes, "BYTES((*agglayer/types.ImportedBridgeExit).GlobalIndexToLittleEndianBytes(" + ibes + idx + "))|RAW32((*agglayer/types.BridgeExit).Hash(" + ibes + idx + ".BridgeExit))"}}},
		{"Hash", "K(BE32(c.NetworkID)|BE64(c.Height)|RAW32(c.PrevLocalExitRoot)|RAW32(c.NewLocalExitRoot)|K(LIST)|K(LIST))", []listWant{
			{"c.BridgeExits", "RAW32((*agglayer/types.BridgeExit).Hash(c.BridgeExits" + idx + "))"},
			{ibes, "RAW32((*agglayer/types.ImportedBridgeExit).Hash(" + ibes + idx + "))"}}},
	} {
		if only != nil && !only[w.fn] {
			continue
		}
		fn := c.MustFn(rule, "agglayer/types", "Certificate", w.fn)
		if fn == nil {
			continue
		}
		label := "agglayer/types.(*Certificate)." + w.fn
		sx := core.NewSymx()
		var ret ssa.Value
		for _, r := range core.Returns(fn) {
			ret = r.Results[0]
		}
		got := core.NewLayout().Of(ret)
		c.Decide(got == w.layout, rule, label+"#layout", fn.Pos(), "commitment = "+got)
		// the lists, in the order in which they are hashed
		var lists []ssa.Value
		core.Instrs(fn, func(i ssa.Instruction) {
			if core.IsCallTo(i, "github.com/ethereum/go-ethereum/crypto.Keccak256", "github.com/ethereum/go-ethereum/crypto.Keccak256Hash") {
				a := core.AsCall(i).Args[0]
				switch a.(type) {
				case *ssa.MakeSlice, *ssa.Phi:
					lists = append(lists, a)
				}
			}
		})
		if len(lists) != len(w.lists) {
			c.Violate(rule, label+"#lists", fn.Pos(), fmt.Sprintf("expected %d per-exit lists, found %d", len(w.lists), len(lists)))
			continue
		}
		for k, lv := range lists {
			lw := w.lists[k]
			lb := core.AnalyseList(lv)
			ll := fmt.Sprintf("%s#list-%s", label, strings.TrimPrefix(lw.over, "c."))
			if len(lb.Problems) > 0 || len(lb.Elems) != 1 {
				c.Violate(rule, ll, fn.Pos(), fmt.Sprintf("list construction not of the one-element-per-exit form: %v (%d element writes)", lb.Problems, len(lb.Elems)))
				continue
			}
			e := lb.Elems[0]
			okSize := false
			if lb.Append {
				n, isC := core.ConstInt(lb.Make.Len)
				okSize = isC && n == 0
			} else {
				okSize = sx.Of(lb.Make.Len).String() == "len("+lw.over+")" && e.Idx != nil && "["+sx.Of(e.Idx).String()+"]" == idx
			}
			full, why := core.FullRange(e.At, sx, lw.over)
			c.Decide(okSize && full, rule, ll+"#one-per-exit", e.At.Pos(), "the list has exactly one element per entry of "+lw.over+", in order, for the whole range "+why)
			g := core.NewLayout().Of(e.Val)
			c.Decide(g == lw.elem, rule, ll+"#element", e.At.Pos(), "element i = "+g)
			c.Decide(e.Fresh, rule, ll+"#own-storage", e.At.Pos(), "each element lives in storage of its own ("+e.Why+")")
		}
	}
}

// c10Alias: repository-wide: a []byte stored as an element of a list inside a loop must not share its backing array with
// the elements stored by other iterations (otherwise every element ends up holding the last iteration's bytes and
// the hash / message built from the list no longer depends on the earlier entries).
// bigIntMutators: methods of *big.Int that write their receiver.
var bigIntMutators = map[string]bool{"Add": true, "Sub": true, "Mul": true, "Div": true, "Mod": true, "Quo": true, "Rem": true, "Set": true, "SetBytes": true,
	"SetUint64": true, "SetInt64": true, "SetString": true, "SetBit": true, "SetBits": true, "Lsh": true, "Rsh": true, "Neg": true, "Abs": true, "Exp": true,
	"And": true, "Or": true, "Xor": true, "Not": true, "AndNot": true, "DivMod": true, "QuoRem": true, "GCD": true, "ModInverse": true, "Sqrt": true, "Rand": true}

// c10BigInts: amounts and global indexes are *big.Int — shared, mutable objects. A mutating method is only ever called on a
// big.Int the function created itself (new(big.Int), big.NewInt, or the result of another mutating call on such a value);
// `total := exits[0].Amount; total.Add(total, x)` would silently change the certificate between signing, sending and storing.
func c10BigInts(c *core.Ctx) {
	const rule = "C10-alias"
	for _, fn := range c.AllFuncs() {
		k := 0
		core.Instrs(fn, func(i ssa.Instruction) {
			cl, ok := i.(*ssa.Call)
			if !ok || cl.Call.IsInvoke() {
				return
			}
			name := core.CallName(cl)
			if !strings.HasPrefix(name, "(*math/big.Int).") || !bigIntMutators[strings.TrimPrefix(name, "(*math/big.Int).")] {
				return
			}
			k++
			visiting := map[*ssa.Call]bool{}
			var fresh func(v ssa.Value, d int) bool
			fresh = func(v ssa.Value, d int) bool {
				if d > 8 {
					return false
				}
				for _, lf := range phiLeaves(v) {
					switch x := lf.val.(type) {
					case *ssa.Alloc:
					case *ssa.Const:
						// nil: the call would panic
					case *ssa.Call:
						n := core.CallName(x)
						switch {
						case n == "math/big.NewInt":
						case strings.HasPrefix(n, "(*math/big.Int).") && bigIntMutators[strings.TrimPrefix(n, "(*math/big.Int).")]:
							if visiting[x] {
								continue // `acc = acc.Add(acc, x)` in a loop: decided by the other operands of the cycle
							}
							visiting[x] = true
							if !fresh(x.Call.Args[0], d+1) {
								return false
							}
						default:
							return false
						}
					case *ssa.Extract:
						// (z, ok) := new(big.Int).SetString(…)
						if inner, isCall := x.Tuple.(*ssa.Call); isCall && core.CallName(inner) == "(*math/big.Int).SetString" && fresh(inner.Call.Args[0], d+1) {
							continue
						}
						return false
					default:
						return false
					}
				}
				return true
			}
			c.Decide(fresh(cl.Call.Args[0], 0), rule, fmt.Sprintf("%s#bigint-%s-%d", core.ShortFn(fn), strings.TrimPrefix(name, "(*math/big.Int)."), k), cl.Pos(),
				"the big.Int written by this call was created by this function (not reached through a field, parameter or element)")
		})
	}
}

// c10HoistedArrays: a slice of a fixed-size array that lives outside a loop, re-filled and re-sliced in every iteration
// and then *stored* (into a message field, a list element, a struct), makes every stored slice alias the one array: all
// entries end up with the bytes of the last iteration. Handing such a slice to a call (Write, copy, Keccak) is fine.
func c10HoistedArrays(c *core.Ctx) {
	const rule = "C10-alias"
	for _, fn := range c.AllFuncs() {
		k := 0
		core.Instrs(fn, func(i ssa.Instruction) {
			sl, ok := i.(*ssa.Slice)
			if !ok {
				return
			}
			arr, ok := sl.X.(*ssa.Alloc)
			if !ok {
				return
			}
			if _, isArr := arr.Type().Underlying().(*types.Pointer).Elem().Underlying().(*types.Array); !isArr {
				return
			}
			loop := core.LoopOf(sl)
			if loop == nil || loop[arr.Block()] {
				return
			}
			// written inside the loop?
			written := false
			for _, r := range *arr.Referrers() {
				switch x := r.(type) {
				case *ssa.Store:
					if x.Addr == ssa.Value(arr) && loop[x.Block()] {
						written = true
					}
				case *ssa.IndexAddr:
					for _, r2 := range *x.Referrers() {
						if st, isSt := r2.(*ssa.Store); isSt && st.Addr == ssa.Value(x) && loop[st.Block()] {
							written = true
						}
					}
				}
			}
			if !written {
				return
			}
			stored := false
			for _, r := range *sl.Referrers() {
				if st, isSt := r.(*ssa.Store); isSt && st.Val == ssa.Value(sl) {
					stored = true
				}
			}
			k++
			c.Decide(!stored, rule, fmt.Sprintf("%s#hoisted-array-%d", core.ShortFn(fn), k), sl.Pos(),
				"a slice of an array that is declared outside the loop and refilled in it is not stored (every stored slice would alias the last iteration's bytes)")
		})
	}
}

func c10Alias(c *core.Ctx) {
	const rule = "C10-alias"
	c10BigInts(c)
	c10HoistedArrays(c)
	n := 0
	for _, fn := range c.AllFuncs() {
		for k, e := range core.SliceElemWrites(fn) {
			n++
			ok := e.Fresh
			why := e.Why
			if !ok {
				// values that do not own a buffer are fine: parameters, fields, results of loads (no reuse across iterations)
				switch v := e.Val.(type) {
				case *ssa.Parameter, *ssa.FieldAddr, *ssa.Field, *ssa.Extract, *ssa.Lookup, *ssa.Index:
					ok, why = true, "not a buffer built in the loop"
				case *ssa.UnOp:
					ok, why = true, "loaded value"
				case *ssa.Slice:
					// x[a:b] of a value that itself is not loop carried and is not written in the loop: a view per iteration
					if _, isPhi := v.X.(*ssa.Phi); !isPhi {
						if _, isAlloc := v.X.(*ssa.Alloc); !isAlloc {
							if _, isCall := v.X.(*ssa.Call); !isCall {
								ok, why = true, "view of an existing value"
							}
						}
					}
				}
			}
			c.Decide(ok, rule, fmt.Sprintf("%s#elem-%d", core.ShortFn(fn), k), e.At.Pos(), "list element in storage of its own: "+why)
		}
	}
	if n == 0 {
		c.Undecide(rule, "repository#list-element-writes", 0, "no list-element writes found: the scan is broken")
	}
}

// topLevelJSONKeys: the json keys of the anonymous struct a MarshalJSON method serialises.
func topLevelJSONKeys(fn *ssa.Function) map[string]bool {
	out := map[string]bool{}
	core.Instrs(fn, func(i ssa.Instruction) {
		al, ok := i.(*ssa.Alloc)
		if !ok {
			return
		}
		st := structOf(al.Type())
		if st == nil {
			return
		}
		if _, named := deref(al.Type()).(*types.Named); named {
			return
		}
		for k := 0; k < st.NumFields(); k++ {
			tag := reflectTag(st.Tag(k), "json")
			if tag != "" && tag != "-" {
				out[strings.Split(tag, ",")[0]] = true
			}
		}
	})
	return out
}

func deref(t types.Type) types.Type {
	if p, ok := t.Underlying().(*types.Pointer); ok {
		return p.Elem()
	}
	return t
}

func reflectTag(tag, key string) string {
	for tag != "" {
		i := 0
		for i < len(tag) && tag[i] == ' ' {
			i++
		}
		tag = tag[i:]
		i = 0
		for i < len(tag) && tag[i] > ' ' && tag[i] != ':' && tag[i] != '"' {
			i++
		}
		if i == 0 || i+1 >= len(tag) || tag[i] != ':' || tag[i+1] != '"' {
			break
		}
		name := tag[:i]
		tag = tag[i+1:]
		i = 1
		for i < len(tag) && tag[i] != '"' {
			if tag[i] == '\\' {
				i++
			}
			i++
		}
		if i >= len(tag) {
			break
		}
		val := tag[1:i]
		tag = tag[i+1:]
		if name == key {
			return val
		}
	}
	return ""
}

// c10Selector: the two tagged-union decoders pick the variant by the PRESENCE of a key that only that variant's
// encoder writes — never by a value — so that what was stored is read back as the same variant whatever its content.
func c10Selector(c *core.Ctx) {
	const rule = "C10-selector"
	for _, w := range []struct {
		sel      string
		variants [][2]string // type, discriminating key
	}{
		{"AggchainDataSelector", [][2]string{{"AggchainDataProof", "proof"}, {"AggchainDataSignature", "signature"}}},
		{"ClaimSelector", [][2]string{{"ClaimFromMainnnet", "Mainnet"}, {"ClaimFromRollup", "Rollup"}}},
	} {
		fn := c.MustFn(rule, "agglayer/types", w.sel, "UnmarshalJSON")
		if fn == nil {
			continue
		}
		keys := map[string]map[string]bool{}
		for _, v := range w.variants {
			if m := c.MustFn(rule, "agglayer/types", v[0], "MarshalJSON"); m != nil {
				keys[v[0]] = topLevelJSONKeys(m)
			}
		}
		// presence edges: the comma-ok result of a lookup with a constant key in the decoded map
		present := func(key string, want bool) []core.IfEdge {
			return core.IfEdgesWhere(fn, func(v ssa.Value) bool {
				ex, ok := v.(*ssa.Extract)
				if !ok || ex.Index != 1 {
					return false
				}
				lk, ok := ex.Tuple.(*ssa.Lookup)
				if !ok || !lk.CommaOk {
					return false
				}
				k, ok := core.ConstString(lk.Index)
				return ok && k == key
			}, want)
		}
		var earlier []core.IfEdge // "none of the earlier keys is present"
		for idx, v := range w.variants {
			label := fmt.Sprintf("agglayer/types.(*%s).UnmarshalJSON#%s", w.sel, v[0])
			on := present(v[1], true)
			// the key is written by this variant's encoder, and — for every variant tested BEFORE it — not by a later one
			okKeys := keys[v[0]][v[1]]
			for j := idx + 1; j < len(w.variants); j++ {
				if keys[w.variants[j][0]][v[1]] {
					okKeys = false // a later variant also writes this key: testing it first would capture that variant
				}
			}
			var allocs []ssa.Instruction
			core.Instrs(fn, func(i ssa.Instruction) {
				if al, ok := i.(*ssa.Alloc); ok && al.Heap {
					if n, isN := deref(al.Type()).(*types.Named); isN && n.Obj().Name() == v[0] {
						allocs = append(allocs, al)
					}
				}
			})
			ok := okKeys && len(on) > 0 && len(allocs) == 1
			if ok {
				target := func(x ssa.Instruction) bool { return x == allocs[0] }
				ok = core.ReachableWithout(core.Entry(fn), on, target) == nil
				for _, e := range earlier {
					_ = e
				}
				if len(earlier) > 0 {
					ok = ok && core.ReachableWithout(core.Entry(fn), earlier, target) == nil
				}
				// and presence is sufficient: from the presence edge nothing but this variant is built
				for _, e := range on {
					start, env := core.AfterEdge(e)
					if f := (&core.Walk{Stop: target, Target: func(x ssa.Instruction) bool {
						if _, isRet := x.(*ssa.Return); isRet {
							return true
						}
						al, isAl := x.(*ssa.Alloc)
						return isAl && al.Heap && ssa.Instruction(al) != allocs[0] && structOf(al.Type()) != nil
					}}).From(start, env); f != nil {
						ok = false
					}
				}
			}
			c.Decide(ok, rule, label, fn.Pos(), fmt.Sprintf("variant %s is chosen exactly when key %q is present (a key its encoder always writes: %v), not by any value", v[0], v[1], keys[v[0]][v[1]]))
			earlier = present(v[1], false)
		}
	}
}

// c10WireUnconditional: every field of a protobuf message built by the conversion is set before the message is handed
// on, on every path: a field filled only under a condition on the certificate's content (e.g. "height > 0") leaves a
// covered field out of the wire message for the inputs that fail the condition.
func c10WireUnconditional(c *core.Ctx) {
	const rule = "C10-wire"
	for _, name := range []string{"(*AgglayerGRPCClient).SendCertificate", "convertToProtoBridgeExit", "convertToProtoImportedBridgeExit", "convertAggchainData"} {
		recv, fnName := "", name
		if strings.HasPrefix(name, "(*") {
			recv, fnName = "AgglayerGRPCClient", "SendCertificate"
		}
		fn := c.MustFn(rule, "agglayer/grpc", recv, fnName)
		if fn == nil {
			continue
		}
		var bad []string
		n := 0
		core.Instrs(fn, func(i ssa.Instruction) {
			al, ok := i.(*ssa.Alloc)
			if !ok || !al.Heap || structOf(al.Type()) == nil {
				return
			}
			nt, isN := deref(al.Type()).(*types.Named)
			if !isN || nt.Obj().Pkg() == nil || !strings.Contains(nt.Obj().Pkg().Path(), "protocolbuffers") {
				return
			}
			var uses []ssa.Instruction
			var stores []*ssa.Store
			for _, r := range *al.Referrers() {
				switch x := r.(type) {
				case *ssa.FieldAddr:
					for _, r2 := range *x.Referrers() {
						if st, isSt := r2.(*ssa.Store); isSt && st.Addr == ssa.Value(x) {
							stores = append(stores, st)
						}
					}
				case *ssa.DebugRef:
				default:
					uses = append(uses, r)
				}
			}
			byField := map[string][]*ssa.Store{}
			for _, st := range stores {
				n++
				f := fieldNameOf(st.Addr.(*ssa.FieldAddr))
				byField[f] = append(byField[f], st)
			}
			sx := core.NewSymx()
			for f, sts := range byField {
				isStore := func(x ssa.Instruction) bool {
					for _, st := range sts {
						if x == ssa.Instruction(st) {
							return true
						}
					}
					return false
				}
				for _, u := range uses {
					u := u
					target := func(x ssa.Instruction) bool { return x == u }
					if (&core.Walk{Stop: isStore, Target: target}).From(core.After(al), nil) == nil {
						continue // every path to the use sets the field
					}
					// accepted: the field is left unset only when the very source it forwards is absent (nil / empty)
					var absent []core.IfEdge
					for _, st := range sts {
						val := sx.Of(st.Val).String()
						absent = append(absent, core.TermEdges(fn, sx, func(s string, _ *core.Term) bool {
							for _, pre := range []string{"(", "(len("} {
								if strings.HasPrefix(s, pre) {
									x := strings.TrimPrefix(s, pre)
									var src string
									switch {
									case pre == "(" && strings.HasSuffix(x, " != const(nil))"):
										src = strings.TrimSuffix(x, " != const(nil))")
									case pre == "(len(" && strings.HasSuffix(x, ") > const(0))"):
										src = strings.TrimSuffix(x, ") > const(0))")
									}
									if src != "" && strings.Contains(val, src) {
										return true
									}
								}
							}
							return false
						}, false)...)
					}
					if len(absent) == 0 || (&core.Walk{Stop: isStore, EdgeOK: core.Forbid(absent), Target: target}).From(core.After(al), nil) != nil {
						bad = append(bad, nt.Obj().Name()+"."+f)
					}
				}
			}
		})
		sort.Strings(bad)
		c.Decide(len(bad) == 0 && n > 0, rule, "grpc."+fnName+"#fields-set-on-every-path", fn.Pos(), fmt.Sprintf("%d field stores into protobuf messages, all before the message is used, on every path (conditional: %v)", n, bad))
	}
}

// sameModuloNil: v is want, possibly merged with nil placeholders that travel with an error.
func sameModuloNil(v, want ssa.Value) bool {
	if v == want {
		return true
	}
	n := 0
	for _, lf := range phiLeaves(v) {
		if isNilConst(lf.val) {
			continue
		}
		n++
		if lf.val != want {
			return false
		}
	}
	return n >= 1
}
