package rules

import (
	"fmt"
	"go/token"
	"go/types"
	"sort"
	"strings"

	"golang.org/x/tools/go/ssa"

	"verif/checker/internal/core"
)

// syncer describes one of the two halting syncers.
type syncer struct {
	pkg    string // repo-relative package
	facade string // exported façade type
}

var haltingSyncers = []syncer{{"bridgesync", "BridgeSync"}, {"l1infotreesync", "L1InfoTreeSync"}}

const errInconsistent = "sync.ErrInconsistentState"

// procInfo is the computed description of a package's `processor` store type.
type procInfo struct {
	c          *core.Ctx
	pkg        string
	named      *types.Named
	st         *types.Struct
	dataFields map[*types.Var]bool // fields giving access to stored data (SQL handle, trees)
	halted     *types.Var
	touches    map[*ssa.Function]bool
	// guardedEntry: exported methods of the façade (each decided by its own C14-guard obligation)
	guardedEntry map[*ssa.Function]bool
}

func isDataFieldType(t types.Type) bool {
	if p, ok := t.(*types.Pointer); ok {
		t = p.Elem()
	}
	n, ok := t.(*types.Named)
	if !ok || n.Obj().Pkg() == nil {
		return false
	}
	pp := n.Obj().Pkg().Path()
	return pp == "database/sql" || pp == core.P("tree") || pp == core.P("db") || pp == core.P("db/types")
}

func newProcInfo(c *core.Ctx, pkg string) *procInfo {
	n := c.Named(pkg, "processor")
	if n == nil {
		return nil
	}
	st, ok := n.Underlying().(*types.Struct)
	if !ok {
		return nil
	}
	pi := &procInfo{c: c, pkg: pkg, named: n, st: st, dataFields: map[*types.Var]bool{}, touches: map[*ssa.Function]bool{}}
	for i := 0; i < st.NumFields(); i++ {
		f := st.Field(i)
		if isDataFieldType(f.Type()) {
			pi.dataFields[f] = true
		}
		if f.Name() == "halted" {
			pi.halted = f
		}
	}
	// direct touches
	direct := map[*ssa.Function]bool{}
	var pkgFuncs []*ssa.Function
	for _, fn := range c.AllFuncs() {
		if fn.Pkg == nil || fn.Pkg.Pkg.Path() != core.P(pkg) {
			continue
		}
		pkgFuncs = append(pkgFuncs, fn)
		core.Instrs(fn, func(i ssa.Instruction) {
			if pi.isDirectAccess(i) {
				direct[fn] = true
			}
		})
	}
	// transitive closure over static callees and closures
	for fn := range direct {
		pi.touches[fn] = true
	}
	for changed := true; changed; {
		changed = false
		for _, fn := range pkgFuncs {
			if pi.touches[fn] {
				continue
			}
			t := false
			core.Instrs(fn, func(i ssa.Instruction) {
				if cc := core.AsCall(i); cc != nil {
					if callee := cc.StaticCallee(); callee != nil && pi.touches[callee] {
						t = true
					}
				}
				if mc, ok := i.(*ssa.MakeClosure); ok {
					if pi.touches[mc.Fn.(*ssa.Function)] {
						t = true
					}
				}
			})
			if t {
				pi.touches[fn] = true
				changed = true
			}
		}
	}
	return pi
}

func (pi *procInfo) fieldOf(i ssa.Instruction) *types.Var {
	switch x := i.(type) {
	case *ssa.FieldAddr:
		if st := derefNamedStruct(x.X.Type(), pi.named); st != nil {
			return st.Field(x.Field)
		}
	case *ssa.Field:
		if st := derefNamedStruct(x.X.Type(), pi.named); st != nil {
			return st.Field(x.Field)
		}
	}
	return nil
}

func derefNamedStruct(t types.Type, want *types.Named) *types.Struct {
	if p, ok := t.Underlying().(*types.Pointer); ok {
		t = p.Elem()
	}
	n, ok := t.(*types.Named)
	if !ok || n.Obj() != want.Obj() {
		return nil
	}
	st, _ := n.Underlying().(*types.Struct)
	return st
}

func (pi *procInfo) isDirectAccess(i ssa.Instruction) bool {
	f := pi.fieldOf(i)
	return f != nil && pi.dataFields[f]
}

// isAccess: instruction of a function body that reaches stored data (directly or through its callee cone).
func (pi *procInfo) isAccess(i ssa.Instruction) bool {
	if pi.isDirectAccess(i) {
		return true
	}
	// the façade's contract binding: what it reads from the chain is served as the syncer's data too
	if fa, ok := i.(*ssa.FieldAddr); ok {
		if pt, isP := fa.X.Type().Underlying().(*types.Pointer); isP {
			if nt, isN := pt.Elem().(*types.Named); isN && nt.Obj().Pkg() != nil && nt.Obj().Pkg().Path() == core.P(pi.pkg) {
				if st, isS := nt.Underlying().(*types.Struct); isS {
					ft := st.Field(fa.Field).Type()
					if p2, isP2 := ft.Underlying().(*types.Pointer); isP2 {
						ft = p2.Elem()
					}
					if fn, isFN := ft.(*types.Named); isFN && fn.Obj().Pkg() != nil && strings.Contains(fn.Obj().Pkg().Path(), "cdk-contracts-tooling/contracts") {
						return true
					}
				}
			}
		}
	}
	if cc := core.AsCall(i); cc != nil {
		if callee := cc.StaticCallee(); callee != nil && pi.touches[callee] {
			// an exported method of the façade is an entry point with a guard obligation of its own: going through it is
			// not an unguarded access (it answers ErrInconsistentState while halted, which the caller hands on or not —
			// either way no data is served)
			if pi.guardedEntry[callee] {
				return false
			}
			return true
		}
	}
	if mc, ok := i.(*ssa.MakeClosure); ok && pi.touches[mc.Fn.(*ssa.Function)] {
		return true
	}
	return false
}

func (pi *procInfo) isHaltedCall(v ssa.Value) bool {
	call, ok := v.(*ssa.Call)
	if !ok {
		return false
	}
	return core.CallName(call) == fmt.Sprintf("(*%s.processor).isHalted", pi.pkg)
}

// guardObligation decides the guard rule for one function; returns false when fn has no access (no obligation).
func guardObligation(c *core.Ctx, rule string, pi *procInfo, fn *ssa.Function, construct string) bool {
	hasAccess := false
	core.Instrs(fn, func(i ssa.Instruction) {
		if pi.isAccess(i) {
			hasAccess = true
		}
	})
	if !hasAccess {
		return false
	}
	c.FuncsSeen[fn.String()] = true
	notHalted := core.IfEdgesWhere(fn, pi.isHaltedCall, false)
	halted := core.IfEdgesWhere(fn, pi.isHaltedCall, true)
	if len(notHalted) == 0 {
		var first ssa.Instruction
		core.Instrs(fn, func(i ssa.Instruction) {
			if first == nil && pi.isAccess(i) {
				first = i
			}
		})
		c.Violate(rule, construct, first.Pos(), "reaches processor data but never tests processor.isHalted()")
		return true
	}
	// (1) no access without having passed the not-halted edge
	w := &core.Walk{Target: pi.isAccess, EdgeOK: core.Forbid(notHalted)}
	if f := w.From(core.Entry(fn), nil); f != nil {
		c.Violate(rule, construct, f.Instr.Pos(),
			fmt.Sprintf("processor data is reachable without passing the !isHalted() edge (%s); halted syncer would serve data", core.PathStr(f)))
		return true
	}
	// (2) every return reachable without having passed the not-halted edge (the halted edge itself, and anything
	// before the guard such as a cache hit) returns ErrInconsistentState
	sx := core.NewSymx()
	_ = halted
	bad := (&core.Walk{EdgeOK: core.Forbid(notHalted), TargetPath: func(i ssa.Instruction, path []int) bool {
		r, ok := i.(*ssa.Return)
		if !ok || (fn.Recover != nil && r.Block() == fn.Recover) {
			return false
		}
		if len(r.Results) == 0 {
			return true
		}
		last := r.Results[len(r.Results)-1]
		if !types.Identical(last.Type(), types.Universe.Lookup("error").Type()) {
			return true
		}
		return sx.Of(core.ResolveOnPath(last, path)).String() != errInconsistent
	}}).From(core.Entry(fn), nil)
	if bad != nil {
		c.Violate(rule, construct, bad.Instr.Pos(), "a return is reachable without passing the !isHalted() edge and does not return sync.ErrInconsistentState: a halted syncer would answer this query ("+core.PathStr(bad)+")")
		return true
	}
	c.Hold(rule, construct, "every path to processor data passes !isHalted(); halted edge returns ErrInconsistentState")
	return true
}

func c14Guard(c *core.Ctx) {
	const rule = "C14-guard"
	for _, s := range haltingSyncers {
		pi := newProcInfo(c, s.pkg)
		n := c.Named(s.pkg, s.facade)
		if pi == nil || n == nil || pi.halted == nil || len(pi.dataFields) == 0 {
			c.Undecide(rule, "anchor "+s.pkg+"."+s.facade, token.NoPos, "façade or processor type (with halted flag and data fields) does not resolve")
			continue
		}
		ms := types.NewMethodSet(types.NewPointer(n))
		pi.guardedEntry = map[*ssa.Function]bool{}
		for i := 0; i < ms.Len(); i++ {
			if sel := ms.At(i); sel.Obj().Exported() && len(sel.Index()) == 1 {
				if fn := c.Prog.FuncValue(sel.Obj().(*types.Func)); fn != nil && fn.Blocks != nil {
					pi.guardedEntry[fn] = true
				}
			}
		}
		var names []string
		byName := map[string]*ssa.Function{}
		for i := 0; i < ms.Len(); i++ {
			sel := ms.At(i)
			if !sel.Obj().Exported() || len(sel.Index()) != 1 {
				continue
			}
			fn := c.Prog.FuncValue(sel.Obj().(*types.Func))
			if fn == nil || fn.Blocks == nil {
				continue
			}
			names = append(names, sel.Obj().Name())
			byName[sel.Obj().Name()] = fn
		}
		sort.Strings(names)
		for _, name := range names {
			guardObligation(c, rule, pi, byName[name], fmt.Sprintf("%s.(*%s).%s", s.pkg, s.facade, name))
		}
	}
}

func c14Stop(c *core.Ctx) {
	const rule = "C14-stop"
	for _, s := range haltingSyncers {
		pi := newProcInfo(c, s.pkg)
		fn := c.MustFn(rule, s.pkg, "processor", "ProcessBlock")
		if pi == nil || fn == nil {
			continue
		}
		if !guardObligation(c, rule, pi, fn, s.pkg+".(*processor).ProcessBlock") {
			c.Undecide(rule, s.pkg+".(*processor).ProcessBlock", fn.Pos(), "ProcessBlock does not access processor data?")
		}
	}
	// the driver stops on ErrInconsistentState: decided by C05-retry (shared); here: the halted return is what the driver tests
	fn := c.MustFn(rule, "sync", "EVMDriver", "handleNewBlock")
	if fn == nil {
		return
	}
	sx := core.NewSymx()
	var isCalls []ssa.Instruction
	core.Instrs(fn, func(i ssa.Instruction) {
		if core.IsCallTo(i, "errors.Is") {
			call := i.(*ssa.Call)
			if sx.Of(call.Call.Args[1]).String() == errInconsistent {
				isCalls = append(isCalls, i)
			}
		}
	})
	if len(isCalls) == 0 {
		c.Violate(rule, "sync.(*EVMDriver).handleNewBlock#errors.Is(ErrInconsistentState)", fn.Pos(), "driver no longer tests for ErrInconsistentState")
		return
	}
	for _, ic := range isCalls {
		call := ic.(*ssa.Call)
		edges := core.IfEdgesWhere(fn, func(v ssa.Value) bool { return v == ssa.Value(call) }, true)
		ok := len(edges) > 0
		for _, e := range edges {
			start := core.Point{B: e.B.Succs[e.Succ], I: 0}
			// from the inconsistent edge, ProcessBlock must not be reachable again, and cancel() must be called before return
			procAgain := (&core.Walk{Target: func(i ssa.Instruction) bool {
				return core.IsCallTo(i, "(sync.processorInterface).ProcessBlock")
			}}).From(start, nil)
			if procAgain != nil {
				ok = false
			}
			retNoCancel := (&core.Walk{
				Target: func(i ssa.Instruction) bool { _, r := i.(*ssa.Return); return r },
				Stop: func(i ssa.Instruction) bool {
					cc := core.AsCall(i)
					if cc == nil || cc.IsInvoke() {
						return false
					}
					p, isParam := cc.Value.(*ssa.Parameter)
					return isParam && len(fn.Params) > 2 && p == fn.Params[2]
				}}).From(start, nil)
			if retNoCancel != nil {
				ok = false
			}
		}
		c.Decide(ok, rule, "sync.(*EVMDriver).handleNewBlock#on-ErrInconsistentState", ic.Pos(),
			"on errors.Is(err, ErrInconsistentState) the driver cancels the download and returns without processing again")
	}
}

// haltStores lists stores to the halted flag of a processor in fn.
func (pi *procInfo) haltStores(fn *ssa.Function) []*ssa.Store {
	var out []*ssa.Store
	core.Instrs(fn, func(i ssa.Instruction) {
		st, ok := i.(*ssa.Store)
		if !ok {
			return
		}
		fa, ok := st.Addr.(*ssa.FieldAddr)
		if !ok {
			return
		}
		if f := pi.fieldOf(fa); f != nil && f == pi.halted {
			out = append(out, st)
		}
	})
	return out
}

func isConstBool(v ssa.Value, want bool) bool {
	c, ok := v.(*ssa.Const)
	if !ok || c.Value == nil {
		return false
	}
	return c.Value.String() == fmt.Sprint(want)
}

func c14Set(c *core.Ctx) {
	const rule = "C14-set"
	sx := core.NewSymx()
	for _, s := range haltingSyncers {
		pi := newProcInfo(c, s.pkg)
		fn := c.MustFn(rule, s.pkg, "processor", "ProcessBlock")
		if pi == nil || fn == nil {
			continue
		}
		stores := pi.haltStores(fn)
		n := 0
		for _, st := range stores {
			if !isConstBool(st.Val, true) {
				continue
			}
			n++
			construct := fmt.Sprintf("%s.(*processor).ProcessBlock#halt-site-%d", s.pkg, n)
			// after halting, every path returns ErrInconsistentState without committing
			bad := (&core.Walk{TargetPath: func(i ssa.Instruction, path []int) bool {
				if core.IsCallTo(i, "(db/types.SQLTxer).Commit", "(db/types.Txer).Commit", "(*db.Tx).Commit") {
					return true
				}
				r, ok := i.(*ssa.Return)
				if !ok {
					return false
				}
				return len(r.Results) != 1 || sx.Of(core.ResolveOnPath(r.Results[0], path)).String() != errInconsistent
			}}).From(core.After(st), nil)
			if bad != nil {
				c.Violate(rule, construct, bad.Instr.Pos(), "after setting halted=true a path commits the transaction or returns something other than ErrInconsistentState")
			} else {
				c.Hold(rule, construct, "halted=true is followed on every path by return ErrInconsistentState, no commit")
			}
		}
		if n == 0 {
			c.Violate(rule, s.pkg+".(*processor).ProcessBlock#halt-site", fn.Pos(), "ProcessBlock never sets halted=true: the inconsistency is not latched")
		}
	}
	// bridgesync: an ErrInvalidIndex result of AddLeaf must reach the halt on every path
	fn := c.MustFn(rule, "bridgesync", "processor", "ProcessBlock")
	pi := newProcInfo(c, "bridgesync")
	if fn == nil || pi == nil {
		return
	}
	found := false
	core.Instrs(fn, func(i ssa.Instruction) {
		if !core.IsCallTo(i, "errors.Is") {
			return
		}
		call := i.(*ssa.Call)
		if sx.Of(call.Call.Args[1]).String() != "tree.ErrInvalidIndex" {
			return
		}
		errT := sx.Of(call.Call.Args[0])
		if !strings.Contains(errT.String(), "(*tree.AppendOnlyTree).AddLeaf") {
			return
		}
		found = true
		edges := core.IfEdgesWhere(fn, func(v ssa.Value) bool { return v == ssa.Value(call) }, true)
		ok := len(edges) > 0
		for _, e := range edges {
			start := core.Point{B: e.B.Succs[e.Succ], I: 0}
			esc := (&core.Walk{
				Target: func(i ssa.Instruction) bool { return core.IsExit(i) },
				Stop: func(i ssa.Instruction) bool {
					st, isSt := i.(*ssa.Store)
					if !isSt || !isConstBool(st.Val, true) {
						return false
					}
					fa, isFa := st.Addr.(*ssa.FieldAddr)
					return isFa && pi.fieldOf(fa) == pi.halted
				}}).From(start, nil)
			if esc != nil {
				ok = false
			}
		}
		c.Decide(ok, rule, "bridgesync.(*processor).ProcessBlock#ErrInvalidIndex-halts", i.Pos(),
			"errors.Is(AddLeaf error, tree.ErrInvalidIndex) leads to halted=true on every path")
	})
	if !found {
		c.Violate(rule, "bridgesync.(*processor).ProcessBlock#ErrInvalidIndex-halts", fn.Pos(), "the deposit-count gap (tree.ErrInvalidIndex from AddLeaf) is no longer tested")
	}
}

func c14Clear(c *core.Ctx) {
	const rule = "C14-clear"
	const unhalt = "sync.UnhaltIfAffectedRows"
	// (a) every write access to a halted flag in the whole repository
	for _, s := range haltingSyncers {
		pi := newProcInfo(c, s.pkg)
		if pi == nil || pi.halted == nil {
			c.Undecide(rule, "anchor "+s.pkg+".processor.halted", token.NoPos, "halted flag does not resolve")
			continue
		}
		for _, fn := range c.AllFuncs() {
			core.Instrs(fn, func(i ssa.Instruction) {
				fa, ok := i.(*ssa.FieldAddr)
				if !ok || pi.fieldOf(fa) != pi.halted {
					return
				}
				for _, ref := range *fa.Referrers() {
					construct := fmt.Sprintf("%s.processor.halted@%s", s.pkg, core.ShortFn(fn))
					switch r := ref.(type) {
					case *ssa.UnOp: // read
					case *ssa.DebugRef:
					case *ssa.Store:
						if r.Addr != ssa.Value(fa) {
							c.Violate(rule, construct+"#escape", r.Pos(), "address of halted flag is stored away")
							continue
						}
						if isConstBool(r.Val, true) {
							c.Hold(rule, construct+"#set-true", "store of constant true (halting)")
						} else {
							c.Violate(rule, construct+"#store-nontrue", r.Pos(), "halted flag is written with a value other than constant true outside UnhaltIfAffectedRows")
						}
					default:
						if cc := core.AsCall(ref); cc != nil && core.FullName(core.CalleeObj(cc)) == unhalt {
							c.Hold(rule, construct+"#passed-to-UnhaltIfAffectedRows", "address only handed to sync.UnhaltIfAffectedRows")
						} else {
							c.Violate(rule, construct+"#escape", ref.Pos(), "address of halted flag escapes to "+ref.String())
						}
					}
				}
			})
		}
	}
	// (b) UnhaltIfAffectedRows clears only under rowsAffected > 0
	uf := c.MustFn(rule, "sync", "", "UnhaltIfAffectedRows")
	if uf != nil && len(uf.Params) == 4 {
		haltedP, rowsP := uf.Params[0], uf.Params[3]
		// rowsAffected > 0 in any written form (x > 0, 0 < x, !(x <= 0), x >= 1, …)
		gt := core.RelEdges(uf, core.IsValue(rowsP), core.IsConstInt(0), token.GTR)
		gt = append(gt, core.RelEdges(uf, core.IsValue(rowsP), core.IsConstInt(1), token.GEQ)...)
		stores := 0
		core.Instrs(uf, func(i ssa.Instruction) {
			st, ok := i.(*ssa.Store)
			if !ok || st.Addr != ssa.Value(haltedP) {
				return
			}
			stores++
		})
		w := &core.Walk{EdgeOK: core.Forbid(gt), Target: func(i ssa.Instruction) bool {
			st, ok := i.(*ssa.Store)
			return ok && st.Addr == ssa.Value(haltedP)
		}}
		f := w.From(core.Entry(uf), nil)
		switch {
		case len(gt) == 0:
			c.Violate(rule, "sync.UnhaltIfAffectedRows#guard", uf.Pos(), "no `rowsAffected > 0` test: a reorg that removes nothing would clear the halt")
		case f != nil:
			c.Violate(rule, "sync.UnhaltIfAffectedRows#guard", f.Instr.Pos(), "halted flag is cleared on a path that did not pass `rowsAffected > 0`")
		case stores == 0:
			c.Violate(rule, "sync.UnhaltIfAffectedRows#guard", uf.Pos(), "never clears the flag (halt could not be lifted by a real reorg)")
		default:
			c.Hold(rule, "sync.UnhaltIfAffectedRows#guard", "the only store through *halted is dominated by rowsAffected > 0")
		}
	}
	// (c) callers: only processor.Reorg, after a nil Commit, with rowsAffected = RowsAffected() of the DELETE FROM block result
	for _, cs := range c.AllCallsTo(unhalt) {
		construct := "call-UnhaltIfAffectedRows@" + core.ShortFn(cs.Fn)
		fn := cs.Fn
		if fn.Name() != "Reorg" || fn.Signature.Recv() == nil {
			c.Violate(rule, construct, cs.Instr.Pos(), "UnhaltIfAffectedRows called outside a processor Reorg")
			continue
		}
		call := cs.Instr.(*ssa.Call)
		// placeholders that travel with an error (`return 0, err` of a helper expanded in place) never reach the call
		sxl := core.NewSymx()
		bindLivePhis(sxl, fn, call)
		ra := sxl.Of(call.Call.Args[3])
		raStr := ra.String()
		okArg := strings.HasPrefix(raStr, "(database/sql.Result).RowsAffected(") && strings.Contains(raStr, "Exec(") &&
			strings.Contains(raStr, "DELETE FROM block WHERE num >= $1")
		if !okArg {
			c.Violate(rule, construct, cs.Instr.Pos(), "rowsAffected argument is not RowsAffected() of the `DELETE FROM block WHERE num >= $1` result: "+raStr)
			continue
		}
		// dominated by the nil edge of Commit
		var commitNil []core.IfEdge
		core.Instrs(fn, func(i ssa.Instruction) {
			if core.IsCallTo(i, "(db/types.SQLTxer).Commit", "(db/types.Txer).Commit") {
				if cv, ok := i.(*ssa.Call); ok {
					commitNil = append(commitNil, core.NilEdgesRes(fn, cv, true)...)
				}
			}
		})
		f := (&core.Walk{EdgeOK: core.Forbid(commitNil), Target: func(i ssa.Instruction) bool { return i == cs.Instr }}).From(core.Entry(fn), nil)
		if len(commitNil) == 0 || f != nil {
			c.Violate(rule, construct, cs.Instr.Pos(), "UnhaltIfAffectedRows is reachable without a Commit that returned nil")
			continue
		}
		c.Hold(rule, construct, "after Commit()==nil, rowsAffected ← RowsAffected(DELETE FROM block …)")
	}
}

func init() {
	register(&Property{
		ID:          "C14",
		Level:       "proof",
		Explanation: "Static proof of the fail-stop structure over every path of the code: (guard) every exported method of *BridgeSync and *L1InfoTreeSync, enumerated from the method sets, whose callee cone reaches processor data (SQL handle or trees) passes the false edge of processor.isHalted() before the first access and returns sync.ErrInconsistentState on the true edge; (stop) both ProcessBlock functions test the flag before opening a transaction and the driver cancels and returns on ErrInconsistentState; (set) every halting site latches halted=true and returns ErrInconsistentState without commit, and the deposit-count gap always reaches the latch; (clear) all writes to the two halted flags in the whole repository are enumerated: only constant-true stores, and the address handed to sync.UnhaltIfAffectedRows, which clears only under rowsAffected > 0 and is called only from Reorg after Commit()==nil with RowsAffected() of the `DELETE FROM block` statement. The guard rule also covers façade methods that read the contract binding (served as syncer data). Added after round 7: C14-value (the reorg handed to the processor is the notified one, shared with C06), C14-index (an out-of-sequence deposit count always surfaces as tree.ErrInvalidIndex).",
		Assumptions: []string{
			"a query already past the guard when the syncer halts may still return data (inherent window; property read as: queries that start after the halt)",
			"no reflection / unsafe writes to the flag (none in the packages)",
		},
		Trusted: []string{"go/types + go/ssa construction (x/tools v0.50.0)", "the path-sensitive reachability engine in checker/internal/core", "SQL engine reports RowsAffected correctly"},
		Rules: []Rule{
			{ID: "C14-guard", Floor: 32, Run: c14Guard, Text: "[DOM] every exported façade method that reaches processor data is dominated by the !isHalted() edge; the halted edge returns ErrInconsistentState"},
			{ID: "C14-stop", Floor: 3, Run: c14Stop, Text: "[DOM] ProcessBlock tests isHalted() before any data access / NewTx; driver cancels and returns on ErrInconsistentState"},
			{ID: "C14-set", Floor: 3, Run: c14Set, Text: "[DOM] halting sites store true then return ErrInconsistentState without commit; ErrInvalidIndex always reaches the latch"},
			{ID: "C14-value", Floor: 5, Run: shared("C14-value", c06Rewind), Text: "(shared with C06-rewind/C06-value) the reorg handed to the processor is the notified one (an empty reorg stays empty)"},
			{ID: "C14-index", Floor: 2, Run: func(c *core.Ctx) { onlyNextIndex(c, "C14-index") }, Text: "(shared with C01-step) an out-of-sequence deposit count — a gap or a regression — always surfaces as tree.ErrInvalidIndex, the error the halt is latched on"},
			{ID: "C14-clear", Floor: 7, Run: c14Clear, Text: "[WHO]+[PROV]+[DOM] enumerate all writes of the halted flags; only UnhaltIfAffectedRows clears, under rowsAffected>0, called from Reorg after a nil Commit with the DELETE's RowsAffected"},
		},
	})
}
