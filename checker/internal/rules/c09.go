package rules

import (
	"fmt"
	"strings"

	"golang.org/x/tools/go/ssa"

	"verif/checker/internal/core"
)

const rangeElemIdx = "[(loop{const(-1)} + const(1))]"

func c09Root(c *core.Ctx) {
	const rule = "C09-root"
	fn := c.MustFn(rule, "aggsender/flows", "baseFlow", "getImportedBridgeExits")
	if fn == nil {
		return
	}
	sx := core.NewSymx()
	var gp, conv *ssa.Call
	core.Instrs(fn, func(i ssa.Instruction) {
		if call, ok := i.(*ssa.Call); ok {
			switch {
			case strings.HasSuffix(core.CallName(call), ").GetProofForGER"):
				gp = call
			case core.CallName(call) == "(*aggsender/flows.baseFlow).ConvertClaimToImportedBridgeExit":
				conv = call
			}
		}
	})
	if gp == nil || conv == nil {
		c.Violate(rule, "flows.getImportedBridgeExits#shape", fn.Pos(), "expected ConvertClaimToImportedBridgeExit and GetProofForGER per claim")
		return
	}
	if v := core.ExtractOf(gp, 0); v != nil {
		sx.Bind(v, "L1INFO")
	}
	if v := core.ExtractOf(gp, 1); v != nil {
		sx.Bind(v, "GERPROOF")
	}
	if v := core.ExtractOf(conv, 0); v != nil {
		sx.Bind(v, "IBE")
	}
	norm := func(t *core.Term) string {
		if t == nil {
			return "<unset>"
		}
		return strings.ReplaceAll(t.String(), "claims"+rangeElemIdx, "CLAIM")
	}
	// the proof is asked for this claim's GER against the root named in the certificate
	a := gp.Call.Args
	c.Decide(norm(sx.Of(a[len(a)-2])) == "CLAIM.GlobalExitRoot" && norm(sx.Of(a[len(a)-1])) == "rootFromWhichToProve", rule, "flows.getImportedBridgeExits#GetProofForGER-args", gp.Pos(),
		"GetProofForGER(claim.GlobalExitRoot, rootFromWhichToProve): "+norm(sx.Of(a[len(a)-2]))+", "+norm(sx.Of(a[len(a)-1])))
	c.Decide(norm(sx.Of(conv.Call.Args[1])) == "CLAIM", rule, "flows.getImportedBridgeExits#convert-arg", conv.Pos(), "the imported bridge exit is converted from the same claim")
	leafWant := map[string]string{
		"L1InfoTreeIndex": "L1INFO.L1InfoTreeIndex",
		"RollupExitRoot":  "CLAIM.RollupExitRoot",
		"MainnetExitRoot": "CLAIM.MainnetExitRoot",
	}
	innerWant := map[string]string{"GlobalExitRoot": "L1INFO.GlobalExitRoot", "Timestamp": "L1INFO.Timestamp", "BlockHash": "L1INFO.PreviousBlockHash"}
	proofWant := map[string]map[string]string{
		"ProofGERToL1Root": {"Root": "rootFromWhichToProve", "Proof": "GERPROOF"},
		"ProofLeafMER":     {"Root": "CLAIM.MainnetExitRoot", "Proof": "CLAIM.ProofLocalExitRoot"},
		"ProofLERToRER":    {"Root": "CLAIM.RollupExitRoot", "Proof": "CLAIM.ProofRollupExitRoot"},
		"ProofLeafLER":     {"Root": "tree.CalculateRoot((*agglayer/types.BridgeExit).Hash(IBE.BridgeExit), CLAIM.ProofLocalExitRoot, IBE.GlobalIndex.LeafIndex)", "Proof": "CLAIM.ProofLocalExitRoot"},
	}
	kinds := map[string][]string{
		"agglayer/types.ClaimFromMainnnet": {"ProofLeafMER", "ProofGERToL1Root"},
		"agglayer/types.ClaimFromRollup":   {"ProofLeafLER", "ProofLERToRER", "ProofGERToL1Root"},
	}
	seen := map[string]bool{}
	for kind, proofs := range kinds {
		for _, al := range allocsOfType(fn, kind) {
			seen[kind] = true
			lit := sx.Of(al)
			short := kind[strings.LastIndex(kind, ".")+1:]
			leaf := lit.Fields["L1Leaf"]
			if leaf == nil || leaf.Op != "lit" {
				c.Undecide(rule, "flows.getImportedBridgeExits#"+short+".L1Leaf", al.Pos(), "L1Leaf is not a literal")
				continue
			}
			for k, w := range leafWant {
				c.Decide(norm(leaf.Fields[k]) == w, rule, fmt.Sprintf("flows.getImportedBridgeExits#%s.L1Leaf.%s", short, k), al.Pos(), k+" ← "+norm(leaf.Fields[k]))
			}
			inner := leaf.Fields["Inner"]
			for k, w := range innerWant {
				var got *core.Term
				if inner != nil {
					got = inner.Fields[k]
				}
				c.Decide(norm(got) == w, rule, fmt.Sprintf("flows.getImportedBridgeExits#%s.L1Leaf.Inner.%s", short, k), al.Pos(), k+" ← "+norm(got))
			}
			for _, p := range proofs {
				pl := lit.Fields[p]
				for _, k := range []string{"Root", "Proof"} {
					var got *core.Term
					if pl != nil {
						got = pl.Fields[k]
					}
					c.Decide(norm(got) == proofWant[p][k], rule, fmt.Sprintf("flows.getImportedBridgeExits#%s.%s.%s", short, p, k), al.Pos(), p+"."+k+" ← "+norm(got))
				}
			}
			// every object hanging off the claim data is allocated for THIS claim (no aliasing across iterations)
			fresh := true
			var stale *ssa.Alloc
			lit.Walk(func(t *core.Term) {
				if a, ok := t.Val.(*ssa.Alloc); ok && a.Heap && !core.Dominates(conv, a) {
					fresh, stale = false, a
				}
			})
			if fresh {
				c.Hold(rule, "flows.getImportedBridgeExits#"+short+"#fresh-objects", "every proof / leaf object of the claim data is allocated in the claim's own iteration")
			} else {
				c.Violate(rule, "flows.getImportedBridgeExits#"+short+"#fresh-objects", stale.Pos(), "an object referenced from the claim data is allocated outside the per-claim iteration: all exits share it and end up with the last claim's values")
			}
			// the literal is attached to this claim's exit, on the matching branch of the mainnet flag
			flagWant := kind == "agglayer/types.ClaimFromMainnnet"
			edges := core.TermEdges(fn, sx, func(s string, _ *core.Term) bool { return s == "IBE.GlobalIndex.MainnetFlag" }, flagWant)
			f := core.ReachableWithout(core.Entry(fn), edges, func(i ssa.Instruction) bool { return i == ssa.Instruction(al) })
			c.Decide(len(edges) > 0 && f == nil, rule, "flows.getImportedBridgeExits#"+short+"#branch", al.Pos(), fmt.Sprintf("%s is built only when MainnetFlag == %v", short, flagWant))
		}
	}
	for kind := range kinds {
		if !seen[kind] {
			c.Violate(rule, "flows.getImportedBridgeExits#"+kind, fn.Pos(), "claim data literal missing")
		}
	}
}

func c09Count(c *core.Ctx) {
	const rule = "C09-count"
	sx := core.NewSymx()
	// every store to CertificateBuildParams.L1InfoTreeLeafCount, paired with the store of the root in the same function
	n := 0
	for _, fn := range c.AllFuncs() {
		if fn.Pkg == nil || !strings.HasPrefix(fn.Pkg.Pkg.Path(), core.P("aggsender")) {
			continue
		}
		var cnt, root []*ssa.Store
		core.Instrs(fn, func(i ssa.Instruction) {
			st, ok := i.(*ssa.Store)
			if !ok {
				return
			}
			fa, ok := st.Addr.(*ssa.FieldAddr)
			if !ok || !strings.HasSuffix(fa.X.Type().String(), "types.CertificateBuildParams") {
				return
			}
			switch sx.Of(fa).Name {
			case "L1InfoTreeLeafCount":
				cnt = append(cnt, st)
			case "L1InfoTreeRootFromWhichToProve":
				root = append(root, st)
			}
		})
		for k, st := range cnt {
			n++
			construct := fmt.Sprintf("%s#L1InfoTreeLeafCount-%d", core.ShortFn(fn), k+1)
			cs := sx.Of(st.Val).String()
			okPair := false
			detail := cs
			for _, rs := range root {
				r := sx.Of(rs.Val).String()
				detail = cs + " with root " + r
				switch {
				case strings.HasSuffix(cs, ".Index + const(1))") && strings.HasSuffix(r, ".Hash") &&
					strings.TrimSuffix(strings.TrimPrefix(cs, "("), ".Index + const(1))") == strings.TrimSuffix(r, ".Hash"):
					okPair = true // count = r.Index+1, root = r.Hash of the same r
				case strings.HasSuffix(cs, ".L1InfoTreeLeafCount") && strings.HasSuffix(r, ".FinalizedL1InfoTreeRoot") &&
					strings.TrimSuffix(cs, ".L1InfoTreeLeafCount") == strings.TrimPrefix(strings.TrimSuffix(r, ".FinalizedL1InfoTreeRoot"), "*"):
					okPair = true // both copied from one stored header
				case strings.HasSuffix(cs, ".L1InfoTreeLeafCount") && strings.HasSuffix(r, ".L1InfoTreeRootFromWhichToProve") &&
					strings.TrimSuffix(cs, ".L1InfoTreeLeafCount") == strings.TrimSuffix(r, ".L1InfoTreeRootFromWhichToProve"):
					okPair = true // both copied from one other params object (Range)
				}
			}
			c.Decide(okPair, rule, construct, st.Pos(), "leaf count and root come from one root object (Index+1 / Hash) or one stored header: "+detail)
		}
	}
	if n == 0 {
		c.Undecide(rule, "L1InfoTreeLeafCount-stores", 0, "no store to CertificateBuildParams.L1InfoTreeLeafCount found")
	}
	// the certificate takes the count from the params and the proofs are built against the params' root
	bc := c.MustFn(rule, "aggsender/flows", "baseFlow", "BuildCertificate")
	if bc != nil {
		als := allocsOfType(bc, "agglayer/types.Certificate")
		ok := false
		if len(als) == 1 {
			lit := sx.Of(als[0])
			ok = lit.Fields["L1InfoTreeLeafCount"] != nil && lit.Fields["L1InfoTreeLeafCount"].String() == "certParams.L1InfoTreeLeafCount"
		}
		okRoot := false
		core.Instrs(bc, func(i ssa.Instruction) {
			if core.IsCallTo(i, "(*aggsender/flows.baseFlow).getImportedBridgeExits") {
				a := core.AsCall(i).Args
				okRoot = sx.Of(a[2]).String() == "certParams.Claims" && sx.Of(a[3]).String() == "certParams.L1InfoTreeRootFromWhichToProve"
			}
		})
		c.Decide(ok && okRoot, rule, "flows.(*baseFlow).BuildCertificate#count-and-root", bc.Pos(), "certificate.L1InfoTreeLeafCount ← params; claim proofs built against params.L1InfoTreeRootFromWhichToProve")
	}
}

func c09Finalized(c *core.Ctx) {
	const rule = "C09-finalized"
	sx := core.NewSymx()
	fn := c.MustFn(rule, "aggsender/query", "L1InfoTreeDataQuerier", "getLatestProcessedFinalizedBlock")
	if fn != nil {
		var gp *ssa.Call
		core.Instrs(fn, func(i ssa.Instruction) {
			if strings.HasSuffix(core.CallName(i), ").GetProcessedBlockUntil") {
				gp, _ = i.(*ssa.Call)
			}
		})
		if gp == nil {
			c.Violate(rule, "aggsender/query.getLatestProcessedFinalizedBlock#shape", fn.Pos(), "the syncer's processed block (and hash) at or below the finalized block is no longer looked up")
		} else {
			h := core.ExtractOf(gp, 1)
			sb := core.NewSymx().Bind(h, "STOREDHASH")
			same := core.TermEdges(fn, sb, func(s string, _ *core.Term) bool {
				return strings.HasPrefix(s, "(STOREDHASH == (*github.com/ethereum/go-ethereum/core/types.Header).Hash(") || (strings.HasSuffix(s, " == STOREDHASH)") && strings.Contains(s, "types.Header).Hash("))
			}, true)
			legacy := core.TermEdges(fn, sb, func(s string, _ *core.Term) bool {
				return s == "(STOREDHASH == const(zero:github.com/ethereum/go-ethereum/common.Hash))"
			}, true)
			ok := len(same) > 0
			for _, rc := range core.ReturnCases(fn) {
				if len(rc.Values) == 2 && isNilConst(rc.Values[1]) {
					ok = ok && rc.ReachableOnlyVia(fn, append(append([]core.IfEdge{}, same...), legacy...))
				}
			}
			c.Decide(ok, rule, "aggsender/query.getLatestProcessedFinalizedBlock#hash-crosscheck", gp.Pos(), "a block number is returned only when the syncer's stored hash for it equals the L1 node's hash (or predates hash recording): a reorged block the syncer has not yet rewound is refused")
			// the header compared is the header of the block returned
			a := gp.Call.Args
			c.Decide(strings.Contains(sx.Of(a[len(a)-1]).String(), "HeaderByNumber(l.l1Client, ctx, aggsender/query.finalizedBlockBigInt)#0.Number"), rule, "aggsender/query.getLatestProcessedFinalizedBlock#until-finalized", gp.Pos(), "the syncer is asked for its last processed block at or below the FINALIZED L1 block")
		}
	}
	gr := c.MustFn(rule, "aggsender/query", "L1InfoTreeDataQuerier", "GetLatestFinalizedL1InfoRoot")
	if gr != nil {
		ok := false
		for _, r := range core.Returns(gr) {
			if len(r.Results) != 3 || !isNilConst(r.Results[2]) {
				continue
			}
			blk := "(*aggsender/query.L1InfoTreeDataQuerier).getLatestProcessedFinalizedBlock(l, ctx)#0"
			leaf := "(aggsender/query.L1InfoTreeSyncer).GetLatestInfoUntilBlock(l.l1InfoTreeSyncer, ctx, " + blk + ")#0"
			leafS := sx.Of(r.Results[1]).String()
			rootS := sx.Of(r.Results[0]).String()
			ok = strings.HasSuffix(leafS, ").GetLatestInfoUntilBlock(l.l1InfoTreeSyncer, ctx, "+blk+")#0") &&
				strings.Contains(rootS, ").GetL1InfoTreeRootByIndex(l.l1InfoTreeSyncer, ctx, "+leafS+".L1InfoTreeIndex)#0")
			_ = leaf
		}
		c.Decide(ok, rule, "aggsender/query.GetLatestFinalizedL1InfoRoot#chain", gr.Pos(), "root = root recorded for the index of the latest leaf until the cross-checked finalized block; the same leaf is returned")
	}
	statelessQueriers(c, rule)
}

// statelessQueriers: the querier / flow objects keep no state between calls (a cache keyed by GER or deposit count alone
// would serve answers computed for an older chain state after a reorg).
func statelessQueriers(c *core.Ctx, rule string) {
	for _, tn := range [][2]string{{"aggsender/query", "L1InfoTreeDataQuerier"}, {"aggsender/query", "bridgeDataQuerier"}, {"aggsender/flows", "baseFlow"}} {
		n := c.Named(tn[0], tn[1])
		if n == nil {
			c.Undecide(rule, "anchor "+tn[0]+"."+tn[1], 0, "type does not resolve")
			continue
		}
		var fields []string
		for _, fs := range fieldStoresOf(c, n) {
			if tn[1] == "bridgeDataQuerier" && fs.field == "delayBetweenRetries" {
				continue // configuration default applied lazily, carries no chain data
			}
			fields = append(fields, fs.field+"@"+core.ShortFn(fs.fn))
		}
		c.Decide(len(fields) == 0, rule, tn[0]+"."+tn[1]+"#stateless", 0, fmt.Sprintf("no field of the querier/flow object is written after construction (found: %v)", fields))
	}
}

func c09LeafHash(c *core.Ctx) { leafHashRule(c, "C09-leafhash") }

func leafHashRule(c *core.Ctx, rule string) {
	lx := core.NewLayout()
	get := func(pkg, recv, name string) (string, *ssa.Function) {
		fn := c.MustFn(rule, pkg, recv, name)
		if fn == nil {
			return "", nil
		}
		for _, r := range core.Returns(fn) {
			return lx.Of(r.Results[0]), fn
		}
		return "", fn
	}
	// contract: l1InfoLeaf = keccak256(abi.encodePacked(bytes32 ger, uint256 parentBlockHash, uint64 timestamp))
	syncer, f1 := get("l1infotreesync", "L1InfoTreeLeaf", "GetHash")
	if f1 != nil {
		want := "K(RAW32((*l1infotreesync.L1InfoTreeLeaf).GetGlobalExitRoot(l))|RAW32(l.PreviousBlockHash)|BE64(l.Timestamp))"
		c.Decide(syncer == want, rule, "l1infotreesync.(*L1InfoTreeLeaf).GetHash#layout", f1.Pos(), "leaf hash = "+syncer+" ; contract: keccak(ger ‖ parent hash ‖ uint64 timestamp)")
	}
	inner, f2 := get("agglayer/types", "L1InfoTreeLeafInner", "Hash")
	if f2 != nil {
		want := "K(RAW32(l.GlobalExitRoot)|RAW32(l.BlockHash)|BE64(l.Timestamp))"
		c.Decide(inner == want, rule, "agglayer/types.(*L1InfoTreeLeafInner).Hash#layout", f2.Pos(), "agglayer-side leaf hash = "+inner+" (sibling of GetHash under GlobalExitRoot↔ger, BlockHash↔PreviousBlockHash, Timestamp)")
	}
	leaf, f3 := get("agglayer/types", "L1InfoTreeLeaf", "Hash")
	if f3 != nil {
		c.Decide(leaf == "RAW32((*agglayer/types.L1InfoTreeLeafInner).Hash(l.Inner))", rule, "agglayer/types.(*L1InfoTreeLeaf).Hash#inner-only", f3.Pos(), "L1InfoTreeLeaf.Hash = Inner.Hash (Agglayer's definition): "+leaf)
	}
}

func c09GER(c *core.Ctx) { gerRule(c, "C09-ger") }

func gerRule(c *core.Ctx, rule string) {
	lx := core.NewLayout()
	check := func(pkg, recv, name, want string) {
		fn := c.MustFn(rule, pkg, recv, name)
		if fn == nil {
			return
		}
		for _, r := range core.Returns(fn) {
			got := lx.Of(r.Results[0])
			c.Decide(got == want, rule, core.ShortFn(fn)+"#layout", r.Pos(), "GER = "+got+" ; contract: keccak(mainnetExitRoot ‖ rollupExitRoot)")
		}
	}
	check("l1infotreesync", "L1InfoTreeLeaf", "GetGlobalExitRoot", "K(RAW32(l.MainnetExitRoot)|RAW32(l.RollupExitRoot))")
	check("aggsender/flows", "", "calculateGER", "K(RAW32(mainnetExitRoot)|RAW32(rollupExitRoot))")
	// the claim decoder computes the GER the same way
	for _, name := range []string{"decodeEtrogCalldata", "decodePreEtrogCalldata"} {
		fn := c.MustFn(rule, "bridgesync", "Claim", name)
		if fn == nil {
			continue
		}
		sx := core.NewSymx()
		found := false
		core.Instrs(fn, func(i ssa.Instruction) {
			st, ok := i.(*ssa.Store)
			if !ok || !strings.HasSuffix(sx.Of(st.Addr).String(), "c.GlobalExitRoot") {
				return
			}
			found = true
			got := lx.Of(st.Val)
			sxs := sx.Of(st.Val).String()
			ok2 := got == "K(RAW32(c.MainnetExitRoot)|RAW32(c.RollupExitRoot))" || strings.Contains(sxs, "GlobalExitRoot(c.MainnetExitRoot, c.RollupExitRoot)") ||
				(strings.HasPrefix(got, "K(RAW32(") && strings.Contains(got, "MainnetExitRoot") && strings.Index(got, "MainnetExitRoot") < strings.Index(got, "RollupExitRoot"))
			c.Decide(ok2, rule, "bridgesync.(*Claim)."+name+"#ger", st.Pos(), "claim.GlobalExitRoot ← keccak(mainnet ‖ rollup): "+got+" / "+sxs)
		})
		if !found {
			c.Undecide(rule, "bridgesync.(*Claim)."+name+"#ger", fn.Pos(), "no store to c.GlobalExitRoot")
		}
	}
	// verifyClaimGERs compares the recomputed GER with the claim's and is on the path of every verified build
	v := c.MustFn(rule, "aggsender/flows", "baseFlow", "verifyClaimGERs")
	if v != nil {
		sx := core.NewSymx()
		mism := core.TermEdges(v, sx, func(s string, _ *core.Term) bool {
			s = strings.ReplaceAll(s, "claims"+rangeElemIdx, "CLAIM")
			return s == "(aggsender/flows.calculateGER(CLAIM.MainnetExitRoot, CLAIM.RollupExitRoot) != CLAIM.GlobalExitRoot)"
		}, true)
		ok := len(mism) > 0
		for _, e := range mism {
			start := core.Point{B: e.B.Succs[e.Succ], I: 0}
			if (&core.Walk{Target: func(i ssa.Instruction) bool {
				r, isR := i.(*ssa.Return)
				return isR && isNilConst(r.Results[0])
			}}).From(start, nil) != nil {
				ok = false
			}
		}
		c.Decide(ok, rule, "flows.(*baseFlow).verifyClaimGERs", v.Pos(), "calculateGER(claim.MainnetExitRoot, claim.RollupExitRoot) != claim.GlobalExitRoot ⇒ error")
	}
	vb := c.MustFn(rule, "aggsender/flows", "baseFlow", "VerifyBuildParams")
	if vb != nil {
		calls := core.CallsTo(vb, "(*aggsender/flows.baseFlow).verifyClaimGERs")
		ok := len(calls) == 1
		if ok {
			call := calls[0].(*ssa.Call)
			nilE := core.NilEdgesRes(vb, call, true)
			f := core.ReachableWithout(core.Entry(vb), nilE, func(i ssa.Instruction) bool {
				r, isR := i.(*ssa.Return)
				return isR && isNilConst(r.Results[0])
			})
			ok = len(nilE) > 0 && f == nil && core.NewSymx().Of(call.Call.Args[1]).String() == "fullCert.Claims"
		}
		c.Decide(ok, rule, "flows.(*baseFlow).VerifyBuildParams#checks-gers", vb.Pos(), "VerifyBuildParams succeeds only if verifyClaimGERs(fullCert.Claims) did")
	}
}

func init() {
	register(&Property{
		ID:          "C09",
		Level:       "other",
		Explanation: "Decides the structural necessary conditions of 'claim proofs inside a certificate verify against the L1 info root it names': C09-root — in getImportedBridgeExits, for both claim kinds (built only on the matching MainnetFlag branch), the proof to the L1 info root carries the same rootFromWhichToProve value that was passed to GetProofForGER for this claim's GER, the leaf index / inner fields come from that call's leaf (BlockHash ← PreviousBlockHash), the exit roots and exit proofs come from the same claim with each proof rooted at the matching exit root, and the rollup claim's leaf root is CalculateRoot(BridgeExit.Hash(), ProofLocalExitRoot, LeafIndex) of the same exit; C09-count — every store of L1InfoTreeLeafCount in the aggsender is r.Index+1 paired with r.Hash of the same root object, or a copy of both from one stored header, and the certificate copies it from the parameters whose root is the one proofs are built against; C09-leafhash — the syncer's and the Agglayer-side leaf hashes have the contract's layout keccak(ger‖parent hash‖BE64 timestamp) and agree under the field correspondence; C09-ger — the three GER computations are keccak(mainnet‖rollup) in that order, verifyClaimGERs rejects a mismatch and gates VerifyBuildParams. Not decided: that the proof obtained verifies (C08 decides orientation only) and that the finalized root is the latest. Added after round 7: C09-calldata (shared with C20-abi/C20-match), C09-immutable (synced claims are not modified, shared with C01). Added after round 8: C09-record (shared with C02-store) and C09-wire (shared with C10-wire).",
		Rules: []Rule{
			{ID: "C09-calldata", Floor: 24, Run: shared("C09-calldata", c20ABI, c20Match), Text: "(shared with C20-abi/C20-match) the proofs stored with a claim come from the call whose full global index equals the event's"},
			{ID: "C09-immutable", Floor: 2, Run: shared("C09-immutable", c01Immutable), Text: "(shared with C01-immutable) synced claims are not modified after the downloader built them"},
			{ID: "C09-record", Floor: 10, Run: shared("C09-record", c02Store), Text: "(shared with C02-store) the stored header keeps root and leaf count of the certificate that was sent: a retry from the stored proof names the same pair"},
			{ID: "C09-wire", Floor: 40, Run: shared("C09-wire", c10Wire, c10WireUnconditional), Text: "(shared with C10-wire) the L1 leaf and proofs reach the Agglayer in the slots they were built for"},
			{ID: "C09-root", Floor: 26, Run: c09Root, Text: "[PROV]+[FIELDMAP]+[DOM] claim data literals of both kinds"},
			{ID: "C09-count", Floor: 4, Run: c09Count, Text: "[PROV] leaf count and root from one object; certificate copies from params"},
			{ID: "C09-until", Floor: 3, Run: shared("C09-until", c15Until), Text: "(shared with C15-until) 'latest info until block n' = last leaf in chain order with block_num <= n"},
			{ID: "C09-exit", Floor: 11, Run: shared("C09-exit", c03LeafAgree), Text: "(shared with C03-leaf-agree) the claimed exit hashes to the deposited leaf (metadata hashing included)"},
			{ID: "C09-finalized", Floor: 6, Run: c09Finalized, Text: "[DOM]+[PROV]+[WHO] finalized-root selection cross-checks the block hash; root/leaf chain; querier objects are stateless"},
			{ID: "C09-leafhash", Floor: 3, Run: c09LeafHash, Text: "[LAYOUT] L1 info leaf hash: contract layout and sibling agreement"},
			{ID: "C09-ger", Floor: 6, Run: c09GER, Text: "[LAYOUT]+[DOM] GER = keccak(mainnet‖rollup) at every site; mismatch rejected"},
		},
	})
}
