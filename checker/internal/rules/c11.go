package rules

import (
	"fmt"
	"go/token"
	"sort"
	"strings"

	"golang.org/x/tools/go/ssa"

	"verif/checker/internal/core"
)

// sigGlobals reads `name = crypto.Keccak256Hash([]byte("Event(types)"))` from a package initialiser.
func sigGlobals(c *core.Ctx, pkg string) map[string]string {
	out := map[string]string{}
	sp := c.SSA[core.P(pkg)]
	if sp == nil {
		return out
	}
	sx := core.NewSymx()
	if initFn := sp.Func("init"); initFn != nil {
		core.Instrs(initFn, func(i ssa.Instruction) {
			st, ok := i.(*ssa.Store)
			if !ok {
				return
			}
			g, ok := st.Addr.(*ssa.Global)
			if !ok {
				return
			}
			t := sx.Of(st.Val).String()
			if strings.HasPrefix(t, "github.com/ethereum/go-ethereum/crypto.Keccak256Hash(") {
				if a := strings.Index(t, "const(\""); a >= 0 {
					if b := strings.Index(t[a+7:], "\")"); b >= 0 {
						out[g.Name()] = t[a+7 : a+7+b]
					}
				}
			}
		})
	}
	return out
}

// appenderHandlers maps the signature global used as key of a LogAppenderMap to the handler closure.
func appenderHandlers(fn *ssa.Function) map[string]*ssa.Function {
	out := map[string]*ssa.Function{}
	sx := core.NewSymx()
	core.Instrs(fn, func(i ssa.Instruction) {
		mu, ok := i.(*ssa.MapUpdate)
		if !ok {
			return
		}
		key := sx.Of(mu.Key).String()
		key = key[strings.LastIndex(key, ".")+1:]
		switch v := mu.Value.(type) {
		case *ssa.MakeClosure:
			out[key] = v.Fn.(*ssa.Function)
		case *ssa.Call:
			if b := v.Call.StaticCallee(); b != nil && len(b.AnonFuncs) == 1 {
				out[key] = b.AnonFuncs[0]
			}
		}
	})
	return out
}

func importPathEndingWith(c *core.Ctx, pkg, suffix string) string {
	p := c.Pkg(pkg)
	if p == nil {
		return ""
	}
	for path := range p.Imports {
		if strings.HasSuffix(path, "/"+suffix) {
			return path
		}
	}
	return ""
}

func c11Feed(c *core.Ctx) {
	const rule = "C11-feed"
	sx := core.NewSymx()
	ba := c.MustFn(rule, "l1infotreesync", "", "buildAppender")
	if ba == nil {
		return
	}
	sigs := sigGlobals(c, "l1infotreesync")
	handlers := appenderHandlers(ba)
	type hspec struct {
		global, parser, binding, evType string
		fields                          map[string]string // event field -> source ("P." = parsed log, else literal)
	}
	specs := []hspec{
		{"updateL1InfoTreeSignatureV1", "ParseUpdateL1InfoTree", "polygonzkevmglobalexitrootv2", "l1infotreesync.UpdateL1InfoTree", map[string]string{
			"MainnetExitRoot": "P.MainnetExitRoot", "RollupExitRoot": "P.RollupExitRoot", "ParentHash": "b.EVMBlockHeader.ParentHash", "Timestamp": "b.EVMBlockHeader.Timestamp", "BlockPosition": "conv:uint64(l.Index)"}},
		{"updateL1InfoTreeSignatureV2", "ParseUpdateL1InfoTreeV2", "polygonzkevmglobalexitrootv2", "l1infotreesync.UpdateL1InfoTreeV2", map[string]string{
			"CurrentL1InfoRoot": "P.CurrentL1InfoRoot", "LeafCount": "P.LeafCount", "MinTimestamp": "P.MinTimestamp"}},
		{"initL1InfoRootMapSignature", "ParseInitL1InfoRootMap", "polygonzkevmglobalexitrootv2", "l1infotreesync.InitL1InfoRootMap", map[string]string{
			"LeafCount": "P.LeafCount", "CurrentL1InfoRoot": "P.CurrentL1InfoRoot"}},
		{"verifyBatchesSignature", "ParseVerifyBatches", "polygonrollupmanager", "l1infotreesync.VerifyBatches", map[string]string{
			"RollupID": "P.RollupID", "NumBatch": "P.NumBatch", "StateRoot": "P.StateRoot", "ExitRoot": "P.ExitRoot", "Aggregator": "P.Aggregator", "BlockPosition": "conv:uint64(l.Index)"}},
		{"verifyBatchesTrustedAggregatorSignature", "ParseVerifyBatchesTrustedAggregator", "polygonrollupmanager", "l1infotreesync.VerifyBatches", map[string]string{
			"RollupID": "P.RollupID", "NumBatch": "P.NumBatch", "StateRoot": "P.StateRoot", "ExitRoot": "P.ExitRoot", "Aggregator": "P.Aggregator", "BlockPosition": "conv:uint64(l.Index)"}},
	}
	abis := map[string]map[string]bool{}
	for _, s := range specs {
		construct := "l1infotreesync.buildAppender[" + s.global + "]"
		if _, ok := abis[s.binding]; !ok {
			abis[s.binding] = map[string]bool{}
			if path := importPathEndingWith(c, "l1infotreesync", s.binding); path != "" {
				if abi, err := c.BindingABI(path); err == nil {
					for _, e := range abi {
						if e.Type == "event" {
							abis[s.binding][e.Signature()] = true
						}
					}
				}
			}
		}
		sig := sigs[s.global]
		ev := strings.TrimPrefix(s.parser, "Parse")
		c.Decide(abis[s.binding][sig] && strings.HasPrefix(sig, ev+"("), rule, construct+"#topic", ba.Pos(), fmt.Sprintf("topic %q is the ABI signature of event %s in %s", sig, ev, s.binding))
		cl := handlers[s.global]
		if cl == nil {
			c.Violate(rule, construct+"#handler", ba.Pos(), "no handler registered for this topic")
			continue
		}
		// parsed log
		var parsed ssa.Value
		core.Instrs(cl, func(i ssa.Instruction) {
			if call, ok := i.(*ssa.Call); ok && strings.HasSuffix(core.CallName(call), ")."+s.parser) {
				parsed = core.ExtractOf(call, 0)
			}
		})
		if parsed == nil {
			c.Violate(rule, construct+"#handler", cl.Pos(), "handler does not parse the log with "+s.parser)
			continue
		}
		sb := core.NewSymx().Bind(parsed, "P")
		als := allocsOfType(cl, s.evType)
		if len(als) != 1 {
			c.Undecide(rule, construct+"#event", cl.Pos(), fmt.Sprintf("expected one %s literal, found %d", s.evType, len(als)))
			continue
		}
		lit := sb.Of(als[0])
		keys := make([]string, 0, len(s.fields))
		for k := range s.fields {
			keys = append(keys, k)
		}
		sort.Strings(keys)
		for _, k := range keys {
			got := "<unset>"
			if lit.Fields[k] != nil {
				got = lit.Fields[k].String()
			}
			c.Decide(got == s.fields[k], rule, construct+"#event."+k, als[0].Pos(), k+" ← "+got)
		}
		handlerEmits(c, rule, construct, cl)
	}
	// ProcessBlock: the leaf built from the event
	pb := c.MustFn(rule, "l1infotreesync", "processor", "ProcessBlock")
	if pb == nil {
		return
	}
	als := allocsOfType(pb, "l1infotreesync.L1InfoTreeLeaf")
	if len(als) != 1 {
		c.Undecide(rule, "l1infotreesync.(*processor).ProcessBlock#leaf", pb.Pos(), "leaf literal not found")
		return
	}
	info := als[0]
	norm := func(s string) string { return strings.ReplaceAll(s, "block.Events"+rangeElemIdx+"#0", "EVENT") }
	lit := sx.Of(info)
	want := map[string]string{
		"BlockNumber": "block.Num", "BlockPosition": "EVENT.UpdateL1InfoTree.BlockPosition", "PreviousBlockHash": "EVENT.UpdateL1InfoTree.ParentHash",
		"Timestamp": "EVENT.UpdateL1InfoTree.Timestamp", "MainnetExitRoot": "EVENT.UpdateL1InfoTree.MainnetExitRoot", "RollupExitRoot": "EVENT.UpdateL1InfoTree.RollupExitRoot",
	}
	for k, w := range want {
		got := "<unset>"
		if lit.Fields[k] != nil {
			got = norm(lit.Fields[k].String())
		}
		c.Decide(got == w, rule, "l1infotreesync.(*processor).ProcessBlock#leaf."+k, info.Pos(), k+" ← "+got)
	}
	sb := core.NewSymx().Bind(info, "INFO")
	var insert, add *ssa.Call
	var stGER, stHash *ssa.Store
	core.Instrs(pb, func(i ssa.Instruction) {
		switch x := i.(type) {
		case *ssa.Call:
			switch core.CallName(x) {
			case "github.com/russross/meddler.Insert":
				if sb.Of(x.Call.Args[2]).String() == "INFO" {
					insert = x
				}
			case "(*tree.AppendOnlyTree).AddLeaf":
				add = x
			}
		case *ssa.Store:
			a, v := sb.Of(x.Addr).String(), sb.Of(x.Val).String()
			if a == "INFO.GlobalExitRoot" && v == "(*l1infotreesync.L1InfoTreeLeaf).GetGlobalExitRoot(INFO)" {
				stGER = x
			}
			if a == "INFO.Hash" && v == "(*l1infotreesync.L1InfoTreeLeaf).GetHash(INFO)" {
				stHash = x
			}
		}
	})
	ok := insert != nil && add != nil && stGER != nil && stHash != nil
	if ok {
		ok = core.Dominates(stGER, insert) && core.Dominates(stHash, insert) && core.Dominates(stHash, add)
	}
	c.Decide(ok, rule, "l1infotreesync.(*processor).ProcessBlock#computed-before-stored", info.Pos(), "GlobalExitRoot and Hash are computed from the same leaf object before it is inserted and appended")
	if add != nil {
		leaf := sb.Of(add.Call.Args[4])
		okLeaf := leaf.Op == "lit" && leaf.Fields["Index"] != nil && leaf.Fields["Index"].String() == "INFO.L1InfoTreeIndex" && leaf.Fields["Hash"] != nil && leaf.Fields["Hash"].String() == "INFO.Hash"
		okPos := sb.Of(add.Call.Args[0]).String() == "p.l1InfoTree" && sb.Of(add.Call.Args[2]).String() == "INFO.BlockNumber" && sb.Of(add.Call.Args[3]).String() == "INFO.BlockPosition"
		c.Decide(okLeaf && okPos, rule, "l1infotreesync.(*processor).ProcessBlock#addleaf", add.Pos(), "AddLeaf(tx, info.BlockNumber, info.BlockPosition, {Index: info.L1InfoTreeIndex, Hash: info.Hash}) on the L1 info tree: "+leaf.String())
	}
}

func c11Index(c *core.Ctx) {
	const rule = "C11-index"
	pb := c.MustFn(rule, "l1infotreesync", "processor", "ProcessBlock")
	if pb == nil {
		return
	}
	als := allocsOfType(pb, "l1infotreesync.L1InfoTreeLeaf")
	if len(als) != 1 {
		return
	}
	sx := core.NewSymx()
	lit := sx.Of(als[0])
	idx := lit.Fields["L1InfoTreeIndex"]
	if idx == nil || idx.Val == nil {
		c.Violate(rule, "l1infotreesync.(*processor).ProcessBlock#index", als[0].Pos(), "leaf index not assigned")
		return
	}
	// two written forms: index = initial + per-block counter (counter from 0), or one running counter that starts at the
	// initial index and is stepped after every stored leaf
	var counter *ssa.Phi
	var initLeaves []phiLeaf
	isStep := func(v ssa.Value, ctr *ssa.Phi) bool {
		b, ok := v.(*ssa.BinOp)
		if !ok || b.Op != token.ADD {
			return false
		}
		k, isC := core.ConstInt(b.Y)
		if !isC || k != 1 {
			return false
		}
		for _, e := range flattenPhi(b.X) {
			if e == ssa.Value(ctr) {
				return true
			}
		}
		return b.X == ssa.Value(ctr)
	}
	if bo, ok := idx.Val.(*ssa.BinOp); ok && bo.Op == token.ADD {
		for _, pair := range [][2]ssa.Value{{bo.X, bo.Y}, {bo.Y, bo.X}} {
			if p, ok := pair[0].(*ssa.Phi); ok {
				for _, e := range p.Edges {
					if k, ok := core.ConstInt(e); ok && k == 0 {
						counter = p
						initLeaves = phiLeaves(pair[1])
					}
				}
			}
		}
	} else if p, ok := idx.Val.(*ssa.Phi); ok {
		counter = p
		for _, lf := range phiLeaves(p) {
			if !isStep(lf.val, p) {
				initLeaves = append(initLeaves, lf)
			}
		}
	}
	if counter == nil {
		c.Violate(rule, "l1infotreesync.(*processor).ProcessBlock#index", als[0].Pos(), "leaf index is neither initial + added nor a running counter: "+idx.String())
		return
	}
	// initial = getLastIndex()+1, or 0 on ErrNotFound (placeholders that only travel with an error are ignored)
	var gl *ssa.Call
	core.Instrs(pb, func(i ssa.Instruction) {
		if core.IsCallTo(i, "(*l1infotreesync.processor).getLastIndex") {
			gl, _ = i.(*ssa.Call)
		}
	})
	alts := map[string]bool{}
	okZero := gl != nil
	var nf []core.IfEdge
	if gl != nil {
		sb := core.NewSymx().Bind(core.ExtractOf(gl, 1), "ERR")
		nf = core.TermEdges(pb, sb, func(s string, _ *core.Term) bool { return s == "errors.Is(ERR, db.ErrNotFound)" }, true)
	}
	isLeafStore := func(x ssa.Instruction) bool { return x == ssa.Instruction(als[0]) }
	for _, lf := range initLeaves {
		if lf.phi != nil && !core.PhiEdgeReaches(lf.phi, lf.idx, isLeafStore) {
			continue
		}
		t := sx.Of(lf.val).String()
		alts[t] = true
		if v, isC := core.ConstInt(lf.val); isC && v == 0 {
			if lf.phi == nil {
				okZero = false
				continue
			}
			pred := lf.phi.Block().Preds[lf.idx]
			si := 0
			for j, sc := range pred.Succs {
				if sc == lf.phi.Block() {
					si = j
				}
			}
			okZero = okZero && core.RetCase{Pred: pred, Succ: si}.ReachableOnlyVia(pb, nf)
		}
	}
	okInit := len(alts) == 2 && alts["const(0)"] && alts["((*l1infotreesync.processor).getLastIndex(p, db.NewTx(ctx, p.db)#0)#0 + const(1))"]
	c.Decide(okInit, rule, "l1infotreesync.(*processor).ProcessBlock#initial-index", als[0].Pos(), fmt.Sprintf("initial index = last stored index + 1, or 0 when nothing is stored: %v", alts))
	c.Decide(okZero && len(nf) > 0, rule, "l1infotreesync.(*processor).ProcessBlock#zero-only-when-empty", als[0].Pos(), "index 0 is used only when getLastIndex reported not found (other errors abort)")
	// counter increments by one, only after AddLeaf returned nil
	var add *ssa.Call
	core.Instrs(pb, func(i ssa.Instruction) {
		if core.IsCallTo(i, "(*tree.AppendOnlyTree).AddLeaf") {
			add, _ = i.(*ssa.Call)
		}
	})
	okInc := false
	var inc *ssa.BinOp
	core.Instrs(pb, func(i ssa.Instruction) {
		if b, ok := i.(*ssa.BinOp); ok && isStep(b, counter) {
			inc = b
		}
	})
	if inc != nil && add != nil {
		nilE := core.NilEdgesRes(pb, add, true)
		okInc = len(nilE) > 0 && core.ReachableWithout(core.Entry(pb), nilE, func(i ssa.Instruction) bool { return i == ssa.Instruction(inc) }) == nil
		// and every increment feeds the counter back
		fed := false
		for _, e := range flattenPhi(counter) {
			if e == ssa.Value(inc) {
				fed = true
			}
		}
		okInc = okInc && fed
	}
	c.Decide(okInc, rule, "l1infotreesync.(*processor).ProcessBlock#counter", als[0].Pos(), "the per-block counter grows by exactly one, only after AddLeaf succeeded")
}

func c11V2(c *core.Ctx) {
	const rule = "C11-v2"
	pb := c.MustFn(rule, "l1infotreesync", "processor", "ProcessBlock")
	pi := newProcInfo(c, "l1infotreesync")
	if pb == nil || pi == nil {
		return
	}
	sx := core.NewSymx()
	norm := func(s string) string { return strings.ReplaceAll(s, "block.Events"+rangeElemIdx+"#0", "EVENT") }
	root := "(*tree.Tree).GetLastRoot(p.l1InfoTree.Tree, db.NewTx(ctx, p.db)#0)#0"
	hashNeq := core.TermEdges(pb, sx, func(s string, _ *core.Term) bool {
		s = norm(s)
		return s == "("+root+".Hash != EVENT.UpdateL1InfoTreeV2.CurrentL1InfoRoot)" || s == "(EVENT.UpdateL1InfoTreeV2.CurrentL1InfoRoot != "+root+".Hash)"
	}, true)
	cntNeq := core.TermEdges(pb, sx, func(s string, _ *core.Term) bool {
		s = norm(s)
		return s == "(("+root+".Index + const(1)) != EVENT.UpdateL1InfoTreeV2.LeafCount)" || s == "(EVENT.UpdateL1InfoTreeV2.LeafCount != ("+root+".Index + const(1)))"
	}, true)
	isLatch := func(i ssa.Instruction) bool {
		st, ok := i.(*ssa.Store)
		if !ok || !isConstBool(st.Val, true) {
			return false
		}
		fa, ok := st.Addr.(*ssa.FieldAddr)
		return ok && pi.fieldOf(fa) == pi.halted
	}
	for _, e := range []struct {
		name  string
		edges []core.IfEdge
	}{{"root-hash-mismatch", hashNeq}, {"leaf-count-mismatch", cntNeq}} {
		if len(e.edges) == 0 {
			c.Violate(rule, "l1infotreesync.(*processor).ProcessBlock#"+e.name, pb.Pos(), "the announced root / leaf count is no longer compared with the tree's last root (Index+1)")
			continue
		}
		ok := true
		for _, ed := range e.edges {
			start := core.Point{B: ed.B.Succs[ed.Succ], I: 0}
			esc := (&core.Walk{Stop: isLatch, Target: func(i ssa.Instruction) bool {
				if core.IsExit(i) {
					return true
				}
				return sqlWriteOf(i) != nil
			}}).From(start, nil)
			if esc != nil {
				ok = false
			}
		}
		c.Decide(ok, rule, "l1infotreesync.(*processor).ProcessBlock#"+e.name, e.edges[0].If.Pos(), "a mismatch always latches halted=true before anything else happens")
	}
}

func c11Rollup(c *core.Ctx) {
	const rule = "C11-rollup"
	fn := c.MustFn(rule, "l1infotreesync", "processor", "processVerifyBatches")
	if fn == nil {
		return
	}
	sx := core.NewSymx()
	var up, ins *ssa.Call
	var allIns []*ssa.Call
	core.Instrs(fn, func(i ssa.Instruction) {
		if call, ok := i.(*ssa.Call); ok {
			switch core.CallName(call) {
			case "(*tree.UpdatableTree).UpsertLeaf":
				up = call
			case "github.com/russross/meddler.Insert":
				ins = call
				allIns = append(allIns, call)
			}
		}
	})
	if up == nil || ins == nil {
		c.Violate(rule, "l1infotreesync.(*processor).processVerifyBatches#shape", fn.Pos(), "expected UpsertLeaf followed by the verify_batches insert")
		return
	}
	leaf := sx.Of(up.Call.Args[4])
	okLeaf := leaf.Op == "lit" && leaf.Fields["Index"] != nil && leaf.Fields["Index"].String() == "(event.RollupID - const(1))" && leaf.Fields["Hash"] != nil && leaf.Fields["Hash"].String() == "event.ExitRoot"
	okArgs := sx.Of(up.Call.Args[0]).String() == "p.rollupExitTree" && sx.Of(up.Call.Args[1]).String() == "tx" && sx.Of(up.Call.Args[2]).String() == "blockNumber" && sx.Of(up.Call.Args[3]).String() == "event.BlockPosition"
	c.Decide(okLeaf && okArgs, rule, "l1infotreesync.(*processor).processVerifyBatches#upsert-args", up.Pos(), "UpsertLeaf(tx, blockNumber, event.BlockPosition, {Index: RollupID-1, Hash: ExitRoot}): "+leaf.String())
	// only for a non-zero, changed exit root
	nonZero := core.TermEdges(fn, sx, func(s string, _ *core.Term) bool {
		return s == "(event.ExitRoot == const(zero:github.com/ethereum/go-ethereum/common.Hash))" || strings.HasPrefix(s, "(event.ExitRoot == ")
	}, false)
	var isNew *ssa.Call
	core.Instrs(fn, func(i ssa.Instruction) {
		if core.IsCallTo(i, "(*l1infotreesync.processor).isNewValueForRollupExitTree") {
			isNew, _ = i.(*ssa.Call)
		}
	})
	okGuard := len(nonZero) > 0 && core.ReachableWithout(core.Entry(fn), nonZero, func(i ssa.Instruction) bool { return i == ssa.Instruction(up) }) == nil
	if isNew != nil {
		newE := core.BoolEdges(fn, core.ExtractOf(isNew, 0), true)
		okGuard = okGuard && len(newE) > 0 && core.ReachableWithout(core.Entry(fn), newE, func(i ssa.Instruction) bool { return i == ssa.Instruction(up) }) == nil &&
			sx.Of(isNew.Call.Args[1]).String() == "tx" && sx.Of(isNew.Call.Args[2]).String() == "event"
	} else {
		// the comparison was folded into processVerifyBatches (directly, or through a helper that [INLINE] expanded)
		okGuard = okGuard && c11ChangedInPlace(fn, sx, up)
	}
	c.Decide(okGuard, rule, "l1infotreesync.(*processor).processVerifyBatches#only-nonzero-changed", up.Pos(), "the tree is updated only for a non-zero exit root that differs from the stored leaf")
	// the root recorded is the one returned by the update; row inserted on the tx
	newRoot := core.ExtractOf(up, 0)
	okRow := false
	core.Instrs(fn, func(i ssa.Instruction) {
		if st, ok := i.(*ssa.Store); ok && strings.HasSuffix(sx.Of(st.Addr).String(), ".RollupExitRoot") && st.Val == newRoot {
			// every row written (there is one insert; a second one for "unchanged" events would record a zero root that the
			// index search then resolves to an early leaf)
			okRow = true
			for _, in := range allIns {
				okRow = okRow && core.Dominates(st, in)
			}
		}
	})
	tbl, _ := core.ConstString(ins.Call.Args[1])
	c.Decide(okRow && tbl == "verify_batches" && sx.Of(ins.Call.Args[0]).String() == "tx", rule, "l1infotreesync.(*processor).processVerifyBatches#row-root", ins.Pos(), "the row stores the root returned by UpsertLeaf and is inserted on the tx")
	// isNewValueForRollupExitTree compares the stored leaf of the same rollup under the last root
	if isNew == nil {
		okRead := false
		core.Instrs(fn, func(i ssa.Instruction) {
			if call, ok := i.(*ssa.Call); ok && core.CallName(call) == "(*tree.Tree).GetLeaf" {
				okRead = sx.Of(call).String() == "(*tree.Tree).GetLeaf(p.rollupExitTree.Tree, tx, (event.RollupID - const(1)), (*tree.Tree).GetLastRoot(p.rollupExitTree.Tree, tx)#0.Hash)"
			}
		})
		c.Decide(okRead, rule, "l1infotreesync.(*processor).processVerifyBatches#compare", fn.Pos(), "the stored value compared is leaf(RollupID-1) under the last root")
		return
	}
	nv := c.MustFn(rule, "l1infotreesync", "processor", "isNewValueForRollupExitTree")
	if nv != nil {
		okCmp := false
		const wantCmp = "((*tree.Tree).GetLeaf(p.rollupExitTree.Tree, tx, (event.RollupID - const(1)), (*tree.Tree).GetLastRoot(p.rollupExitTree.Tree, tx)#0.Hash)#0 != event.ExitRoot)"
		for _, rc := range core.ReturnCases(nv) {
			s := sx.Of(rc.Values[0]).String()
			if s == wantCmp {
				okCmp = true
			}
		}
		if !okCmp {
			// the stored leaf reaches the comparison through result temporaries of an expanded lookup helper: placeholders
			// that travel with "not found" / an error never reach it
			core.Instrs(nv, func(i ssa.Instruction) {
				bo, isB := i.(*ssa.BinOp)
				if !isB || bo.Op != token.NEQ {
					return
				}
				sl := core.NewSymx()
				bindLivePhis(sl, nv, bo)
				if sl.Of(bo).String() == wantCmp {
					// and the result is that comparison whenever the leaf was found: every other return case is a constant
					all := true
					for _, rc := range core.ReturnCases(nv) {
						if len(rc.Values) == 2 && isNilConst(rc.Values[1]) && rc.Values[0] != ssa.Value(bo) && !isConstBool(rc.Values[0], true) {
							all = false
						}
					}
					okCmp = all
				}
			})
		}
		c.Decide(okCmp, rule, "l1infotreesync.(*processor).isNewValueForRollupExitTree#compare", nv.Pos(), "new ⇔ leaf(RollupID-1) under the last root != ExitRoot")
	}
}

// c11ChangedInPlace: processVerifyBatches itself reads the stored leaf — GetLeaf(RollupID-1) under the hash of
// GetLastRoot — and UpsertLeaf is reachable only (a) past "GetLastRoot: not found", (b) past "GetLeaf: not found", or
// (c) past a comparison of that stored leaf with event.ExitRoot that came out "different" (the operands of the
// comparison are resolved along the path, so a leaf that travelled through result temporaries / Phis is recognised).
func c11ChangedInPlace(fn *ssa.Function, sx *core.Symx, up *ssa.Call) bool {
	var getLeaf, lastRoot *ssa.Call
	n := 0
	core.Instrs(fn, func(i ssa.Instruction) {
		call, ok := i.(*ssa.Call)
		if !ok {
			return
		}
		switch core.CallName(call) {
		case "(*tree.Tree).GetLeaf":
			getLeaf = call
			n++
		case "(*tree.Tree).GetLastRoot":
			lastRoot = call
		}
	})
	if getLeaf == nil || lastRoot == nil || n != 1 {
		return false
	}
	if sx.Of(getLeaf).String() != "(*tree.Tree).GetLeaf(p.rollupExitTree.Tree, tx, (event.RollupID - const(1)), (*tree.Tree).GetLastRoot(p.rollupExitTree.Tree, tx)#0.Hash)" {
		return false
	}
	isUp := func(i ssa.Instruction) bool { return i == ssa.Instruction(up) }
	notFound := func(call *ssa.Call) []core.IfEdge {
		errV := core.ExtractOf(call, 1)
		return core.IfEdgesWhere(fn, func(v ssa.Value) bool {
			cc, ok := v.(*ssa.Call)
			if !ok || core.CallName(cc) != "errors.Is" || len(cc.Call.Args) != 2 {
				return false
			}
			return sameLeafValue(cc.Call.Args[0], errV) && strings.HasSuffix(sx.Of(cc.Call.Args[1]).String(), "db.ErrNotFound")
		}, true)
	}
	nfRoot, nfLeaf := notFound(lastRoot), notFound(getLeaf)
	if len(nfRoot) == 0 || len(nfLeaf) == 0 {
		return false
	}
	// (a) without the stored leaf having been read, only the empty tree leads to the update
	w := &core.Walk{Target: isUp, Stop: func(i ssa.Instruction) bool { return i == ssa.Instruction(getLeaf) }, EdgeOK: core.Forbid(nfRoot)}
	if w.From(core.Entry(fn), nil) != nil {
		return false
	}
	// (b)/(c) after the read
	leafV := core.ExtractOf(getLeaf, 0)
	differs := func(path []int) bool {
		for k := 0; k+1 < len(path); k++ {
			b := fn.Blocks[path[k]]
			iff, ok := b.Instrs[len(b.Instrs)-1].(*ssa.If)
			if !ok || b.Succs[0] == b.Succs[1] {
				continue
			}
			bo, ok := iff.Cond.(*ssa.BinOp)
			if !ok || (bo.Op != token.EQL && bo.Op != token.NEQ) {
				continue
			}
			x, y := core.ResolveOnPath(bo.X, path[:k+1]), core.ResolveOnPath(bo.Y, path[:k+1])
			if !(x == leafV && sx.Of(y).String() == "event.ExitRoot") && !(y == leafV && sx.Of(x).String() == "event.ExitRoot") {
				continue
			}
			tookTrue := b.Succs[0].Index == path[k+1]
			if tookTrue == (bo.Op == token.NEQ) {
				return true
			}
		}
		return false
	}
	w2 := &core.Walk{EdgeOK: core.Forbid(nfLeaf), TargetPath: func(i ssa.Instruction, path []int) bool { return isUp(i) && !differs(path) }}
	return w2.From(core.After(getLeaf), nil) == nil
}

// sameLeafValue: v is x, possibly after travelling through Phis all of whose leaves are x or a nil constant.
func sameLeafValue(v, x ssa.Value) bool {
	if v == x {
		return true
	}
	any := false
	for _, lf := range phiLeaves(v) {
		if lf.val == x {
			any = true
			continue
		}
		if k, ok := lf.val.(*ssa.Const); ok && k.Value == nil {
			continue
		}
		return false
	}
	return any
}

func c11Lookup(c *core.Ctx) {
	const rule = "C11-lookup"
	s, probs := storeSchema(c, "l1infotreesync")
	for _, p := range probs {
		c.Undecide(rule, "l1infotreesync#schema-problem:"+p, token.NoPos, p)
	}
	t := s.Tables["l1info_leaf"]
	c.Decide(t != nil && t.HasUnique("global_exit_root"), rule, "l1infotreesync.l1info_leaf#unique-ger", token.NoPos, "global_exit_root UNIQUE: lookup by GER is a function")
	// the lookups by index / GER select by exactly their argument (statement folded through helpers, see sqlq.go)
	checkOrdered(c, rule, []orderedSpec{
		{"l1infotreesync", "processor", "getInfoByIndexWithTx", "L1INFO_LEAF", "", []string{"POSITION = $1"}, nil, []string{"index"}},
		{"l1infotreesync", "processor", "GetInfoByGlobalExitRoot", "L1INFO_LEAF", "", []string{"GLOBAL_EXIT_ROOT = $1"}, nil, []string{"(github.com/ethereum/go-ethereum/common.Hash).Hex(ger)"}},
	})
}

// orderedQuery parses `SELECT ... FROM t [WHERE conj] ORDER BY k1 d, k2 d LIMIT 1`.
type orderedQuery struct {
	table string
	where []string // conjuncts, normalised
	keys  []string
	dirs  []string
	limit string
}

func parseOrdered(stmt string) *orderedQuery {
	tk := sqlTokensUpper(stmt)
	q := &orderedQuery{}
	i := 0
	for ; i < len(tk) && tk[i] != "FROM"; i++ {
	}
	if i+1 >= len(tk) {
		return nil
	}
	q.table = tk[i+1]
	i += 2
	if i < len(tk) && tk[i] == "WHERE" {
		i++
		var cur []string
		for ; i < len(tk) && tk[i] != "ORDER" && tk[i] != "LIMIT"; i++ {
			if tk[i] == "AND" {
				q.where = append(q.where, strings.Join(cur, " "))
				cur = nil
				continue
			}
			if tk[i] == "OR" {
				return nil
			}
			cur = append(cur, tk[i])
		}
		if len(cur) > 0 {
			q.where = append(q.where, strings.Join(cur, " "))
		}
		sort.Strings(q.where)
	}
	if i+1 < len(tk) && tk[i] == "ORDER" && tk[i+1] == "BY" {
		i += 2
		for i < len(tk) && tk[i] != "LIMIT" {
			key := tk[i]
			dir := "ASC"
			i++
			if i < len(tk) && (tk[i] == "ASC" || tk[i] == "DESC") {
				dir = tk[i]
				i++
			}
			q.keys = append(q.keys, key)
			q.dirs = append(q.dirs, dir)
			if i < len(tk) && tk[i] == "," {
				i++
			}
		}
	}
	if i+1 < len(tk) && tk[i] == "LIMIT" {
		q.limit = tk[i+1]
	}
	return q
}

// c11Order: the "first"/"last" accessors of the L1 info tree store mean first/last in chain order.
func c11Order(c *core.Ctx) {
	const rule = "C11-order"
	// chain order: (block_num, block_pos); for the leaf table the leaf index alone is equivalent (C11-index)
	leaf := [][]string{{"BLOCK_NUM", "BLOCK_POS"}, {"POSITION"}}
	vb := [][]string{{"BLOCK_NUM", "BLOCK_POS"}}
	p := "l1infotreesync"
	checkOrdered(c, rule, []orderedSpec{
		{p, "processor", "GetLatestInfoUntilBlock", "L1INFO_LEAF", "DESC", []string{"BLOCK_NUM <= $1"}, leaf, []string{"blockNum"}},
		{p, "processor", "getLastIndex", "L1INFO_LEAF", "DESC", nil, leaf, nil},
		{p, "processor", "GetLastInfo", "L1INFO_LEAF", "DESC", nil, leaf, nil},
		{p, "processor", "GetFirstInfo", "L1INFO_LEAF", "ASC", nil, leaf, nil},
		{p, "processor", "GetFirstInfoAfterBlock", "L1INFO_LEAF", "ASC", []string{"BLOCK_NUM >= $1"}, leaf, []string{"blockNum"}},
		{p, "processor", "GetFirstL1InfoWithRollupExitRoot", "L1INFO_LEAF", "ASC", []string{"ROLLUP_EXIT_ROOT = $1"}, leaf, []string{"(github.com/ethereum/go-ethereum/common.Hash).Hex(rollupExitRoot)"}},
		{p, "processor", "GetLastVerifiedBatches", "VERIFY_BATCHES", "DESC", []string{"ROLLUP_ID = $1"}, vb, []string{"rollupID"}},
		{p, "processor", "GetFirstVerifiedBatches", "VERIFY_BATCHES", "ASC", []string{"ROLLUP_ID = $1"}, vb, []string{"rollupID"}},
		{p, "processor", "GetFirstVerifiedBatchesAfterBlock", "VERIFY_BATCHES", "ASC", []string{"BLOCK_NUM >= $2", "ROLLUP_ID = $1"}, vb, []string{"rollupID", "blockNum"}},
	})
}

func init() {
	register(&Property{
		ID:          "C11",
		Level:       "other",
		Explanation: "Decides the structural necessary conditions of 'the L1 info tree and rollup exit tree mirror the L1 contracts': C11-leaf — leaf hash keccak(ger‖parent hash‖BE64 timestamp) and GER keccak(mainnet‖rollup) layouts against the contract (shared engine with C09); C11-feed — each of the five watched topics is the ABI signature (read from the contract bindings) of the event its handler parses, the handler's event literal takes every field from the same-named field of the parsed log (ParentHash/Timestamp from the block header, BlockPosition from the log index), every successful handler return has emitted its event, and ProcessBlock builds the leaf from the event field by field (PreviousBlockHash ← ParentHash), computes GlobalExitRoot and Hash from that same object before it is inserted and appended with {Index: L1InfoTreeIndex, Hash}; C11-index — index = initial + per-block counter, initial = getLastIndex()+1 or 0 only on not-found, counter +1 only after AddLeaf succeeded; C11-v2 — a mismatch of the announced root or of Index+1 with the leaf count always latches the halt before any further write; C11-rollup — UpsertLeaf gets {RollupID-1, ExitRoot} only for a non-zero exit root that differs from the stored leaf of that rollup under the last root, and the row records the root returned by that update; C11-lookup — global_exit_root is UNIQUE and the lookups by index / GER are bound to their argument. C11-order — each first/last accessor of the store (GetLastVerifiedBatches, getLastIndex, GetLatestInfoUntilBlock, GetFirst*…) selects by exactly its arguments and orders by chain position (block_num, block_pos; or the leaf index) in the direction its name says, LIMIT 1. UpsertLeaf's orientation is C08-orient. Not decided: value equality with the contracts for all histories. Added after round 7: C11-schema, C11-bootstrap (shared with C05-bootstrap). Added after round 9: C11-conflate (shared with C05-conflate; the pinned tree has the known finding D3 here too), C11-finality (shared with C06-finality), C11-trees (shared with C04-trees, with Reorg#only-deletes).",
		Rules: []Rule{
			{ID: "C11-schema", Floor: 15, Run: func(c *core.Ctx) { schemaTypesRule(c, "C11-schema", "l1infotreesync", "tree") }, Text: "[SCHEMA-TYPES] integer columns have INTEGER affinity (numeric ORDER BY), big.Int text columns have TEXT affinity, references are not deferred to COMMIT"},
			{ID: "C11-bootstrap", Floor: 2, Run: shared("C11-bootstrap", c05Bootstrap), Text: "(shared with C05-bootstrap) a fresh store is primed with InitialBlock-1: the events of the initial block are synced"},
			{ID: "C11-leaf", Floor: 6, Run: func(c *core.Ctx) { leafHashRule(c, "C11-leaf"); gerRule(c, "C11-leaf") }, Text: "[LAYOUT] (shared with C09) leaf hash and GER layouts"},
			{ID: "C11-feed", Floor: 40, Run: c11Feed, Text: "ABI topics, handler field maps, emits-or-fails, leaf literal, computed-before-stored, AddLeaf args"},
			{ID: "C11-index", Floor: 3, Run: c11Index, Text: "initial index and per-block counter discipline"},
			{ID: "C11-v2", Floor: 2, Run: c11V2, Text: "[DOM] announced-root / leaf-count mismatch latches the halt"},
			{ID: "C11-rollup", Floor: 4, Run: c11Rollup, Text: "[PROV]+[DOM] rollup exit tree update arguments, guards and recorded root (on every verify_batches insert)"},
			{ID: "C11-lookup", Floor: 3, Run: c11Lookup, Text: "[SCHEMA]+SQL lookups by index and GER"},
			{ID: "C11-order", Floor: 9, Run: c11Order, Text: "SQL: first/last accessors order by chain position, restricted by exactly their arguments"},
			{ID: "C11-conflate", Floor: 4, Run: shared("C11-conflate", c05Conflate), Text: "(shared with C05-conflate) a failed log query is never read as an empty range"},
			{ID: "C11-finality", Floor: 9, Run: shared("C11-finality", c06Finality), Text: "(shared with C06-finality) a block above the finalized one is tracked: the flag is computed per block"},
			{ID: "C11-trees", Floor: 9, Run: shared("C11-trees", c04Trees), Text: "(shared with C04-trees) a rewind only deletes; both trees are rewound"},
			{ID: "C11-tree", Floor: 9, Run: func(c *core.Ctx) { storeRule(c, "C11-tree") }, Text: "(shared with C08-store) every node of an updated path is stored; lookups by key"},
			{ID: "C11-upsert", Floor: 2, Run: func(c *core.Ctx) { treeUpsert(c, "C11-upsert") }, Text: "[TREE] (shared with C08) UpsertLeaf orientation"},
		},
	})
}
