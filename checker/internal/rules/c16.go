package rules

import (
	"fmt"
	"go/token"
	"strings"

	"golang.org/x/tools/go/ssa"

	"verif/checker/internal/core"
)

const gerMgrBinding = "github.com/0xPolygon/cdk-contracts-tooling/contracts/pp/l2-sovereign-chain/globalexitrootmanagerl2sovereignchain"

func c16Cursor(c *core.Ctx) {
	fn := c.MustFn("C16-cursor", "lastgersync", "downloaderPP", "Download")
	if fn != nil {
		cursorRule(c, "C16-cursor", fn, "lastgersync.(*downloaderPP).Download")
	}
}

func c16Store(c *core.Ctx) {
	const rule = "C16-store"
	sx := core.NewSymx()
	h := c.MustFn(rule, "lastgersync", "processor", "handleGEREvent")
	ins := c.MustFn(rule, "lastgersync", "processor", "handleGERInsertion")
	if h == nil || ins == nil {
		return
	}
	// removal: on the IsRemove edge, delete by GER value through the tx
	rmEdges := core.IfEdgesWhere(h, func(v ssa.Value) bool { return sx.Of(v).String() == "event.IsRemove" }, true)
	var del, insCall ssa.Instruction
	core.Instrs(h, func(i ssa.Instruction) {
		if w := sqlWriteOf(i); w != nil {
			del = i
		}
		if core.IsCallTo(i, "(*lastgersync.processor).handleGERInsertion") {
			insCall = i
		}
	})
	if del == nil || insCall == nil || len(rmEdges) == 0 {
		c.Violate(rule, "lastgersync.(*processor).handleGEREvent#dispatch", h.Pos(), "handleGEREvent no longer dispatches on IsRemove between a delete and an insertion")
	} else {
		f1 := core.ReachableWithout(core.Entry(h), rmEdges, func(i ssa.Instruction) bool { return i == del })
		notRm := core.IfEdgesWhere(h, func(v ssa.Value) bool { return sx.Of(v).String() == "event.IsRemove" }, false)
		f2 := core.ReachableWithout(core.Entry(h), notRm, func(i ssa.Instruction) bool { return i == insCall })
		c.Decide(f1 == nil && f2 == nil, rule, "lastgersync.(*processor).handleGEREvent#dispatch", h.Pos(), "delete only when IsRemove, insert only when !IsRemove")
		cc := core.AsCall(del)
		q := sx.Of(cc.Args[0]).String()
		// the statement constant
		stmt := ""
		if g, ok := cc.Args[0].(*ssa.Const); ok {
			stmt, _ = core.ConstString(g)
		}
		_ = q
		argsT := sx.Of(cc.Args[len(cc.Args)-1]).String()
		okStmt := tokensEqual(sqlTokensUpper(stmt), "DELETE", "FROM", "IMPORTED_GLOBAL_EXIT_ROOT", "WHERE", "GLOBAL_EXIT_ROOT", "=", "$1")
		okArg := strings.Contains(argsT, "[const(0)]: (github.com/ethereum/go-ethereum/common.Hash).Hex(event.GlobalExitRoot)}")
		okTx := stripIface(sqlWriteOf(del).handle) == ssa.Value(h.Params[1])
		c.Decide(okStmt && okArg && okTx, rule, "lastgersync.(*processor).handleGEREvent#delete-by-ger", del.Pos(),
			fmt.Sprintf("`DELETE FROM imported_global_exit_root WHERE global_exit_root = $1` bound to event.GlobalExitRoot.Hex() on the tx (stmt ok=%v arg ok=%v tx ok=%v)", okStmt, okArg, okTx))
		ic := core.AsCall(insCall)
		c.Decide(ic.Args[1] == ssa.Value(h.Params[1]) && ic.Args[2] == ssa.Value(h.Params[2]), rule, "lastgersync.(*processor).handleGEREvent#insert-args", insCall.Pos(), "insertion receives the same tx and event")
	}
	// insertion: field map into the row
	core.Instrs(ins, func(i ssa.Instruction) {
		w := sqlWriteOf(i)
		if w == nil {
			return
		}
		cc := core.AsCall(i)
		tbl, _ := core.ConstString(cc.Args[1])
		row := sx.Of(cc.Args[2])
		ok := tbl == "imported_global_exit_root" && row.Op == "lit" &&
			row.Fields["GlobalExitRoot"] != nil && row.Fields["GlobalExitRoot"].String() == "gerInfo.GlobalExitRoot" &&
			row.Fields["L1InfoTreeIndex"] != nil && row.Fields["L1InfoTreeIndex"].String() == "gerInfo.L1InfoTreeIndex" &&
			row.Fields["BlockNum"] != nil && row.Fields["BlockNum"].String() == "gerInfo.BlockNum" &&
			stripIface(w.handle) == ssa.Value(ins.Params[1])
		c.Decide(ok, rule, "lastgersync.(*processor).handleGERInsertion#row", i.Pos(), "row ← {GlobalExitRoot, L1InfoTreeIndex, BlockNum} of the event, inserted on the tx: "+row.String())
	})
	// the PP appenders: topic ↔ parser ↔ event kind
	pp := c.MustFn(rule, "lastgersync", "downloaderPP", "buildAppender")
	if pp == nil {
		return
	}
	abi, err := c.BindingABI(gerMgrBinding)
	if err != nil {
		c.Undecide(rule, "lastgersync.buildAppender#abi", pp.Pos(), "cannot read the L2 GER manager ABI: "+err.Error())
		return
	}
	events := map[string]bool{}
	for _, e := range abi {
		if e.Type == "event" {
			events[e.Signature()] = true
		}
	}
	// signature globals: Keccak256Hash([]byte("<sig>")) in the package initialiser
	sigOf := map[string]string{}
	if initFn := c.SSA[core.P("lastgersync")].Func("init"); initFn != nil {
		core.Instrs(initFn, func(i ssa.Instruction) {
			st, ok := i.(*ssa.Store)
			if !ok {
				return
			}
			g, ok := st.Addr.(*ssa.Global)
			if !ok {
				return
			}
			t := sx.Of(st.Val).String()
			if strings.HasPrefix(t, "github.com/ethereum/go-ethereum/crypto.Keccak256Hash(") {
				if a := strings.Index(t, "const(\""); a >= 0 {
					b := strings.Index(t[a+7:], "\")")
					if b >= 0 {
						sigOf[g.Name()] = t[a+7 : a+7+b]
					}
				}
			}
		})
	}
	type want struct {
		global, parser, gerField string
		isRemove                 bool
	}
	wants := []want{
		{"insertGEREventSignature", "ParseUpdateHashChainValue", "NewGlobalExitRoot", false},
		{"removeGEREventSignature", "ParseUpdateRemovalHashChainValue", "RemovedGlobalExitRoot", true},
	}
	for _, w := range wants {
		construct := "lastgersync.(*downloaderPP).buildAppender#" + w.global
		sig := sigOf[w.global]
		evName := strings.TrimPrefix(w.parser, "Parse")
		if !events[sig] || !strings.HasPrefix(sig, evName+"(") {
			c.Violate(rule, construct+"#topic", pp.Pos(), fmt.Sprintf("topic constant %q is not the ABI signature of event %s", sig, evName))
			continue
		}
		c.Hold(rule, construct+"#topic", "topic is the ABI signature "+sig)
		// find the map update keyed by this global and inspect its closure
		var cl *ssa.Function
		core.Instrs(pp, func(i ssa.Instruction) {
			mu, ok := i.(*ssa.MapUpdate)
			if !ok {
				return
			}
			if sx.Of(mu.Key).String() != "lastgersync."+w.global {
				return
			}
			if mc, ok := mu.Value.(*ssa.MakeClosure); ok {
				cl = mc.Fn.(*ssa.Function)
			}
		})
		if cl == nil {
			c.Violate(rule, construct+"#handler", pp.Pos(), "no handler registered for this topic")
			continue
		}
		usesParser := false
		core.Instrs(cl, func(i ssa.Instruction) {
			if strings.HasSuffix(core.CallName(i), ")."+w.parser) {
				usesParser = true
			}
		})
		// the event written into b.Events
		okEvent := false
		detail := ""
		core.Instrs(cl, func(i ssa.Instruction) {
			st, ok := i.(*ssa.Store)
			if !ok || !strings.HasSuffix(sx.Of(st.Addr).String(), ".Events") {
				return
			}
			t := sx.Of(st.Val)
			s := t.String()
			detail = s
			var ev *core.Term
			t.Walk(func(x *core.Term) {
				if x.Op == "lit" && x.Name == "lastgersync.GEREvent" {
					ev = x
				}
			})
			if ev == nil {
				return
			}
			f := func(n string) string {
				if ev.Fields[n] == nil {
					return "<unset>"
				}
				return ev.Fields[n].String()
			}
			ger := f("GlobalExitRoot")
			okEvent = f("IsRemove") == fmt.Sprintf("const(%v)", w.isRemove) &&
				strings.Contains(ger, ")."+w.parser+"(") && strings.HasSuffix(ger, "#0."+w.gerField) &&
				strings.HasPrefix(f("BlockNum"), "b.") && strings.HasSuffix(f("BlockNum"), ".Num")
			if !w.isRemove {
				okEvent = okEvent && f("L1InfoTreeIndex") == "(lastgersync.L1InfoTreeQuerier).GetInfoByGlobalExitRoot(d.l1InfoTreeSync, "+ger+")#0.L1InfoTreeIndex"
			}
		})
		c.Decide(usesParser && okEvent, rule, construct+"#handler", cl.Pos(), "handler parses the matching event and emits {BlockNum: b.Num, GlobalExitRoot: parsed."+w.gerField+fmt.Sprintf(", IsRemove: %v}", w.isRemove)+": "+detail)
	}
}

// stripIface removes interface conversions.
func stripIface(v ssa.Value) ssa.Value {
	for {
		switch x := v.(type) {
		case *ssa.ChangeInterface:
			v = x.X
		case *ssa.MakeInterface:
			v = x.X
		case *ssa.ChangeType:
			v = x.X
		default:
			return v
		}
	}
}

// handlerEmits: a log handler that reports success has appended/assigned its event to b.Events.
func handlerEmits(c *core.Ctx, rule, label string, cl *ssa.Function) {
	sx := core.NewSymx()
	isEmit := func(i ssa.Instruction) bool {
		st, ok := i.(*ssa.Store)
		return ok && strings.HasSuffix(sx.Of(st.Addr).String(), ".Events")
	}
	f := (&core.Walk{Stop: isEmit, Target: func(i ssa.Instruction) bool {
		r, ok := i.(*ssa.Return)
		return ok && len(r.Results) == 1 && isNilConst(r.Results[0])
	}}).From(core.Entry(cl), nil)
	if f != nil {
		c.Violate(rule, label+"#emits-or-fails", f.Instr.Pos(), "the handler returns nil (log handled) on a path that did not store an event into b.Events: the block is recorded without the event and never revisited ("+core.PathStr(f)+")")
	} else {
		c.Hold(rule, label+"#emits-or-fails", "every successful return of the handler has stored its event; failures return an error (the downloader retries)")
	}
}

func c16Handlers(c *core.Ctx) {
	const rule = "C16-handlers"
	pp := c.MustFn(rule, "lastgersync", "downloaderPP", "buildAppender")
	if pp == nil {
		return
	}
	sx := core.NewSymx()
	n := 0
	core.Instrs(pp, func(i ssa.Instruction) {
		mu, ok := i.(*ssa.MapUpdate)
		if !ok {
			return
		}
		if mc, ok := mu.Value.(*ssa.MakeClosure); ok {
			n++
			handlerEmits(c, rule, "lastgersync.(*downloaderPP).buildAppender["+strings.TrimPrefix(sx.Of(mu.Key).String(), "lastgersync.")+"]", mc.Fn.(*ssa.Function))
		}
	})
	if n == 0 {
		c.Undecide(rule, "lastgersync.(*downloaderPP).buildAppender#handlers", pp.Pos(), "no handlers registered")
	}
	// FEP: every candidate GER is looked up on L2 (no early exit from the scan)
	fep := c.MustFn(rule, "lastgersync", "downloaderFEP", "populateGreatestInjectedGER")
	if fep != nil {
		var done []core.IfEdge
		for _, b := range fep.Blocks {
			if iff, ok := b.Instrs[len(b.Instrs)-1].(*ssa.If); ok && sx.Of(iff.Cond).String() == "((loop{const(-1)} + const(1)) < len(gerInfos))" {
				done = append(done, core.IfEdge{B: b, Succ: 1, If: iff})
			}
		}
		f := core.ReachableWithout(core.Entry(fep), done, func(i ssa.Instruction) bool { _, r := i.(*ssa.Return); return r })
		c.Decide(len(done) == 1 && f == nil, rule, "lastgersync.(*downloaderFEP).populateGreatestInjectedGER#scans-all", fep.Pos(), "the scan over candidate GERs ends only when all of them were looked up (the greatest injected one wins)")
	}
}

func c16Query(c *core.Ctx) {
	const rule = "C16-query"
	sx := core.NewSymx()
	fn := c.MustFn(rule, "lastgersync", "processor", "GetFirstGERAfterL1InfoTreeIndex")
	if fn == nil {
		return
	}
	found := false
	core.Instrs(fn, func(i ssa.Instruction) {
		if core.CallName(i) != "github.com/russross/meddler.QueryRow" {
			return
		}
		found = true
		cc := core.AsCall(i)
		q, _ := core.ConstString(cc.Args[2])
		tk := sqlTokensUpper(q)
		join := " " + strings.Join(tk, " ") + " "
		okFrom := strings.Contains(join, " FROM IMPORTED_GLOBAL_EXIT_ROOT ")
		okWhere := strings.Contains(join, " WHERE L1_INFO_TREE_INDEX >= $1 ORDER ")
		okOrder := strings.Contains(join, " ORDER BY L1_INFO_TREE_INDEX ASC LIMIT 1 ") || strings.Contains(join, " ORDER BY L1_INFO_TREE_INDEX LIMIT 1 ")
		okSel := strings.Contains(join, " L1_INFO_TREE_INDEX ") && strings.Contains(join, " GLOBAL_EXIT_ROOT ")
		argsT := sx.Of(cc.Args[3]).String()
		okArg := strings.Contains(argsT, "[const(0)]: l1InfoTreeIndex}")
		c.Decide(okFrom && okWhere && okOrder && okSel && okArg, rule, "lastgersync.(*processor).GetFirstGERAfterL1InfoTreeIndex#statement", i.Pos(),
			fmt.Sprintf("minimum l1_info_tree_index >= $1 bound to the argument (from=%v where=%v order=%v select=%v arg=%v)", okFrom, okWhere, okOrder, okSel, okArg))
	})
	if !found {
		c.Undecide(rule, "lastgersync.(*processor).GetFirstGERAfterL1InfoTreeIndex#statement", fn.Pos(), "no meddler.QueryRow")
	}
	// façade passes the argument through
	f2 := c.MustFn(rule, "lastgersync", "LastGERSync", "GetFirstGERAfterL1InfoTreeIndex")
	if f2 != nil {
		ok := false
		for _, r := range core.Returns(f2) {
			if strings.Contains(sx.Of(r.Results[0]).String(), "GetFirstGERAfterL1InfoTreeIndex(s.processor, ctx, atOrAfterL1InfoTreeIndex)") {
				ok = true
			}
		}
		c.Decide(ok, rule, "lastgersync.(*LastGERSync).GetFirstGERAfterL1InfoTreeIndex#passthrough", f2.Pos(), "façade forwards its argument")
	}
	// one event per block: the table's primary key
	s, probs := storeSchema(c, "lastgersync")
	for _, p := range probs {
		c.Undecide(rule, "lastgersync#schema-problem:"+p, token.NoPos, p)
	}
	if t := s.Tables["imported_global_exit_root"]; t != nil {
		c.Decide(t.HasUnique("block_num"), rule, "lastgersync.imported_global_exit_root#pk", token.NoPos, "PRIMARY KEY(block_num): the declared one-event-per-block assumption")
	} else {
		c.Violate(rule, "lastgersync.imported_global_exit_root#pk", token.NoPos, "table missing")
	}
}

// c16Latest: getLatestL1InfoTreeIndex (where the FEP downloader resumes its scan) is the greatest index recorded.
// c16Stateless: LastGERSync answers every query from the store: none of its fields is written after construction.
func c16Stateless(c *core.Ctx) {
	const rule = "C16-stateless"
	n := c.Named("lastgersync", "LastGERSync")
	if n == nil {
		c.Undecide(rule, "anchor lastgersync.LastGERSync", 0, "type does not resolve")
		return
	}
	var fields []string
	for _, fs := range fieldStoresOf(c, n) {
		fields = append(fields, fs.field+"@"+core.ShortFn(fs.fn))
	}
	c.Decide(len(fields) == 0, rule, "lastgersync.LastGERSync#stateless", 0, fmt.Sprintf("no field of the façade is written after construction (found: %v)", fields))
}

func c16Latest(c *core.Ctx) {
	checkOrdered(c, "C16-latest", []orderedSpec{
		{"lastgersync", "processor", "getLatestL1InfoTreeIndex", "IMPORTED_GLOBAL_EXIT_ROOT", "DESC", nil, [][]string{{"L1_INFO_TREE_INDEX"}}, nil},
	})
}

func init() {
	register(&Property{
		ID:          "C16",
		Level:       "other",
		Explanation: "Decides the structural necessary conditions of the injected-GER index: C16-cursor — the PP downloader's range fetch starts at its loop-carried cursor (start parameter or previous upper bound + 1), never at the freshly observed tip (the pinned tree violated this: fixed by commit 6642a29); C16-store — the ABI signatures of the two watched topics are those of the events their handlers parse (oracle: the ABI embedded in the contract binding), the handlers emit {BlockNum, GlobalExitRoot, L1InfoTreeIndex of the L1 info leaf looked up by that root, IsRemove}, the processor deletes by GER value only for removals and inserts the event's fields otherwise, both on the block's transaction; C16-query — the lookup statement selects the minimum l1_info_tree_index >= $1 bound to the argument; primary key (block_num) states the one-event-per-block assumption. Not decided: the FEP downloader's state polling (reads contract state at 'latest'), and liveness. Added after the sub-agent rounds: C16-latest (resume index = greatest imported index), C16-watch (the PP downloader watches exactly the configured GER manager), C16-stateless (the façade keeps no answers between calls). Added after round 7: C16-fk, C16-tracked, C16-restart (shared with C04-fk, C06-tracked, C05-restart). Added after round 8: C16-notify (shared with C06-notify).",
		Rules: []Rule{
			{ID: "C16-fk", Floor: 4, Run: shared("C16-fk", c04FK), Text: "(shared with C04-fk) foreign keys on every pooled connection: a reorg removes the injected-GER rows of the dropped blocks"},
			{ID: "C16-tracked", Floor: 3, Run: shared("C16-tracked", c06Tracked), Text: "(shared with C06-tracked) a restart does not forget the tracked blocks of the subscriber"},
			{ID: "C16-restart", Floor: 3, Run: shared("C16-restart", c05Restart), Text: "(shared with C05-restart) after a reorg the download restarts behind the last processed block"},
			{ID: "C16-notify", Floor: 9, Run: shared("C16-notify", c06Notify), Text: "(shared with C06-notify) a tracked block is dropped only after its hash was compared with the chain: a reorged injection that was finalized meanwhile is still reported"},
			{ID: "C16-cursor", Floor: 1, Run: c16Cursor, Text: "[CURSOR] lower bound of the PP fetch is the loop-carried cursor"},
			{ID: "C16-store", Floor: 8, Run: c16Store, Text: "[PROV]+[DOM]+ABI: topic/parser agreement, handler field maps, delete-by-GER / insert dispatch on the tx"},
			{ID: "C16-handlers", Floor: 3, Run: c16Handlers, Text: "[DOM] a handler that returns nil has emitted its event; the FEP scan has no early exit"},
			{ID: "C16-tx", Floor: 4, Run: func(c *core.Ctx) {
				if fn := c.MustFn("C16-tx", "lastgersync", "processor", "ProcessBlock"); fn != nil {
					ruleTxErr(c, "C16-tx", fn)
					ruleTxThrough(c, "C16-tx", fn)
				}
			}, Text: "[TX]+[ERR] (shared with C07) GER insert/delete go through the block's tx and their failures abort the block"},
			{ID: "C16-watch", Floor: 1, Run: func(c *core.Ctx) { watchListRule(c, "C16-watch", map[string]bool{"lastgersync.newDownloaderPP": true}) }, Text: "(shared with C05-watch) only events of the configured GER manager are indexed"},
			{ID: "C16-stateless", Floor: 1, Run: c16Stateless, Text: "[WHO] the façade keeps no answers between calls (a cache would survive removals and reorgs)"},
			{ID: "C16-latest", Floor: 1, Run: c16Latest, Text: "SQL: the resume index of the FEP scan is the greatest imported index"},
			{ID: "C16-query", Floor: 3, Run: c16Query, Text: "SQL tokens: min index >= $1; façade pass-through; PK(block_num)"},
		},
	})
}
