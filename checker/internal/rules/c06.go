package rules

import (
	"fmt"
	"go/token"
	"strings"

	"golang.org/x/tools/go/ssa"

	"verif/checker/internal/core"
)

func c06Track(c *core.Ctx) {
	const rule = "C06-track"
	fn := c.MustFn(rule, "sync", "EVMDriver", "handleNewBlock")
	if fn == nil {
		return
	}
	sx := core.NewSymx()
	var tracked []core.IfEdge
	var addCall *ssa.Call
	core.Instrs(fn, func(i ssa.Instruction) {
		if core.IsCallTo(i, "(sync.ReorgDetector).AddBlockToTrack") {
			addCall = i.(*ssa.Call)
		}
	})
	if addCall == nil {
		c.Violate(rule, "sync.(*EVMDriver).handleNewBlock#process-after-track", fn.Pos(), "handleNewBlock no longer registers the block with the reorg detector")
		return
	}
	tracked = append(tracked, core.NilEdgesRes(fn, addCall, true)...)
	// finalized blocks need no tracking
	tracked = append(tracked, core.IfEdgesWhere(fn, func(v ssa.Value) bool {
		s := sx.Of(v).String()
		return strings.HasPrefix(s, "b.") && strings.HasSuffix(s, "IsFinalizedBlock")
	}, true)...)
	f := core.ReachableWithout(core.Entry(fn), tracked, func(i ssa.Instruction) bool {
		return core.IsCallTo(i, "(sync.processorInterface).ProcessBlock")
	})
	if f != nil {
		c.Violate(rule, "sync.(*EVMDriver).handleNewBlock#process-after-track", f.Instr.Pos(), "ProcessBlock is reachable although AddBlockToTrack did not succeed and the block is not finalized: a reorg of this block would go unnoticed ("+core.PathStr(f)+")")
	} else {
		c.Hold(rule, "sync.(*EVMDriver).handleNewBlock#process-after-track", "ProcessBlock only after AddBlockToTrack()==nil or b.IsFinalizedBlock")
	}
	// what is tracked is the delivered block
	args := addCall.Call.Args
	okArgs := len(args) == 4 && strings.HasSuffix(sx.Of(args[1]).String(), "reorgDetectorID") &&
		strings.HasPrefix(sx.Of(args[2]).String(), "b.") && strings.HasSuffix(sx.Of(args[2]).String(), ".Num") &&
		strings.HasPrefix(sx.Of(args[3]).String(), "b.") && strings.HasSuffix(sx.Of(args[3]).String(), ".Hash")
	c.Decide(okArgs, rule, "sync.(*EVMDriver).handleNewBlock#track-args", addCall.Pos(), "AddBlockToTrack(id, b.Num, b.Hash)")
}

func c06Notify(c *core.Ctx) {
	const rule = "C06-notify"
	sx := core.NewSymx()
	// (a) who sends on ReorgedBlock
	nSend := 0
	for _, fn := range c.AllFuncs() {
		core.Instrs(fn, func(i ssa.Instruction) {
			snd, ok := i.(*ssa.Send)
			if !ok {
				return
			}
			if !strings.HasSuffix(sx.Of(snd.Chan).String(), ".ReorgedBlock") {
				return
			}
			nSend++
			okPlace := core.ShortFn(fn) == "(*reorgdetector.ReorgDetector).notifySubscriber"
			okVal := sx.Of(snd.X).String() == "startingBlock.Num"
			c.Decide(okPlace && okVal, rule, "send-ReorgedBlock@"+core.ShortFn(fn), snd.Pos(), "the only send on Subscription.ReorgedBlock is notifySubscriber's, value startingBlock.Num (got "+sx.Of(snd.X).String()+")")
		})
	}
	if nSend == 0 {
		c.Violate(rule, "send-ReorgedBlock", token.NoPos, "nobody notifies subscribers of a reorg")
	}
	// (a') the notifier does not wait for the subscriber while it holds the subscriptions lock: Subscribe needs the write
	// lock, so a subscriber that is created while a notification is pending (start-up after a reorg) would never exist
	if nf := c.MustFn(rule, "reorgdetector", "ReorgDetector", "notifySubscriber"); nf != nil {
		isChanOp := func(i ssa.Instruction) bool {
			switch x := i.(type) {
			case *ssa.Send, *ssa.Select:
				return true
			case *ssa.UnOp:
				return x.Op == token.ARROW
			}
			return false
		}
		held, nLock := false, 0
		core.Instrs(nf, func(i ssa.Instruction) {
			if _, isCall := i.(*ssa.Call); isCall && core.IsCallTo(i, "(*sync.RWMutex).RLock", "(*sync.RWMutex).Lock", "(*sync.Mutex).Lock") {
				nLock++
				w := &core.Walk{NoEnv: true, Target: isChanOp, Stop: func(x ssa.Instruction) bool {
					_, isCall := x.(*ssa.Call) // a deferred unlock releases at the exit, not here
					return isCall && core.IsCallTo(x, "(*sync.RWMutex).RUnlock", "(*sync.RWMutex).Unlock", "(*sync.Mutex).Unlock")
				}}
				if w.From(core.After(i), nil) != nil {
					held = true
				}
			}
		})
		c.Decide(!held, rule, "reorgdetector.(*ReorgDetector).notifySubscriber#no-wait-under-lock", nf.Pos(), fmt.Sprintf("no channel operation between a lock and its unlock (%d lock calls)", nLock))
	}
	// (b) call sites of notifySubscriber
	sites := c.AllCallsTo("(*reorgdetector.ReorgDetector).notifySubscriber")
	if len(sites) != 1 {
		c.Violate(rule, "call-notifySubscriber#count", token.NoPos, fmt.Sprintf("expected exactly one call site of notifySubscriber, found %d", len(sites)))
		return
	}
	cs := sites[0]
	fn := cs.Fn
	c.FuncsSeen[fn.String()] = true
	call := cs.Instr.(*ssa.Call)
	hdrT := sx.Of(call.Call.Args[2])
	hdrS := hdrT.String()
	// newHeader(x.Num, x.Hash) is x again (header has exactly these two fields)
	if hdrT.Op == "call" && hdrT.Name == "reorgdetector.newHeader" && len(hdrT.Args) == 2 {
		a, b := hdrT.Args[0].String(), hdrT.Args[1].String()
		if strings.HasSuffix(a, ".Num") && strings.HasSuffix(b, ".Hash") && strings.TrimSuffix(a, ".Num") == strings.TrimSuffix(b, ".Hash") {
			hdrS = strings.TrimSuffix(a, ".Num")
		}
	}
	isElem := strings.HasPrefix(hdrS, "(*reorgdetector.headersList).getSorted(") && strings.Contains(hdrS, ")[(loop{const(-1)} + const(1))]")
	c.Decide(isElem, rule, "call-notifySubscriber#arg", call.Pos(), "the notified block is the current element of a range over getSorted(): "+hdrS)
	// (c) reachable only on the unequal edge of hdr.Hash == currentHeader(hdr.Num).Hash()
	var neq []core.IfEdge
	var eq []core.IfEdge
	for _, b := range fn.Blocks {
		iff, ok := b.Instrs[len(b.Instrs)-1].(*ssa.If)
		if !ok {
			continue
		}
		v, pos := core.CondOf(iff.Cond)
		bo, ok := v.(*ssa.BinOp)
		if !ok || (bo.Op != token.EQL && bo.Op != token.NEQ) {
			continue
		}
		l, r := sx.Of(bo.X).String(), sx.Of(bo.Y).String()
		isTracked := func(s string) bool { return s == hdrS+".Hash" }
		isCurrent := func(s string) bool {
			return strings.HasPrefix(s, "(*github.com/ethereum/go-ethereum/core/types.Header).Hash(") &&
				strings.Contains(s, "HeaderByNumber(") && strings.Contains(s, hdrS+".Num")
		}
		if !((isTracked(l) && isCurrent(r)) || (isTracked(r) && isCurrent(l))) {
			continue
		}
		eqWhenTrue := (bo.Op == token.EQL) == pos
		es, ns := 1, 0
		if eqWhenTrue {
			es, ns = 0, 1
		}
		eq = append(eq, core.IfEdge{B: b, Succ: es, If: iff})
		neq = append(neq, core.IfEdge{B: b, Succ: ns, If: iff})
	}
	if len(neq) == 0 {
		c.Violate(rule, "detectReorgInTrackedList#hash-compare", fn.Pos(), "no comparison of the tracked hash with the current header's hash for the same block number")
		return
	}
	f := core.ReachableWithout(core.Entry(fn), neq, func(i ssa.Instruction) bool { return i == cs.Instr })
	c.Decide(f == nil, rule, "call-notifySubscriber#only-on-mismatch", call.Pos(), "notification only on the edge tracked hash != current hash")
	// (d) first mismatch only: after notifying, the loop is left
	again := (&core.Walk{Target: func(i ssa.Instruction) bool { return i == cs.Instr }}).From(core.After(cs.Instr), nil)
	c.Decide(again == nil, rule, "call-notifySubscriber#first-mismatch-only", call.Pos(), "after a notification no further notification is reachable in this pass (loop left)")
	// (e) on the equal edge only finalized entries are removed (within the same iteration)
	var loopHead *ssa.BasicBlock
	hdrT.Walk(func(t *core.Term) {
		if t.Op == "loop" && t.Val != nil {
			if ins, ok := t.Val.(ssa.Instruction); ok {
				loopHead = ins.Block()
			}
		}
	})
	for k, e := range eq {
		start := core.Point{B: e.B.Succs[e.Succ], I: 0}
		finalEdges := core.IfEdgesWhere(fn, func(v ssa.Value) bool {
			bo, ok := v.(*ssa.BinOp)
			if !ok {
				return false
			}
			l, r := sx.Of(bo.X).String(), sx.Of(bo.Y).String()
			// the finalized block number itself: no arithmetic on it (`<= finalized+1` would drop a block that can still be reorged)
			plain := func(t string) bool {
				return strings.Contains(t, "lastFinalisedBlock") && !strings.Contains(t, " + ") && !strings.Contains(t, " - ")
			}
			return (bo.Op == token.LEQ && l == hdrS+".Num" && plain(r)) ||
				(bo.Op == token.GEQ && r == hdrS+".Num" && plain(l))
		}, true)
		w := &core.Walk{
			EdgeOK: func(b *ssa.BasicBlock, s int) bool {
				if loopHead != nil && b.Succs[s] == loopHead {
					return false
				}
				return core.Forbid(finalEdges)(b, s)
			},
			Target: func(i ssa.Instruction) bool {
				return core.IsCallTo(i, "(*reorgdetector.headersList).removeRange", "(*reorgdetector.ReorgDetector).removeTrackedBlockRange")
			},
		}
		f := w.From(start, nil)
		c.Decide(f == nil && len(finalEdges) > 0, rule, fmt.Sprintf("detectReorgInTrackedList#equal-edge-removes-only-finalized-%d", k+1), e.If.Pos(), "an unchanged tracked block is dropped only when it is at or below the finalized block")
	}
	// (g) a tracked block is dropped only after its hash was compared with the chain's; (h) on the mismatch edge only
	// after the subscriber was notified (and acknowledged)
	isRemoval := func(i ssa.Instruction) bool {
		return core.IsCallTo(i, "(*reorgdetector.headersList).removeRange", "(*reorgdetector.ReorgDetector).removeTrackedBlockRange")
	}
	both := append(append([]core.IfEdge{}, eq...), neq...)
	f = core.ReachableWithout(core.Entry(fn), both, isRemoval)
	if f != nil {
		c.Violate(rule, "detectReorgInTrackedList#removal-after-comparison", f.Instr.Pos(), "a tracked block is dropped on a path that never compared its hash with the current chain: a reorg of that block goes undetected ("+core.PathStr(f)+")")
	} else {
		c.Hold(rule, "detectReorgInTrackedList#removal-after-comparison", "tracked blocks are dropped only after the hash comparison")
	}
	for k, e := range neq {
		start := core.Point{B: e.B.Succs[e.Succ], I: 0}
		f := (&core.Walk{Stop: func(i ssa.Instruction) bool { return i == cs.Instr }, Target: isRemoval}).From(start, nil)
		c.Decide(f == nil, rule, fmt.Sprintf("detectReorgInTrackedList#notify-before-untrack-%d", k+1), e.If.Pos(), "on a mismatch the tracked range is dropped only after the subscriber was notified and acknowledged (a crash in between keeps the reorg detectable)")
	}
	// (f) getSorted is ascending by Num
	gs := c.MustFn(rule, "reorgdetector", "headersList", "getSorted")
	if gs != nil {
		okSort := false
		for _, a := range gs.AnonFuncs {
			for _, r := range core.Returns(a) {
				if len(r.Results) != 1 {
					continue
				}
				bo, ok := r.Results[0].(*ssa.BinOp)
				if !ok {
					continue
				}
				l, rr := sx.Of(bo.X).String(), sx.Of(bo.Y).String()
				if bo.Op == token.LSS && strings.HasSuffix(l, "[i].Num") && strings.HasSuffix(rr, "[j].Num") {
					okSort = true
				}
				if bo.Op == token.GTR && strings.HasSuffix(l, "[j].Num") && strings.HasSuffix(rr, "[i].Num") {
					okSort = true
				}
			}
		}
		usesSort := len(core.CallsTo(gs, "sort.Slice", "sort.SliceStable")) > 0
		// slices.SortFunc(xs, func(a, b T) int { return cmp.Compare(a.Num, b.Num) })  (also a.Num - b.Num is NOT accepted:
		// it overflows)
		for _, a := range gs.AnonFuncs {
			if len(a.Params) != 2 {
				continue
			}
			for _, r := range core.Returns(a) {
				if len(r.Results) != 1 {
					continue
				}
				call, ok := r.Results[0].(*ssa.Call)
				if !ok || !strings.HasPrefix(core.CallName(call), "cmp.Compare") {
					continue
				}
				l, rr := sx.Of(call.Call.Args[0]).String(), sx.Of(call.Call.Args[1]).String()
				p0, p1 := sx.Of(a.Params[0]).String(), sx.Of(a.Params[1]).String()
				if l == p0+".Num" && rr == p1+".Num" {
					okSort = true
					for _, i := range gs.Blocks {
						for _, ins := range i.Instrs {
							if strings.HasPrefix(core.CallName(ins), "slices.SortFunc") || strings.HasPrefix(core.CallName(ins), "slices.SortStableFunc") {
								usesSort = true
							}
						}
					}
				}
			}
		}
		c.Decide(okSort && usesSort, rule, "reorgdetector.(*headersList).getSorted#ascending", gs.Pos(), "tracked blocks are examined in ascending block order (less = a[i].Num < a[j].Num)")
	}
}

// c06Tracked: who may replace a subscriber's tracked list.
func c06Tracked(c *core.Ctx) {
	const rule = "C06-tracked"
	sx := core.NewSymx()
	n := 0
	// the loader groups the rows of a subscriber by runs (a new list replaces the map entry when the id changes):
	// that is only right when the rows arrive grouped, i.e. ORDER BY subscriber_id
	if gt := c.MustFn(rule, "reorgdetector", "ReorgDetector", "getTrackedBlocks"); gt != nil {
		ordered := false
		nStmts := 0
		for _, st := range orderedStatements(gt) {
			if q := parseOrdered(st); q != nil && q.table == "TRACKED_BLOCK" {
				nStmts++
				ordered = len(q.keys) >= 1 && q.keys[0] == "SUBSCRIBER_ID" && len(q.where) == 0 && q.limit == ""
			}
		}
		replacesPerRun := false
		core.Instrs(gt, func(i ssa.Instruction) {
			if mu, ok := i.(*ssa.MapUpdate); ok && core.InLoop(i) {
				if cl, isCall := mu.Value.(*ssa.Call); isCall && strings.HasSuffix(core.CallName(cl), "newHeadersList") {
					replacesPerRun = true
				}
			}
		})
		c.Decide(nStmts == 1 && (ordered || !replacesPerRun), rule, "reorgdetector.(*ReorgDetector).getTrackedBlocks#grouped", gt.Pos(),
			fmt.Sprintf("every tracked row is loaded (no WHERE / LIMIT) and rows are grouped per subscriber: ORDER BY subscriber_id=%v, per-run replacement of the map entry=%v", ordered, replacesPerRun))
	}
	for _, fn := range c.AllFuncs() {
		if fn.Pkg == nil || fn.Pkg.Pkg.Path() != core.P("reorgdetector") {
			continue
		}
		core.Instrs(fn, func(i ssa.Instruction) {
			switch x := i.(type) {
			case *ssa.MapUpdate:
				if !strings.HasSuffix(sx.Of(x.Map).String(), "rd.trackedBlocks") {
					return
				}
				n++
				construct := "trackedBlocks[id]=@" + core.ShortFn(fn)
				// allowed only where no list exists yet (comma-ok lookup false) or the existing one is empty
				absent := core.TermEdges(fn, sx, func(s string, _ *core.Term) bool {
					return (strings.HasSuffix(s, "rd.subscriptions["+sx.Of(x.Key).String()+"]#1") || strings.HasSuffix(s, "rd.trackedBlocks["+sx.Of(x.Key).String()+"]#1"))
				}, false)
				absent = append(absent, core.TermEdges(fn, sx, func(s string, _ *core.Term) bool {
					return strings.HasPrefix(s, "(*reorgdetector.headersList).isEmpty(")
				}, true)...)
				f := core.ReachableWithout(core.Entry(fn), absent, func(y ssa.Instruction) bool { return y == i })
				if f != nil || len(absent) == 0 {
					c.Violate(rule, construct, i.Pos(), "a subscriber's tracked list is replaced although one may already exist (e.g. loaded from the database at start): the blocks processed before a restart are no longer checked for reorgs")
				} else {
					c.Hold(rule, construct, "a new list is installed only when the subscriber had none (or an empty one)")
				}
			case *ssa.Store:
				fa, ok := x.Addr.(*ssa.FieldAddr)
				if !ok || !strings.HasSuffix(sx.Of(fa).String(), ".trackedBlocks") {
					return
				}
				if _, isAlloc := fa.X.(*ssa.Alloc); isAlloc {
					return // constructor
				}
				n++
				v := sx.Of(x.Val).String()
				c.Decide(strings.HasPrefix(v, "(*reorgdetector.ReorgDetector).getTrackedBlocks("), rule, "trackedBlocks=@"+core.ShortFn(fn), i.Pos(), "the whole map is replaced only by what is stored in the database: "+v)
			}
		})
	}
	if n == 0 {
		c.Undecide(rule, "trackedBlocks-writers", 0, "no writer of ReorgDetector.trackedBlocks found")
	}
}

func c06Rewind(c *core.Ctx) {
	const rule = "C06-rewind"
	fn := c.MustFn(rule, "sync", "EVMDriver", "handleReorg")
	if fn == nil {
		return
	}
	sx := core.NewSymx()
	var reorg *ssa.Call
	core.Instrs(fn, func(i ssa.Instruction) {
		if core.IsCallTo(i, "(sync.processorInterface).Reorg") {
			reorg = i.(*ssa.Call)
		}
	})
	if reorg == nil {
		c.Violate(rule, "sync.(*EVMDriver).handleReorg#Reorg-call", fn.Pos(), "handleReorg does not call processor.Reorg")
		return
	}
	isCancel := func(i ssa.Instruction) bool {
		cc := core.AsCall(i)
		if cc == nil || cc.IsInvoke() {
			return false
		}
		p, ok := cc.Value.(*ssa.Parameter)
		return ok && p == fn.Params[2]
	}
	f := (&core.Walk{Stop: isCancel, Target: func(i ssa.Instruction) bool { return i == ssa.Instruction(reorg) }}).From(core.Entry(fn), nil)
	c.Decide(f == nil, rule, "sync.(*EVMDriver).handleReorg#cancel-before-Reorg", reorg.Pos(), "the download is cancelled before the store is rewound")
	c.Decide(sx.Of(reorg.Call.Args[1]).String() == "firstReorgedBlock", "C06-value", "sync.(*EVMDriver).handleReorg#Reorg-arg", reorg.Pos(), "processor.Reorg receives the notified block number unchanged: "+sx.Of(reorg.Call.Args[1]).String())
	var send *ssa.Send
	core.Instrs(fn, func(i ssa.Instruction) {
		if s, ok := i.(*ssa.Send); ok && strings.HasSuffix(sx.Of(s.Chan).String(), ".ReorgProcessed") {
			send = s
		}
	})
	if send == nil {
		c.Violate(rule, "sync.(*EVMDriver).handleReorg#ReorgProcessed", fn.Pos(), "handleReorg never acknowledges the reorg")
		return
	}
	nilE := core.NilEdgesRes(fn, reorg, true)
	f = core.ReachableWithout(core.Entry(fn), nilE, func(i ssa.Instruction) bool { return i == ssa.Instruction(send) })
	c.Decide(len(nilE) > 0 && f == nil, rule, "sync.(*EVMDriver).handleReorg#ack-after-successful-Reorg", send.Pos(), "ReorgProcessed is sent only after Reorg returned nil (retry until then)")
	f = (&core.Walk{Stop: func(i ssa.Instruction) bool { return i == ssa.Instruction(send) }, Target: func(i ssa.Instruction) bool { _, r := i.(*ssa.Return); return r }}).From(core.Entry(fn), nil)
	c.Decide(f == nil, rule, "sync.(*EVMDriver).handleReorg#always-acks", send.Pos(), "handleReorg does not return before the store was rewound and the detector acknowledged")
	// the reorg detector drops its tracked blocks only after the subscriber acknowledged
	ns := c.MustFn(rule, "reorgdetector", "ReorgDetector", "notifySubscriber")
	if ns != nil {
		var snd *ssa.Send
		var rcvOK bool
		core.Instrs(ns, func(i ssa.Instruction) {
			if s, ok := i.(*ssa.Send); ok {
				snd = s
			}
		})
		if snd != nil {
			// after the send, every path to return passes a receive from ReorgProcessed
			leak := (&core.Walk{Target: core.IsExit, Stop: func(i ssa.Instruction) bool {
				u, ok := i.(*ssa.UnOp)
				return ok && u.Op == token.ARROW && strings.HasSuffix(sx.Of(u.X).String(), ".ReorgProcessed")
			}}).From(core.After(snd), nil)
			rcvOK = leak == nil
		}
		c.Decide(snd != nil && rcvOK, rule, "reorgdetector.(*ReorgDetector).notifySubscriber#waits-for-ack", ns.Pos(), "the detector waits for ReorgProcessed after notifying")
	}
}

// c06Finality: a block that is delivered as finalized is never tracked, so a reorg of it would go unnoticed. Download must
// therefore (a) sample the finalized block BEFORE it fetches the events of the range (a block fetched first, then replaced
// and finalized, would be delivered with the stale hash and the finalized flag), and (b) hand exactly that sample,
// clamped to the chain tip seen, to both report helpers; the helpers set the flag only for header.Num <= that value.
func c06Finality(c *core.Ctx) {
	const rule = "C06-finality"
	fn := c.MustFn(rule, "sync", "EVMDownloader", "Download")
	if fn == nil {
		return
	}
	sx := core.NewSymx()
	var fin, ev *ssa.Call
	var reports []*ssa.Call
	core.Instrs(fn, func(i ssa.Instruction) {
		cl, ok := i.(*ssa.Call)
		if !ok {
			return
		}
		n := core.CallName(cl)
		switch {
		case strings.HasSuffix(n, ").GetLastFinalizedBlock"):
			fin = cl
		case strings.HasSuffix(n, ").GetEventsByBlockRange"):
			ev = cl
		case n == "(*sync.EVMDownloader).reportBlocks" || n == "(*sync.EVMDownloader).reportEmptyBlock":
			reports = append(reports, cl)
		}
	})
	if fin == nil || ev == nil || len(reports) == 0 {
		c.Undecide(rule, "sync.(*EVMDownloader).Download#shape", fn.Pos(), "expected GetLastFinalizedBlock, GetEventsByBlockRange and the report helpers")
		return
	}
	c.Decide(core.Dominates(fin, ev), rule, "sync.(*EVMDownloader).Download#sample-before-fetch", ev.Pos(), "the finalized block is sampled before the events of the range are fetched")
	for k, r := range reports {
		a := r.Call.Args[len(r.Call.Args)-1]
		t := sx.Of(a).String()
		ok := strings.HasPrefix(t, "builtin.min(") && strings.Contains(t, "GetLastFinalizedBlock(") && strings.Contains(t, ".Number)") && !strings.Contains(t, "+") && !strings.Contains(t, "-")
		c.Decide(ok, rule, fmt.Sprintf("sync.(*EVMDownloader).Download#report-%d-finalized-arg", k+1), r.Pos(), "the report helper receives min(tip seen, sampled finalized block): "+t)
	}
	for _, h := range []string{"reportBlocks", "reportEmptyBlock"} {
		hf := c.MustFn(rule, "sync", "EVMDownloader", h)
		if hf == nil {
			continue
		}
		ok := false
		var seen []string
		core.Instrs(hf, func(i ssa.Instruction) {
			st, isSt := i.(*ssa.Store)
			if !isSt || !strings.HasSuffix(sx.Of(st.Addr).String(), "IsFinalizedBlock") {
				return
			}
			v := sx.Of(st.Val).String()
			seen = append(seen, v)
			if flagTermOK(v) {
				ok = true
			}
			// the number compared is the number of the block that gets the flag (a range that straddles the finalized
			// block has members on both sides: a flag computed once for the range leaves the upper ones untracked)
			base := strings.TrimSuffix(sx.Of(st.Addr).String(), ".IsFinalizedBlock")
			own := strings.Contains(v, "("+base+".Num <= ") || strings.Contains(v, "("+base+".EVMBlockHeader.Num <= ")
			if fa, isFA := st.Addr.(*ssa.FieldAddr); isFA && !own {
				// a block built in place: the number is that of the header put into the same literal
				if bt := sx.Of(fa.X); bt.Op == "lit" && bt.Fields["EVMBlockHeader"] != nil {
					own = strings.Contains(v, "("+bt.Fields["EVMBlockHeader"].String()+".Num <= ")
					base = "the block literal"
				}
			}
			c.Decide(own, rule, "sync.(*EVMDownloader)."+h+"#flag-of-this-block", st.Pos(), fmt.Sprintf("the flag stored into %s compares that block's own number: %s", base, v))
		})
		if !ok {
			// literal form: EVMBlock{IsFinalizedBlock: …}
			core.Instrs(hf, func(i ssa.Instruction) {
				if al, isAl := i.(*ssa.Alloc); isAl {
					t := sx.Of(al)
					if f := t.Fields["IsFinalizedBlock"]; t.Op == "lit" && f != nil {
						seen = append(seen, f.String())
						if flagTermOK(f.String()) {
							ok = true
						}
					}
				}
			})
		}
		c.Decide(ok, rule, "sync.(*EVMDownloader)."+h+"#flag", hf.Pos(), fmt.Sprintf("IsFinalizedBlock ← finality enabled && block number <= the finalized block it was given: %v", seen))
	}
}

// c06Audit: the detector records a reorg_event row BEFORE it notifies the subscriber and gives up the tick when the insert
// fails. The row's key must therefore tell two detections of the same (subscriber, from, to) range apart — it contains the
// detection time — otherwise the second reorg over the same tracked range fails the insert on every tick and is never
// notified. (If the notification did not depend on the insert the key would not matter: the rule checks that dependency.)
func c06Audit(c *core.Ctx) {
	const rule = "C06-audit"
	fn := c.MustFn(rule, "reorgdetector", "ReorgDetector", "detectReorgInTrackedList")
	if fn == nil {
		return
	}
	var ins, notify ssa.Instruction
	core.InstrsDeep(fn, func(_ *ssa.Function, i ssa.Instruction) {
		switch {
		case core.IsCallTo(i, "(*reorgdetector.ReorgDetector).insertReorgEvent"):
			ins = i
		case core.IsCallTo(i, "(*reorgdetector.ReorgDetector).notifySubscriber"):
			notify = i
		}
	})
	depends := ins != nil && notify != nil && ins.Parent() == notify.Parent() && core.Dominates(ins, notify)
	s, probs := storeSchema(c, "reorgdetector")
	for _, p := range probs {
		c.Undecide(rule, "reorgdetector#schema-problem:"+p, token.NoPos, p)
	}
	t := s.Tables["reorg_event"]
	hasTime := false
	if t != nil {
		for _, k := range t.PK {
			if strings.EqualFold(k, "detected_at") {
				hasTime = true
			}
		}
	}
	c.Decide(!depends || hasTime, rule, "reorgdetector.reorg_event#key-tells-detections-apart", token.NoPos,
		fmt.Sprintf("the notification waits for the audit insert (%v); the audit key contains detected_at (%v)", depends, hasTime))
}

// flagTermOK: `enabled && num <= lastFinalizedBlock` as go/ssa renders a short-circuit: phi{const(false) | (num <= lastFinalizedBlock)}
// guarded by IsFinalized(), or the plain conjunction.
func flagTermOK(v string) bool {
	if !strings.Contains(v, "<= lastFinalizedBlock)") || strings.Contains(v, "const(true)") {
		return false
	}
	return strings.HasPrefix(v, "phi{const(false) | (") || strings.HasPrefix(v, "phi{(") && strings.HasSuffix(v, "| const(false)}") || strings.Contains(v, "IsFinalized(")
}

func init() {
	register(&Property{
		ID:          "C06",
		Level:       "other",
		Explanation: "Decides the structural necessary conditions of reorg detection and rewind on every path: C06-track — the driver hands a block to the store only after the reorg detector accepted it for tracking (or it is finalized), tracking (id, b.Num, b.Hash) of the delivered block; C06-notify — the only send on Subscription.ReorgedBlock is notifySubscriber's, called from one site, only on the edge where the tracked hash differs from the current header's hash for the same number, with the current element of an ascending getSorted() range, leaving the loop after the first notification, and on the equal edge only finalized entries are dropped; C06-rewind/C06-value — handleReorg cancels the download before Reorg, passes the notified value unchanged, retries until Reorg returns nil, only then acknowledges, never returns without acknowledging, and Sync re-reads the last processed block and restarts the download afterwards (C05-restart). Convergence for all fork shapes, restart points and detector/driver interleavings is not decided. Added after round 7: C06-finality (finalized block sampled before the fetch; report helpers get min(tip, sample); flag only for numbers <= it; no arithmetic on the finalized bound when tracking is dropped), C06-audit (the audit row a notification waits for is keyed by detection time). Added after round 9: the finality flag compares the number of the block it is stored into; notifySubscriber does no channel operation between a lock and its unlock.",
		Rules: []Rule{
			{ID: "C06-finality", Floor: 9, Run: c06Finality, Text: "[DOM]+[PROV] finalized block sampled before the fetch; both report helpers get min(tip, that sample); flag only for numbers <= it"},
			{ID: "C06-audit", Floor: 1, Run: c06Audit, Text: "[SCHEMA]+[DOM] the audit row a notification waits for is keyed by detection time"},
			{ID: "C06-track", Floor: 2, Run: c06Track, Text: "[DOM]+flag threading: ProcessBlock only after AddBlockToTrack()==nil or IsFinalizedBlock"},
			{ID: "C06-tracked", Floor: 3, Run: c06Tracked, Text: "[WHO]+[DOM] a subscriber's tracked list is replaced only when absent/empty or from the database"},
			{ID: "C06-notify", Floor: 9, Run: c06Notify, Text: "[WHO]+[DOM]+[PROV] single notifier, only on hash mismatch, first mismatching block in ascending order"},
			{ID: "C06-rewind", Floor: 5, Run: c06Rewind, Text: "[DOM] cancel before Reorg; ack only after Reorg()==nil; no return without ack; detector waits for ack"},
			{ID: "C06-reset", Floor: 2, Run: shared("C06-reset", c05Restart), Text: "[PROV]+[DOM] (shared with C05-restart) Sync re-reads the last processed block after every reorg; reorg value passed unchanged"},
		},
	})
}
