// Package rules holds the repository-specific rules, grouped per property (DESIGN.md section 4).
package rules

import "verif/checker/internal/core"

// Rule is one rule template instantiated for this repository.
type Rule struct {
	ID    string
	Text  string // the rule applied, in words (copied into the evidence)
	Floor int    // minimum number of obligations confirmed by hand on the pinned tree; fewer => vacuous => fail
	Run   func(c *core.Ctx)
	// Thorough marks rules that only run in the thorough tier.
	Thorough bool
}

// Property groups the rules that decide the claimed structural clauses of one property.
type Property struct {
	ID          string
	Level       string
	Explanation string
	Assumptions []string
	Trusted     []string
	Rules       []Rule
}

var Registry = map[string]*Property{}

func register(p *Property) { Registry[p.ID] = p }

// shared runs rule functions that belong to another property under the given rule id.
func shared(id string, runs ...func(*core.Ctx)) func(*core.Ctx) {
	return func(c *core.Ctx) {
		old := c.RuleAlias
		c.RuleAlias = id
		defer func() { c.RuleAlias = old }()
		for _, r := range runs {
			r(c)
		}
	}
}
