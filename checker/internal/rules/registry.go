// Package rules holds the repository-specific rules, grouped per property (DESIGN.md section 4).
package rules

import (
	"golang.org/x/tools/go/ssa"

	"verif/checker/internal/core"
)

// Rule is one rule template instantiated for this repository.
type Rule struct {
	ID    string
	Text  string // the rule applied, in words (copied into the evidence)
	Floor int    // minimum number of obligations confirmed by hand on the pinned tree; fewer => vacuous => fail
	Run   func(c *core.Ctx)
	// Thorough marks rules that only run in the thorough tier.
	Thorough bool
}

// Property groups the rules that decide the claimed structural clauses of one property.
type Property struct {
	ID          string
	Level       string
	Explanation string
	Assumptions []string
	Trusted     []string
	Rules       []Rule
}

var Registry = map[string]*Property{}

func register(p *Property) { Registry[p.ID] = p }

// shared runs rule functions that belong to another property under the given rule id.
func shared(id string, runs ...func(*core.Ctx)) func(*core.Ctx) {
	return func(c *core.Ctx) {
		old := c.RuleAlias
		c.RuleAlias = id
		defer func() { c.RuleAlias = old }()
		for _, r := range runs {
			r(c)
		}
	}
}

// bindLivePhis: a Phi whose operands, except one, can only travel with an error that keeps `use` from being reached
// (placeholders such as `return 0, 0, 0, err` of a helper expanded in place) is rendered as that one operand.
func bindLivePhis(sx *core.Symx, fn *ssa.Function, use ssa.Instruction) {
	isUse := func(x ssa.Instruction) bool { return x == use }
	// live operands per Phi
	liveOf := map[*ssa.Phi][]ssa.Value{}
	var phis []*ssa.Phi
	for _, b := range fn.Blocks {
		for _, ins := range b.Instrs {
			phi, ok := ins.(*ssa.Phi)
			if !ok {
				break
			}
			var live []ssa.Value
			seen := map[ssa.Value]bool{}
			for k, e := range phi.Edges {
				if core.PhiEdgeReaches(phi, k, isUse) && !seen[e] {
					seen[e] = true
					live = append(live, e)
				}
			}
			liveOf[phi] = live
			phis = append(phis, phi)
		}
	}
	// a Phi with one live operand is that operand; when the operand is itself such a Phi, follow it (nested expansions
	// merge the same value twice)
	bound := map[*ssa.Phi]*core.Term{}
	for round := 0; round < 4; round++ {
		for _, phi := range phis {
			live := liveOf[phi]
			if bound[phi] != nil || len(live) != 1 || len(phi.Edges) <= 1 {
				continue
			}
			if inner, isPhi := live[0].(*ssa.Phi); isPhi {
				if t := bound[inner]; t != nil {
					bound[phi] = t
					sx.BindTerm(phi, t)
				}
				continue
			}
			bound[phi] = sx.Of(live[0])
			sx.BindTerm(phi, bound[phi])
		}
	}
}
