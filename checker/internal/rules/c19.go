package rules

import (
	"fmt"
	"strings"

	"golang.org/x/tools/go/ssa"

	"verif/checker/internal/core"
)

const genGI = "bridgesync.GenerateGlobalIndex"

func c19Args(c *core.Ctx) {
	const rule = "C19-args"
	sx := core.NewSymx()
	sites := c.AllCallsTo(genGI)
	for _, cs := range sites {
		a := core.AsCall(cs.Instr).Args
		f, r, l := sx.Of(a[0]).String(), sx.Of(a[1]).String(), sx.Of(a[2]).String()
		ok := strings.HasSuffix(f, ".MainnetFlag") && strings.HasSuffix(r, ".RollupIndex") && strings.HasSuffix(l, ".LeafIndex") &&
			strings.TrimSuffix(f, ".MainnetFlag") == strings.TrimSuffix(r, ".RollupIndex") && strings.TrimSuffix(f, ".MainnetFlag") == strings.TrimSuffix(l, ".LeafIndex")
		c.Decide(ok, rule, "call-GenerateGlobalIndex@"+core.ShortFn(cs.Fn), cs.Instr.Pos(),
			fmt.Sprintf("arguments are (MainnetFlag, RollupIndex, LeafIndex) of one GlobalIndex object, in that order: (%s, %s, %s)", f, r, l))
	}
	if len(sites) < 4 {
		c.Undecide(rule, "call-GenerateGlobalIndex#count", 0, fmt.Sprintf("expected the 4 encoding sites (PP commitment, FEP commitment, Agglayer wire, prover request), found %d", len(sites)))
	}
	// decode: the three results go to the same-named fields
	for _, cs := range c.AllCallsTo("bridgesync.DecodeGlobalIndex") {
		if strings.HasPrefix(core.ShortFn(cs.Fn), "bridgesync.") {
			continue
		}
		call := cs.Instr.(*ssa.Call)
		sb := core.NewSymx()
		for k, n := range []string{"FLAG", "ROLLUP", "LEAF"} {
			if v := core.ExtractOf(call, k); v != nil {
				sb.Bind(v, n)
			}
		}
		als := allocsOfType(cs.Fn, "agglayer/types.GlobalIndex")
		ok := len(als) == 1
		detail := ""
		if ok {
			lit := sb.Of(als[0])
			detail = lit.String()
			ok = lit.Fields["MainnetFlag"] != nil && lit.Fields["MainnetFlag"].String() == "FLAG" &&
				lit.Fields["RollupIndex"] != nil && lit.Fields["RollupIndex"].String() == "ROLLUP" &&
				lit.Fields["LeafIndex"] != nil && lit.Fields["LeafIndex"].String() == "LEAF"
		}
		okArg := sx.Of(call.Call.Args[0]).String() == "claim.GlobalIndex"
		c.Decide(ok && okArg, rule, "call-DecodeGlobalIndex@"+core.ShortFn(cs.Fn), cs.Instr.Pos(), "DecodeGlobalIndex(claim.GlobalIndex) results stored to the same-named fields: "+detail)
		// a decode error aborts the conversion
		nilE := core.NilEdgesRes(cs.Fn, core.ErrValueOf(call), true)
		f := core.ReachableWithout(core.After(call), nilE, func(i ssa.Instruction) bool {
			r, isR := i.(*ssa.Return)
			return isR && len(r.Results) == 2 && isNilConst(r.Results[1])
		})
		c.Decide(len(nilE) > 0 && f == nil, rule, "call-DecodeGlobalIndex@"+core.ShortFn(cs.Fn)+"#error", cs.Instr.Pos(), "a decode error is returned")
	}
}

func c19Single(c *core.Ctx) {
	const rule = "C19-single"
	sx := core.NewSymx()
	// where the composed value goes: the four carriers
	want := map[string]string{
		"(*agglayer/types.GlobalIndex).Hash":                                  "LE32", // PP commitment
		"(*agglayer/types.ImportedBridgeExit).GlobalIndexToLittleEndianBytes": "LE32", // FEP commitment
		"agglayer/grpc.convertToProtoImportedBridgeExit":                      "BE32", // Agglayer wire
		"aggsender/aggchainproofclient.convertAggchainProofRequestToGrpcRequest":  "BE32", // prover request
	}
	for _, cs := range c.AllCallsTo(genGI) {
		call := cs.Instr.(*ssa.Call)
		enc := ""
		for _, ref := range *call.Referrers() {
			if cc := core.AsCall(ref); cc != nil {
				switch core.FullName(core.CalleeObj(cc)) {
				case "common.BigIntToLittleEndianBytes":
					enc = "LE32"
				case "github.com/ethereum/go-ethereum/common.BigToHash":
					enc = "BE32"
				default:
					enc = "?" + core.FullName(core.CalleeObj(cc))
				}
			}
		}
		name := core.ShortFn(core.RootFn(cs.Fn))
		w, known := want[name]
		if !known {
			// tolerate renamed receivers: match on suffix
			for k, v := range want {
				if strings.HasSuffix(name, k[strings.LastIndex(k, ".")+1:]) {
					w, known = v, true
				}
			}
		}
		if !known {
			c.Violate(rule, "carrier@"+name, cs.Instr.Pos(), "a new place composes a global index; the checker does not know which encoding its consumer expects")
			continue
		}
		c.Decide(enc == w, rule, "carrier@"+name, cs.Instr.Pos(), fmt.Sprintf("composed index is encoded as %s (expected %s: commitments are 32-byte little-endian, wire/prover messages 32-byte big-endian)", enc, w))
	}
	// no other function builds a big.Int from the three fields: reads of GlobalIndex.{MainnetFlag,RollupIndex,LeafIndex}
	// outside the known places (encoder call sites, String/JSON codecs, proto conversion of the flag for logs) are reported
	gi := c.Named("agglayer/types", "GlobalIndex")
	allowedReaders := map[string]bool{}
	for _, cs := range c.AllCallsTo(genGI) {
		allowedReaders[core.ShortFn(cs.Fn)] = true
	}
	if gi != nil {
		for _, fn := range c.AllFuncs() {
			if fn.Pkg == nil || core.IsMockPkg(fn.Pkg.Pkg.Path()) {
				continue
			}
			reads := map[string]bool{}
			core.Instrs(fn, func(i ssa.Instruction) {
				switch x := i.(type) {
				case *ssa.FieldAddr:
					if st := derefNamedStruct(x.X.Type(), gi); st != nil {
						for _, ref := range *x.Referrers() {
							if u, ok := ref.(*ssa.UnOp); ok && u.Op.String() == "*" {
								reads[st.Field(x.Field).Name()] = true
							}
						}
					}
				case *ssa.Field:
					if st := derefNamedStruct(x.X.Type(), gi); st != nil {
						reads[st.Field(x.Field).Name()] = true
					}
				}
			})
			if !(reads["RollupIndex"] && reads["LeafIndex"]) {
				continue
			}
			name := core.ShortFn(fn)
			usesBig := false
			core.Instrs(fn, func(i ssa.Instruction) {
				n := core.CallName(i)
				if strings.HasPrefix(n, "(*math/big.Int).Set") || n == "math/big.NewInt" || strings.HasPrefix(n, "(*math/big.Int).Lsh") || strings.HasPrefix(n, "(*math/big.Int).Or") {
					usesBig = true
				}
			})
			switch {
			case allowedReaders[name]:
				c.Hold(rule, "reader@"+name, "reads the triple only to pass it to GenerateGlobalIndex")
			case usesBig:
				c.Violate(rule, "reader@"+name, fn.Pos(), "reads RollupIndex and LeafIndex and builds a big.Int itself: a second, hand-rolled global index encoding")
			default:
				c.Hold(rule, "reader@"+name, "reads the triple without composing an integer (formatting / codec)")
			}
		}
	}
	// the optimistic commitment carries the claim's own on-chain value through the same little-endian helper
	oh := c.MustFn(rule, "aggsender/optimistic/optimistichash", "optimisticCommitImportedBrigesData", "hash")
	if oh != nil {
		ok := false
		core.Instrs(oh, func(i ssa.Instruction) {
			if core.IsCallTo(i, "common.BigIntToLittleEndianBytes") {
				ok = strings.HasSuffix(sx.Of(core.AsCall(i).Args[0]).String(), ".globalIndex")
			}
		})
		nc := c.MustFn(rule, "aggsender/optimistic/optimistichash", "", "newCommitImportedBrigesData")
		okSrc := false
		if nc != nil {
			core.Instrs(nc, func(i ssa.Instruction) {
				if st, isS := i.(*ssa.Store); isS && strings.HasSuffix(sx.Of(st.Addr).String(), ".globalIndex") {
					okSrc = strings.HasSuffix(sx.Of(st.Val).String(), ".GlobalIndex") && strings.HasPrefix(sx.Of(st.Val).String(), "claims")
				}
			})
		}
		c.Decide(ok && okSrc, rule, "carrier@optimistichash", oh.Pos(), "optimistic commitment: little-endian bytes of the claim's own global index")
	}
}

func c19LE(c *core.Ctx) {
	const rule = "C19-le"
	fn := c.MustFn(rule, "common", "", "BigIntToLittleEndianBytes")
	if fn == nil {
		return
	}
	sx := core.NewSymx()
	sx.ElideConv = true
	// structure: out := make([]byte, 32); for i < len(be) && i < 32 { out[i] = be[len(be)-1-i] }, be = n.Bytes()
	okStore := false
	core.Instrs(fn, func(i ssa.Instruction) {
		st, ok := i.(*ssa.Store)
		if !ok {
			return
		}
		a, v := sx.Of(st.Addr).String(), sx.Of(st.Val).String()
		if strings.Contains(a, "[loop{const(0)}]") && strings.Contains(v, "(*math/big.Int).Bytes(n)[((len((*math/big.Int).Bytes(n)) - const(1)) - loop{const(0)})]") {
			okStore = true
		}
	})
	okLen := false
	for _, r := range core.Returns(fn) {
		s := sx.Of(r.Results[0]).String()
		if strings.Contains(s, "[:const(32)]") || strings.Contains(s, "makeslice") {
			okLen = true
		}
	}
	c.Decide(okStore && okLen, rule, "common.BigIntToLittleEndianBytes#reverse", fn.Pos(), "byte i of the 32-byte result is byte len-1-i of the big-endian magnitude (structure only; bounds arithmetic not decided)")
}

func init() {
	register(&Property{
		ID:    "C19",
		Level: "other",
		Explanation: "Decides the 'same value everywhere' half of the property structurally: C19-args — at each of the four encoding sites (PP commitment GlobalIndex.Hash, FEP commitment GlobalIndexToLittleEndianBytes, the Agglayer wire conversion, the prover request) the three arguments of GenerateGlobalIndex are MainnetFlag, RollupIndex, LeafIndex of ONE GlobalIndex object, in that order, and the single decode site stores DecodeGlobalIndex's three results into the same-named fields and propagates its error; C19-single — every call of the encoder feeds the encoding its consumer expects (32-byte little-endian for the two commitments, 32-byte big-endian for wire and prover), a new encoder call site or any function that reads RollupIndex and LeafIndex and builds a big.Int itself is reported, and the optimistic commitment uses the claim's own on-chain index through the same little-endian helper; C19-le — the little-endian helper reverses the big-endian magnitude into a 32-byte buffer (structure only). Declined: round-trip and bit layout of GenerateGlobalIndex / DecodeGlobalIndex (byte-length arithmetic on big.Int).",
		Rules: []Rule{
			{ID: "C19-args", Floor: 6, Run: c19Args, Text: "[PROV] encoder arguments from one object in order; decoder results to same-named fields"},
			{ID: "C19-single", Floor: 6, Run: c19Single, Text: "[WHO] encoder call sites and their encodings; no hand-rolled second encoder"},
			{ID: "C19-le", Floor: 1, Run: c19LE, Text: "structure of the little-endian helper"},
		},
	})
}
