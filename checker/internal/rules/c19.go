package rules

import (
	"fmt"
	"go/types"
	"strings"

	"golang.org/x/tools/go/ssa"

	"verif/checker/internal/core"
)

const genGI = "bridgesync.GenerateGlobalIndex"

func c19Args(c *core.Ctx) {
	const rule = "C19-args"
	sx := core.NewSymx()
	sites := c.AllCallsTo(genGI)
	for _, cs := range sites {
		a := core.AsCall(cs.Instr).Args
		f, r, l := sx.Of(a[0]).String(), sx.Of(a[1]).String(), sx.Of(a[2]).String()
		ok := strings.HasSuffix(f, ".MainnetFlag") && strings.HasSuffix(r, ".RollupIndex") && strings.HasSuffix(l, ".LeafIndex") &&
			strings.TrimSuffix(f, ".MainnetFlag") == strings.TrimSuffix(r, ".RollupIndex") && strings.TrimSuffix(f, ".MainnetFlag") == strings.TrimSuffix(l, ".LeafIndex")
		c.Decide(ok, rule, "call-GenerateGlobalIndex@"+core.ShortFn(cs.Fn), cs.Instr.Pos(),
			fmt.Sprintf("arguments are (MainnetFlag, RollupIndex, LeafIndex) of one GlobalIndex object, in that order: (%s, %s, %s)", f, r, l))
	}
	if len(sites) < 4 {
		c.Undecide(rule, "call-GenerateGlobalIndex#count", 0, fmt.Sprintf("expected the 4 encoding sites (PP commitment, FEP commitment, Agglayer wire, prover request), found %d", len(sites)))
	}
	// decode: the three results go to the same-named fields
	for _, cs := range c.AllCallsTo("bridgesync.DecodeGlobalIndex") {
		if strings.HasPrefix(core.ShortFn(cs.Fn), "bridgesync.") {
			continue
		}
		call := cs.Instr.(*ssa.Call)
		sb := core.NewSymx()
		for k, n := range []string{"FLAG", "ROLLUP", "LEAF"} {
			if v := core.ExtractOf(call, k); v != nil {
				sb.Bind(v, n)
			}
		}
		als := allocsOfType(cs.Fn, "agglayer/types.GlobalIndex")
		ok := len(als) == 1
		detail := ""
		if ok {
			lit := sb.Of(als[0])
			detail = lit.String()
			ok = lit.Fields["MainnetFlag"] != nil && lit.Fields["MainnetFlag"].String() == "FLAG" &&
				lit.Fields["RollupIndex"] != nil && lit.Fields["RollupIndex"].String() == "ROLLUP" &&
				lit.Fields["LeafIndex"] != nil && lit.Fields["LeafIndex"].String() == "LEAF"
		}
		okArg := sx.Of(call.Call.Args[0]).String() == "claim.GlobalIndex"
		c.Decide(ok && okArg, rule, "call-DecodeGlobalIndex@"+core.ShortFn(cs.Fn), cs.Instr.Pos(), "DecodeGlobalIndex(claim.GlobalIndex) results stored to the same-named fields: "+detail)
		// a decode error aborts the conversion
		nilE := core.NilEdgesRes(cs.Fn, core.ErrValueOf(call), true)
		f := core.ReachableWithout(core.After(call), nilE, func(i ssa.Instruction) bool {
			r, isR := i.(*ssa.Return)
			return isR && len(r.Results) == 2 && isNilConst(r.Results[1])
		})
		c.Decide(len(nilE) > 0 && f == nil, rule, "call-DecodeGlobalIndex@"+core.ShortFn(cs.Fn)+"#error", cs.Instr.Pos(), "a decode error is returned")
	}
}

func c19Single(c *core.Ctx) {
	const rule = "C19-single"
	sx := core.NewSymx()
	// where the composed value goes: the four carriers
	want := map[string]string{
		"(*agglayer/types.GlobalIndex).Hash":                                     "LE32", // PP commitment
		"(*agglayer/types.ImportedBridgeExit).GlobalIndexToLittleEndianBytes":    "LE32", // FEP commitment
		"agglayer/grpc.convertToProtoImportedBridgeExit":                         "BE32", // Agglayer wire
		"aggsender/aggchainproofclient.convertAggchainProofRequestToGrpcRequest": "BE32", // prover request
	}
	for _, cs := range c.AllCallsTo(genGI) {
		call := cs.Instr.(*ssa.Call)
		enc := ""
		for _, ref := range *call.Referrers() {
			if cc := core.AsCall(ref); cc != nil {
				switch core.FullName(core.CalleeObj(cc)) {
				case "common.BigIntToLittleEndianBytes":
					enc = "LE32"
				case "github.com/ethereum/go-ethereum/common.BigToHash":
					enc = "BE32"
				default:
					enc = "?" + core.FullName(core.CalleeObj(cc))
				}
			}
		}
		name := core.ShortFn(core.RootFn(cs.Fn))
		w, known := want[name]
		if !known {
			// tolerate renamed receivers: match on suffix
			for k, v := range want {
				if strings.HasSuffix(name, k[strings.LastIndex(k, ".")+1:]) {
					w, known = v, true
				}
			}
		}
		if !known {
			c.Violate(rule, "carrier@"+name, cs.Instr.Pos(), "a new place composes a global index; the checker does not know which encoding its consumer expects")
			continue
		}
		c.Decide(enc == w, rule, "carrier@"+name, cs.Instr.Pos(), fmt.Sprintf("composed index is encoded as %s (expected %s: commitments are 32-byte little-endian, wire/prover messages 32-byte big-endian)", enc, w))
	}
	// no other function builds a big.Int from the three fields: reads of GlobalIndex.{MainnetFlag,RollupIndex,LeafIndex}
	// outside the known places (encoder call sites, String/JSON codecs, proto conversion of the flag for logs) are reported
	gi := c.Named("agglayer/types", "GlobalIndex")
	allowedReaders := map[string]bool{}
	for _, cs := range c.AllCallsTo(genGI) {
		allowedReaders[core.ShortFn(cs.Fn)] = true
	}
	if gi != nil {
		for _, fn := range c.AllFuncs() {
			if fn.Pkg == nil || core.IsMockPkg(fn.Pkg.Pkg.Path()) {
				continue
			}
			reads := map[string]bool{}
			core.Instrs(fn, func(i ssa.Instruction) {
				switch x := i.(type) {
				case *ssa.FieldAddr:
					if st := derefNamedStruct(x.X.Type(), gi); st != nil {
						for _, ref := range *x.Referrers() {
							if u, ok := ref.(*ssa.UnOp); ok && u.Op.String() == "*" {
								reads[st.Field(x.Field).Name()] = true
							}
						}
					}
				case *ssa.Field:
					if st := derefNamedStruct(x.X.Type(), gi); st != nil {
						reads[st.Field(x.Field).Name()] = true
					}
				}
			})
			if !(reads["RollupIndex"] && reads["LeafIndex"]) {
				continue
			}
			name := core.ShortFn(fn)
			usesBig := false
			core.Instrs(fn, func(i ssa.Instruction) {
				n := core.CallName(i)
				if strings.HasPrefix(n, "(*math/big.Int).Set") || n == "math/big.NewInt" || strings.HasPrefix(n, "(*math/big.Int).Lsh") || strings.HasPrefix(n, "(*math/big.Int).Or") {
					usesBig = true
				}
			})
			switch {
			case allowedReaders[name]:
				c.Hold(rule, "reader@"+name, "reads the triple only to pass it to GenerateGlobalIndex")
			case usesBig:
				c.Violate(rule, "reader@"+name, fn.Pos(), "reads RollupIndex and LeafIndex and builds a big.Int itself: a second, hand-rolled global index encoding")
			default:
				c.Hold(rule, "reader@"+name, "reads the triple without composing an integer (formatting / codec)")
			}
		}
	}
	// the optimistic commitment carries the claim's own on-chain value through the same little-endian helper
	oh := c.MustFn(rule, "aggsender/optimistic/optimistichash", "optimisticCommitImportedBrigesData", "hash")
	if oh != nil {
		ok := false
		core.Instrs(oh, func(i ssa.Instruction) {
			if core.IsCallTo(i, "common.BigIntToLittleEndianBytes") {
				ok = strings.HasSuffix(sx.Of(core.AsCall(i).Args[0]).String(), ".globalIndex")
			}
		})
		nc := c.MustFn(rule, "aggsender/optimistic/optimistichash", "", "newCommitImportedBrigesData")
		okSrc := false
		if nc != nil {
			core.Instrs(nc, func(i ssa.Instruction) {
				if st, isS := i.(*ssa.Store); isS && strings.HasSuffix(sx.Of(st.Addr).String(), ".globalIndex") {
					okSrc = strings.HasSuffix(sx.Of(st.Val).String(), ".GlobalIndex") && strings.HasPrefix(sx.Of(st.Val).String(), "claims")
				}
			})
		}
		c.Decide(ok && okSrc, rule, "carrier@optimistichash", oh.Pos(), "optimistic commitment: little-endian bytes of the claim's own global index")
	}
}

func c19LE(c *core.Ctx) {
	const rule = "C19-le"
	fn := c.MustFn(rule, "common", "", "BigIntToLittleEndianBytes")
	if fn == nil {
		return
	}
	sx := core.NewSymx()
	sx.ElideConv = true
	// structure: out := make([]byte, 32); for i < len(be) && i < 32 { out[i] = be[len(be)-1-i] }, be = n.Bytes()
	okStore := false
	var seenStores []string
	core.Instrs(fn, func(i ssa.Instruction) {
		st, ok := i.(*ssa.Store)
		if !ok {
			return
		}
		a, v := sx.Of(st.Addr).String(), sx.Of(st.Val).String()
		if strings.Contains(a, "[") {
			seenStores = append(seenStores, a+" <- "+v)
		}
		if strings.Contains(a, "[(loop{const(-1)} + const(1))]") && strings.Contains(v, "(*math/big.Int).Bytes(n)[((len((*math/big.Int).Bytes(n)) - const(1)) - (loop{const(-1)} + const(1)))]") {
			okStore = true
		}
	})
	// third written form: the magnitude is first cut to its (at most) 32 trailing bytes, then ranged front to back and
	// written from the back: be' = be | be[len(be)-32:]; out[(len(be')-1) - i] = be'[i]
	if !okStore {
		B := "(*math/big.Int).Bytes(n)"
		BE := "phi{" + B + " | " + B + "[(len(" + B + ") - const(32)):]}"
		I := "(loop{const(-1)} + const(1))"
		for _, st := range seenStores {
			if strings.HasSuffix(st, "[((len("+BE+") - const(1)) - "+I+")] <- "+BE+"["+I+"]") {
				// the trailing cut is taken only when the magnitude is longer than 32 bytes
				cut := core.TermEdges(fn, sx, func(t string, _ *core.Term) bool { return t == "(len("+B+") > const(32))" }, true)
				okStore = len(cut) > 0
			}
		}
	}
	// second written form: copy the (at most 32 trailing) magnitude bytes to the front of the buffer and reverse exactly
	// the copied prefix in place: n := copy(out, be); slices.Reverse(out[:n])
	if !okStore {
		var cp *ssa.Call
		core.Instrs(fn, func(i ssa.Instruction) {
			if cl, ok := i.(*ssa.Call); ok {
				if b, isB := cl.Call.Value.(*ssa.Builtin); isB && b.Name() == "copy" && strings.Contains(sx.Of(cl.Call.Args[1]).String(), "(*math/big.Int).Bytes(n)") {
					cp = cl
				}
			}
		})
		if cp != nil {
			core.Instrs(fn, func(i ssa.Instruction) {
				cl, ok := i.(*ssa.Call)
				if !ok || !strings.HasPrefix(core.CallName(cl), "slices.Reverse") {
					return
				}
				if sl, isSl := cl.Call.Args[0].(*ssa.Slice); isSl && sl.Low == nil && sl.High == ssa.Value(cp) && sl.X == cp.Call.Args[0] && core.Dominates(cp, cl) {
					okStore = true
				}
			})
		}
	}
	okLen := false
	for _, r := range core.Returns(fn) {
		s := sx.Of(r.Results[0]).String()
		if strings.Contains(s, "[:const(32)]") || strings.Contains(s, "makeslice") {
			okLen = true
		}
	}
	c.Decide(okStore && okLen, rule, "common.BigIntToLittleEndianBytes#reverse", fn.Pos(), fmt.Sprintf("byte i of the 32-byte result is byte len-1-i of the big-endian magnitude (structure only; bounds arithmetic not decided); element stores: %v", seenStores))
}

func init() {
	register(&Property{
		ID:          "C19",
		Level:       "other",
		Explanation: "Decides the 'same value everywhere' half of the property structurally: C19-args — at each of the four encoding sites (PP commitment GlobalIndex.Hash, FEP commitment GlobalIndexToLittleEndianBytes, the Agglayer wire conversion, the prover request) the three arguments of GenerateGlobalIndex are MainnetFlag, RollupIndex, LeafIndex of ONE GlobalIndex object, in that order, and the single decode site stores DecodeGlobalIndex's three results into the same-named fields and propagates its error; C19-single — every call of the encoder feeds the encoding its consumer expects (32-byte little-endian for the two commitments, 32-byte big-endian for wire and prover), a new encoder call site or any function that reads RollupIndex and LeafIndex and builds a big.Int itself is reported, and the optimistic commitment uses the claim's own on-chain index through the same little-endian helper; C19-le — the little-endian helper reverses the big-endian magnitude into a 32-byte buffer (structure only). C19-encode — the bytes GenerateGlobalIndex hands to SetBytes, evaluated per edge of `if mainnetFlag`: 01‖BE32(0)‖BE32(leaf) on the mainnet edge and BE32(rollup)‖BE32(leaf) otherwise (= flag·2^64 + rollup·2^32 + leaf with the rollup part forced to zero for mainnet, the contract's layout), and no FillBytes into the shared scratch buffer between a FillBytes and the append that copies its result; C19-decode — mainnetFlag is true exactly on the edge of a recognised 'bit 64 is set' test (len(Bytes())==9, BitLen()>64, Bit(64)==1), leaf = the last ≤4 bytes, rollup = the ≤4 bytes before them, BytesToUint32 left-pads and reads big-endian; C19-carry (shared with C10-commit) — both signed commitments hold one element per claim, for the whole range, in order, built from that claim's own index in storage of its own. With big.Int.Bytes() being the minimal big-endian form these premises give decode(encode(f, r, l)) = (f, f ? 0 : r, l) by a three-line argument (DESIGN §4 C19); the checker decides the premises, not the arithmetic itself. Added after round 7: C19-alias (shared with C10-alias: every message entry owns its bytes), C19-order (one imported exit per claim, shared with C03-order).",
		Rules: []Rule{
			{ID: "C19-order", Floor: 5, Run: shared("C19-order", c03Order), Text: "(shared with C03-order) one imported bridge exit per claim, in order: no claim is dropped by its (truncated) global index"},
			{ID: "C19-alias", Floor: 40, Run: shared("C19-alias", c10Alias), Text: "(shared with C10-alias) every message entry owns its bytes: the global index of one claim is not overwritten by the next (hoisted array re-sliced per iteration), big.Ints are not mutated in place"},
			{ID: "C19-args", Floor: 6, Run: c19Args, Text: "[PROV] encoder arguments from one object in order; decoder results to same-named fields"},
			{ID: "C19-single", Floor: 6, Run: c19Single, Text: "[WHO] encoder call sites and their encodings; no hand-rolled second encoder"},
			{ID: "C19-le", Floor: 1, Run: c19LE, Text: "structure of the little-endian helper"},
			{ID: "C19-wire", Floor: 4, Run: shared("C19-wire", c10WireUnconditional), Text: "(shared with C10-wire) the global index is put into the wire message on every path, also when it is zero"},
			{ID: "C19-encode", Floor: 3, Run: c19Encode, Text: "[LAYOUT] bytes built by GenerateGlobalIndex on the mainnet / rollup edge; scratch buffer not reused before it is copied"},
			{ID: "C19-decode", Floor: 3, Run: c19Decode, Text: "decoder reads the same layout: flag edge, leaf and rollup slices, left-padded big-endian helper"},
			{ID: "C19-carry", Floor: 10, Run: func(c *core.Ctx) {
				commitRule(c, "C19-carry", map[string]bool{"PPHashToSign": true, "FEPHashToSign": true})
			}, Text: "[LIST] (shared with C10) both signed commitments carry every claim's own global index, one per claim, in storage of its own"},
		},
	})
}

// giBytes evaluates the byte string handed to SetBytes in GenerateGlobalIndex on the path where the flag is `flag`:
// a list of parts "CONST(01)", "BE4(0)", "BE4(param)".
func giBytes(fn *ssa.Function, v ssa.Value, flag bool, flagIf *ssa.If, d int) ([]string, string) {
	if d > 12 {
		return nil, "too deep"
	}
	switch x := v.(type) {
	case *ssa.Const:
		if x.Value == nil {
			return nil, ""
		}
	case *ssa.MakeSlice:
		if n, ok := core.ConstInt(x.Len); ok && n == 0 {
			return nil, ""
		}
	case *ssa.Slice:
		// a fixed-size byte array filled in place (`var b [9]byte; b[0] = 1; PutUint32(b[1:5], r); …; SetBytes(b[:])`)
		if arr, ok := x.X.(*ssa.Alloc); ok && x.Low == nil && x.High == nil && arrayLenOf(arr.Type()) > 0 && !isLiteralBytes(arr) {
			if parts, problem := giArray(fn, arr, flag, flagIf); problem == "" {
				return parts, ""
			}
		}
		// make([]byte, 0, n) with a constant n
		if _, ok := x.X.(*ssa.Alloc); ok && x.Low == nil && x.High != nil {
			if h, isC := core.ConstInt(x.High); isC && h == 0 {
				return nil, ""
			}
		}
		// a literal list of bytes: append(b, 0x01) / []byte{1}
		if arr, ok := x.X.(*ssa.Alloc); ok && x.Low == nil {
			vals := map[int64]string{}
			okAll := true
			for _, r := range *arr.Referrers() {
				ia, isIA := r.(*ssa.IndexAddr)
				if !isIA {
					continue
				}
				k, _ := core.ConstInt(ia.Index)
				for _, r2 := range *ia.Referrers() {
					if st, isSt := r2.(*ssa.Store); isSt && st.Addr == ssa.Value(ia) {
						if b, isC := core.ConstInt(st.Val); isC && b >= 0 && b < 256 {
							vals[k] = fmt.Sprintf("CONST(%02x)", b)
						} else {
							okAll = false
						}
					}
				}
			}
			if okAll && len(vals) > 0 {
				var out []string
				for k := int64(0); k < int64(len(vals)); k++ {
					out = append(out, vals[k])
				}
				return out, ""
			}
		}
	case *ssa.Phi:
		// pick the edge that is taken when the flag has the given value: either the direct edge out of `if mainnetFlag`
		// or a predecessor dominated by the matching branch block
		ifb := flagIf.Block()
		var pick ssa.Value
		n := 0
		for i, e := range x.Edges {
			p := x.Block().Preds[i]
			var val, known bool
			switch {
			case p == ifb:
				val, known = ifb.Succs[0] == x.Block(), ifb.Succs[0] != ifb.Succs[1]
			case ifb.Succs[0] != x.Block() && ifb.Succs[0].Dominates(p):
				val, known = true, true
			case ifb.Succs[1] != x.Block() && ifb.Succs[1].Dominates(p):
				val, known = false, true
			}
			if known && val == flag {
				pick = e
				n++
			}
		}
		if n != 1 {
			return nil, "phi not split by the mainnet flag"
		}
		return giBytes(fn, pick, flag, flagIf, d+1)
	case *ssa.Call:
		if b, ok := x.Call.Value.(*ssa.Builtin); ok && b.Name() == "append" {
			a, e1 := giBytes(fn, x.Call.Args[0], flag, flagIf, d+1)
			b2, e2 := giBytes(fn, x.Call.Args[1], flag, flagIf, d+1)
			return append(append([]string{}, a...), b2...), e1 + e2
		}
		switch core.CallName(x) {
		case "common.Uint32ToBytes":
			if val := giVal(fn, x.Call.Args[0], flag, flagIf, 0); val != "" {
				return []string{"BE4(" + val + ")"}, ""
			}
			return nil, "unrecognised Uint32ToBytes operand"
		case "(*math/big.Int).Bytes":
			if in, ok := x.Call.Args[0].(*ssa.Call); ok && core.CallName(in) == "math/big.NewInt" {
				if k, ok := core.ConstInt(in.Call.Args[0]); ok && k > 0 && k < 256 {
					return []string{fmt.Sprintf("CONST(%02x)", k)}, ""
				}
			}
		case "(*math/big.Int).FillBytes":
			sl, ok := x.Call.Args[1].(*ssa.Slice)
			if !ok || sl.Low != nil || sl.High != nil {
				return nil, "FillBytes into a partial buffer"
			}
			n := arrayLenOf(sl.X.Type())
			val := ""
			switch r := x.Call.Args[0].(type) {
			case *ssa.Alloc: // new(big.Int): zero, provided nothing else sets it
				for _, ref := range *r.Referrers() {
					if ref != ssa.Instruction(x) {
						if _, isDbg := ref.(*ssa.DebugRef); !isDbg {
							return nil, "zero big.Int has other uses"
						}
					}
				}
				val = "0"
			case *ssa.Call:
				if core.CallName(r) == "(*math/big.Int).SetUint64" {
					val = giVal(fn, r.Call.Args[1], flag, flagIf, 0)
				}
			}
			if val == "" {
				return nil, "unrecognised FillBytes operand"
			}
			return []string{fmt.Sprintf("BE%d(%s)", n, val)}, ""
		}
	}
	return nil, fmt.Sprintf("unrecognised byte source %T", v)
}

// isLiteralBytes: the array only receives constant element stores (the backing array of a []byte{…} literal).
func isLiteralBytes(arr *ssa.Alloc) bool {
	for _, r := range *arr.Referrers() {
		switch x := r.(type) {
		case *ssa.IndexAddr:
			for _, r2 := range *x.Referrers() {
				if st, ok := r2.(*ssa.Store); !ok || st.Addr != ssa.Value(x) {
					return false
				} else if _, isC := core.ConstInt(st.Val); !isC {
					return false
				}
			}
		case *ssa.Slice, *ssa.DebugRef:
		default:
			return false
		}
	}
	return arr.Comment == "slicelit"
}

// giArray: the content of a zero-initialised [N]byte local on the given edge of the flag. Writes are constant element
// stores and binary.BigEndian.PutUint32 into a constant window; a write counts on this edge when its block is not
// confined to the other branch of `if mainnetFlag`. Leading zero bytes are dropped (SetBytes reads a big-endian
// magnitude), a run of four untouched bytes reads BE4(0).
func giArray(fn *ssa.Function, arr *ssa.Alloc, flag bool, flagIf *ssa.If) ([]string, string) {
	n := arrayLenOf(arr.Type())
	bytes := make([]string, n)
	ifb := flagIf.Block()
	onEdge := func(b *ssa.BasicBlock) bool {
		other := ifb.Succs[0]
		if flag {
			other = ifb.Succs[1]
		}
		this := ifb.Succs[1]
		if flag {
			this = ifb.Succs[0]
		}
		if other != this && len(other.Preds) == 1 && other.Dominates(b) {
			return false
		}
		return true
	}
	put := func(k int64, v string) string {
		if k < 0 || k >= n {
			return "write outside the array"
		}
		if bytes[k] != "" {
			return "overlapping writes"
		}
		bytes[k] = v
		return ""
	}
	for _, r := range *arr.Referrers() {
		switch x := r.(type) {
		case *ssa.IndexAddr:
			k, isC := core.ConstInt(x.Index)
			for _, r2 := range *x.Referrers() {
				st, isSt := r2.(*ssa.Store)
				if !isSt || st.Addr != ssa.Value(x) {
					return nil, "array element escapes"
				}
				if !onEdge(st.Block()) {
					continue
				}
				b, isB := core.ConstInt(st.Val)
				if !isC || !isB || b < 0 || b > 255 {
					return nil, "non-constant element store"
				}
				if p := put(k, fmt.Sprintf("CONST(%02x)", b)); p != "" {
					return nil, p
				}
			}
		case *ssa.Slice:
			lo := int64(0)
			if x.Low != nil {
				l, isC := core.ConstInt(x.Low)
				if !isC {
					return nil, "non-constant window"
				}
				lo = l
			}
			for _, r2 := range *x.Referrers() {
				cl, isCall := r2.(*ssa.Call)
				if !isCall {
					continue
				}
				switch core.CallName(cl) {
				case "(encoding/binary.bigEndian).PutUint32":
					if !onEdge(cl.Block()) {
						continue
					}
					val := giVal(fn, cl.Call.Args[2], flag, flagIf, 0)
					if val == "" {
						return nil, "unrecognised PutUint32 operand"
					}
					for j := int64(0); j < 4; j++ {
						if p := put(lo+j, fmt.Sprintf("BE4(%s)#%d", val, j)); p != "" {
							return nil, p
						}
					}
				case "(*math/big.Int).SetBytes":
				default:
					return nil, "the array is handed to " + core.CallName(cl)
				}
			}
		case *ssa.DebugRef:
		default:
			return nil, fmt.Sprintf("unrecognised use of the array %T", r)
		}
	}
	var out []string
	k := int64(0)
	for k < n && bytes[k] == "" {
		k++ // leading zeros
	}
	for k < n {
		switch {
		case bytes[k] == "":
			run := int64(0)
			for k+run < n && bytes[k+run] == "" {
				run++
			}
			if run%4 != 0 {
				return nil, fmt.Sprintf("%d untouched bytes in the middle", run)
			}
			for j := int64(0); j < run/4; j++ {
				out = append(out, "BE4(0)")
			}
			k += run
		case strings.HasSuffix(bytes[k], "#0"):
			base := strings.TrimSuffix(bytes[k], "#0")
			for j := int64(1); j < 4; j++ {
				if k+j >= n || bytes[k+j] != fmt.Sprintf("%s#%d", base, j) {
					return nil, "torn 4-byte field"
				}
			}
			out = append(out, base)
			k += 4
		case strings.HasPrefix(bytes[k], "CONST("):
			out = append(out, bytes[k])
			k++
		default:
			return nil, "torn 4-byte field"
		}
	}
	return out, ""
}

// giVal: the integer a part encodes on the given edge of the flag: a parameter, or a constant.
func giVal(fn *ssa.Function, v ssa.Value, flag bool, flagIf *ssa.If, d int) string {
	if d > 6 {
		return ""
	}
	switch x := v.(type) {
	case *ssa.Convert:
		return giVal(fn, x.X, flag, flagIf, d+1)
	case *ssa.ChangeType:
		return giVal(fn, x.X, flag, flagIf, d+1)
	case *ssa.Parameter:
		for i, fp := range fn.Params {
			if fp == x {
				return fmt.Sprintf("param%d", i)
			}
		}
	case *ssa.Const:
		if k, ok := core.ConstInt(x); ok {
			return fmt.Sprint(k)
		}
	case *ssa.Phi:
		if pick := giPick(x, flag, flagIf); pick != nil {
			return giVal(fn, pick, flag, flagIf, d+1)
		}
	}
	return ""
}

// giPick: the operand of phi on the edge taken when the flag has the given value (nil when not determined by the flag).
func giPick(x *ssa.Phi, flag bool, flagIf *ssa.If) ssa.Value {
	ifb := flagIf.Block()
	var pick ssa.Value
	n := 0
	for i, e := range x.Edges {
		p := x.Block().Preds[i]
		var val, known bool
		switch {
		case p == ifb:
			val, known = ifb.Succs[0] == x.Block(), ifb.Succs[0] != ifb.Succs[1]
		case ifb.Succs[0] != x.Block() && ifb.Succs[0].Dominates(p):
			val, known = true, true
		case ifb.Succs[1] != x.Block() && ifb.Succs[1].Dominates(p):
			val, known = false, true
		}
		if known && val == flag {
			pick = e
			n++
		}
	}
	if n != 1 {
		return nil
	}
	return pick
}

func arrayLenOf(t types.Type) int64 {
	if p, ok := t.Underlying().(*types.Pointer); ok {
		t = p.Elem()
	}
	if a, ok := t.Underlying().(*types.Array); ok {
		return a.Len()
	}
	return -1
}

// c19Encode: the integer GenerateGlobalIndex builds is flag·2^64 + rollup·2^32 + leaf with the rollup part forced to zero
// on the mainnet edge — read as bytes: mainnet 01‖00000000‖BE32(leaf), otherwise BE32(rollup)‖BE32(leaf).
func c19Encode(c *core.Ctx) {
	const rule = "C19-encode"
	fn := c.MustFn(rule, "bridgesync", "", "GenerateGlobalIndex")
	if fn == nil {
		return
	}
	var flagIf *ssa.If
	core.Instrs(fn, func(i ssa.Instruction) {
		if iff, ok := i.(*ssa.If); ok && iff.Cond == ssa.Value(fn.Params[0]) {
			flagIf = iff
		}
	})
	var set *ssa.Call
	for _, r := range core.Returns(fn) {
		if cl, ok := r.Results[0].(*ssa.Call); ok && core.CallName(cl) == "(*math/big.Int).SetBytes" {
			set = cl
		}
	}
	if flagIf == nil || set == nil || len(core.Returns(fn)) != 1 {
		c.Violate(rule, "bridgesync.GenerateGlobalIndex#shape", fn.Pos(), "expected `if mainnetFlag` and a single return of new(big.Int).SetBytes(bytes)")
		return
	}
	for _, w := range []struct {
		flag bool
		name string
		want string
	}{
		{true, "mainnet", "[CONST(01) BE4(0) BE4(param2)]"},
		{false, "rollup", "[BE4(param1) BE4(param2)]"},
	} {
		parts, problem := giBytes(fn, set.Call.Args[1], w.flag, flagIf, 0)
		got := fmt.Sprint(parts)
		c.Decide(problem == "" && got == w.want, rule, "bridgesync.GenerateGlobalIndex#"+w.name, set.Pos(), fmt.Sprintf("big-endian bytes on the %s edge = %s %s (contract: bit 64 flag, bits 63..32 rollup index — zero for mainnet —, bits 31..0 leaf index)", w.name, got, problem))
	}
	// the scratch buffer is shared: each FillBytes result is appended before the buffer is filled again
	okAlias := true
	n := 0
	core.Instrs(fn, func(i ssa.Instruction) {
		cl, ok := i.(*ssa.Call)
		if !ok || core.CallName(cl) != "(*math/big.Int).FillBytes" {
			return
		}
		n++
		var use ssa.Instruction
		for _, r := range *cl.Referrers() {
			if cc := core.AsCall(r); cc != nil {
				use = r
			}
		}
		if use == nil {
			okAlias = false
			return
		}
		f := (&core.Walk{Stop: func(x ssa.Instruction) bool { return x == use }, Target: func(x ssa.Instruction) bool {
			o, ok := x.(*ssa.Call)
			return ok && o != cl && core.CallName(o) == "(*math/big.Int).FillBytes"
		}}).From(core.After(cl), nil)
		if f != nil {
			okAlias = false
		}
	})
	c.Decide(okAlias, rule, "bridgesync.GenerateGlobalIndex#scratch-buffer", fn.Pos(), fmt.Sprintf("every FillBytes result (%d) is consumed (copied by append) before the shared buffer is filled again", n))
}

// c19Decode: the decoder reads the same layout back: flag ⇔ the minimal big-endian form has 9 bytes (bit 64 set for
// any value below 2^72), leaf = the last (up to) 4 bytes, rollup = the (up to) 4 bytes before them.
func c19Decode(c *core.Ctx) {
	const rule = "C19-decode"
	fn := c.MustFn(rule, "bridgesync", "", "DecodeGlobalIndex")
	if fn == nil {
		return
	}
	sx := core.NewSymx()
	B := "(*math/big.Int).Bytes(globalIndex)"
	L := "len(" + B + ")"
	// recognised forms of "bit 64 is set"
	flagForms := map[string]bool{
		"(" + L + " == const(9))":                                   true,
		"((*math/big.Int).BitLen(globalIndex) > const(64))":         true,
		"((*math/big.Int).BitLen(globalIndex) >= const(65))":        true,
		"((*math/big.Int).BitLen(globalIndex) == const(65))":        true,
		"((*math/big.Int).Bit(globalIndex, const(64)) == const(1))": true,
		"((*math/big.Int).Bit(globalIndex, const(64)) != const(0))": true,
	}
	on := core.TermEdges(fn, sx, func(s string, _ *core.Term) bool { return flagForms[s] }, true)
	off := core.TermEdges(fn, sx, func(s string, _ *core.Term) bool { return flagForms[s] }, false)
	empty := core.TermEdges(fn, sx, func(s string, _ *core.Term) bool { return s == "("+L+" == const(0))" }, true)
	lo := "builtin.max((" + L + " - const(4)), const(0))"
	lo2 := "builtin.max((" + lo + " - const(4)), const(0))"
	wantLeaf := "common.BytesToUint32(" + B + "[" + lo + ":])"
	wantRollup := "common.BytesToUint32(" + B + "[" + lo2 + ":" + lo + "])"
	okFlag, okParts := len(on) > 0, true
	nTrue := 0
	detail := ""
	for _, rc := range core.ReturnCases(fn) {
		f := sx.Of(rc.Values[0]).String()
		r, l := sx.Of(rc.Values[1]).String(), sx.Of(rc.Values[2]).String()
		switch f {
		case "const(true)":
			nTrue++
			okFlag = okFlag && rc.ReachableOnlyVia(fn, on)
		case "const(false)":
			okFlag = okFlag && rc.ReachableOnlyVia(fn, append(append([]core.IfEdge{}, off...), empty...))
		default:
			okFlag = false
		}
		if r == "const(0)" && l == "const(0)" && len(empty) > 0 && rc.ReachableOnlyVia(fn, empty) {
			continue // the zero value
		}
		if r != wantRollup || l != wantLeaf {
			okParts = false
			detail = r + " ; " + l
		}
	}
	if nTrue == 0 {
		// value form: `mainnetFlag = len(bytes) == 9` — every non-trivial return carries a recognised test as the flag
		okFlag = true
		for _, rc := range core.ReturnCases(fn) {
			f := sx.Of(rc.Values[0]).String()
			switch {
			case flagForms[f]:
				nTrue++
			case f == "const(false)" && len(empty) > 0 && rc.ReachableOnlyVia(fn, empty):
			default:
				okFlag = false
			}
		}
	}
	c.Decide(okFlag && nTrue >= 1, rule, "bridgesync.DecodeGlobalIndex#flag", fn.Pos(), "mainnetFlag is true exactly on the edge where bit 64 is set (recognised forms: len(Bytes())==9, BitLen()>64, Bit(64)==1)")
	c.Decide(okParts, rule, "bridgesync.DecodeGlobalIndex#parts", fn.Pos(), "leaf = last ≤4 bytes, rollup = the ≤4 bytes before them (zero-padded by BytesToUint32) "+detail)
	// BytesToUint32 left-pads to 4 bytes and reads big-endian
	b2u := c.MustFn(rule, "common", "", "BytesToUint32")
	if b2u != nil {
		ok := false
		for _, r := range core.Returns(b2u) {
			s := sx.Of(r.Results[0]).String()
			ok = strings.HasPrefix(s, "(encoding/binary.bigEndian).Uint32(")
		}
		okCopy := false
		core.Instrs(b2u, func(i ssa.Instruction) {
			if cc := core.AsCall(i); cc != nil {
				if b, isB := cc.Value.(*ssa.Builtin); isB && b.Name() == "copy" {
					dst := sx.Of(cc.Args[0]).String()
					okCopy = strings.HasSuffix(dst, "[(const(4) - len(bytes)):]") && sx.Of(cc.Args[1]).String() == "bytes"
					// the buffer read is the buffer filled
					if sl, isS := cc.Args[0].(*ssa.Slice); isS {
						for _, r := range core.Returns(b2u) {
							if rc, isC := r.Results[0].(*ssa.Call); isC && len(rc.Call.Args) > 0 {
								okCopy = okCopy && rc.Call.Args[len(rc.Call.Args)-1] == sl.X
							}
						}
					}
				}
			}
		})
		c.Decide(ok && okCopy, rule, "common.BytesToUint32#left-padded-big-endian", b2u.Pos(), "copy(padded[4-len(b):], b); BigEndian.Uint32(padded)")
	}
}
