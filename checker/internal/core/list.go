package core

import (
	"fmt"
	"go/token"

	"golang.org/x/tools/go/ssa"
)

// [LIST] — how a slice-of-chunks handed to a variadic hash call is built inside a `for range X` loop.

type ListElem struct {
	Val   ssa.Value       // the value stored as the element
	Idx   ssa.Value       // index (store form), nil for the append form
	At    ssa.Instruction // the store / append
	Fresh bool            // the element's backing storage is created in the iteration that writes it
	Why   string
}

type ListBuild struct {
	Make     *ssa.MakeSlice
	Append   bool
	Elems    []ListElem
	Problems []string
}

// loopBlocks: the blocks on a cycle through b (empty when b is not in a loop).
func loopBlocks(b *ssa.BasicBlock) map[*ssa.BasicBlock]bool {
	fwd := map[*ssa.BasicBlock]bool{}
	var walk func(x *ssa.BasicBlock)
	walk = func(x *ssa.BasicBlock) {
		for _, s := range x.Succs {
			if !fwd[s] {
				fwd[s] = true
				walk(s)
			}
		}
	}
	walk(b)
	if !fwd[b] {
		return nil
	}
	bwd := map[*ssa.BasicBlock]bool{}
	var back func(x *ssa.BasicBlock)
	back = func(x *ssa.BasicBlock) {
		for _, p := range x.Preds {
			if !bwd[p] {
				bwd[p] = true
				back(p)
			}
		}
	}
	back(b)
	out := map[*ssa.BasicBlock]bool{}
	for x := range fwd {
		if bwd[x] {
			out[x] = true
		}
	}
	return out
}

// InLoop reports whether the instruction executes once per iteration of some loop.
func InLoop(i ssa.Instruction) bool { return loopBlocks(i.Block()) != nil }

// LoopOf returns the blocks of the (outermost) cycle the instruction's block lies on, nil when it is on none.
func LoopOf(i ssa.Instruction) map[*ssa.BasicBlock]bool { return loopBlocks(i.Block()) }

// freshPerIteration: v's backing array is created by the iteration that computes v: a call result computed in
// the loop, or an append chain rooted at a make([]T, ...) executed in the loop. A re-sliced loop-carried or hoisted
// buffer is not fresh.
func freshPerIteration(v ssa.Value, loop map[*ssa.BasicBlock]bool) (bool, string) {
	for d := 0; d < 16; d++ {
		switch x := v.(type) {
		case *ssa.Call:
			if b, ok := x.Call.Value.(*ssa.Builtin); ok && b.Name() == "append" {
				v = x.Call.Args[0]
				continue
			}
			if loop[x.Block()] {
				return true, "call result computed in the iteration"
			}
			return false, "call result computed outside the loop"
		case *ssa.MakeSlice:
			if loop[x.Block()] {
				return true, "make in the iteration"
			}
			return false, "buffer allocated outside the loop (shared by all elements)"
		case *ssa.Slice:
			if a, ok := x.X.(*ssa.Alloc); ok && a.Heap && loop[a.Block()] {
				return true, "array allocated in the iteration"
			}
			return false, "re-slice of an existing buffer"
		case *ssa.Phi:
			return false, "loop-carried buffer"
		case *ssa.ChangeType:
			v = x.X
		default:
			return false, fmt.Sprintf("%T", v)
		}
	}
	return false, "too deep"
}

// AnalyseList resolves the construction of `list` (the variadic argument of a hash call).
func AnalyseList(list ssa.Value) *ListBuild {
	lb := &ListBuild{}
	switch x := list.(type) {
	case *ssa.MakeSlice:
		lb.Make = x
		for _, r := range *x.Referrers() {
			ia, ok := r.(*ssa.IndexAddr)
			if !ok {
				continue
			}
			for _, r2 := range *ia.Referrers() {
				if st, ok := r2.(*ssa.Store); ok && st.Addr == ia {
					loop := loopBlocks(st.Block())
					f, why := freshPerIteration(st.Val, loop)
					lb.Elems = append(lb.Elems, ListElem{Val: st.Val, Idx: ia.Index, At: st, Fresh: f, Why: why})
				}
			}
		}
	case *ssa.Phi:
		lb.Append = true
		for _, e := range x.Edges {
			switch ev := e.(type) {
			case *ssa.MakeSlice:
				lb.Make = ev
			case *ssa.Call:
				b, ok := ev.Call.Value.(*ssa.Builtin)
				if !ok || b.Name() != "append" || ev.Call.Args[0] != ssa.Value(x) {
					lb.Problems = append(lb.Problems, "list is extended by something other than append(list, elem)")
					continue
				}
				sl, ok := ev.Call.Args[1].(*ssa.Slice)
				var arr *ssa.Alloc
				if ok {
					arr, _ = sl.X.(*ssa.Alloc)
				}
				if arr == nil {
					lb.Problems = append(lb.Problems, "append of a non-literal element list")
					continue
				}
				loop := loopBlocks(ev.Block())
				for _, r := range *arr.Referrers() {
					ia, ok := r.(*ssa.IndexAddr)
					if !ok {
						continue
					}
					for _, r2 := range *ia.Referrers() {
						if st, ok := r2.(*ssa.Store); ok && st.Addr == ia {
							f, why := freshPerIteration(st.Val, loop)
							lb.Elems = append(lb.Elems, ListElem{Val: st.Val, At: ev, Fresh: f, Why: why})
						}
					}
				}
			default:
				lb.Problems = append(lb.Problems, fmt.Sprintf("list phi edge %T", e))
			}
		}
	default:
		lb.Problems = append(lb.Problems, fmt.Sprintf("list built by %T", list))
	}
	if lb.Make == nil {
		lb.Problems = append(lb.Problems, "no make(...) of the list found")
	}
	// the same append can feed the loop phi through several back edges
	var uniq []ListElem
	seen := map[[2]any]bool{}
	for _, e := range lb.Elems {
		k := [2]any{e.At, e.Val}
		if !seen[k] {
			seen[k] = true
			uniq = append(uniq, e)
		}
	}
	lb.Elems = uniq
	return lb
}

// FullRange checks that the loop containing `at` runs once for every index of the slice whose symbolic term is xs:
// the only edge leaving the loop is the false edge of `idx < len(xs)` in the loop header, and `at` is executed in every
// iteration (it dominates every back edge).
func FullRange(at ssa.Instruction, sx *Symx, xs string) (bool, string) {
	return FullRangeFor(at, sx, xs, nil)
}

// FullRangeFor is FullRange where leaving the loop early is tolerated on paths that cannot reach `use` (the place
// where the list is consumed), e.g. an error return from inside the loop.
func FullRangeFor(at ssa.Instruction, sx *Symx, xs string, use ssa.Instruction) (bool, string) {
	loop := loopBlocks(at.Block())
	if loop == nil {
		return false, "not in a loop"
	}
	var header *ssa.BasicBlock
	for b := range loop {
		for _, p := range b.Preds {
			if !loop[p] {
				if header != nil && header != b {
					return false, "loop with two entries"
				}
				header = b
			}
		}
	}
	if header == nil {
		return false, "no loop header"
	}
	want := "((loop{const(-1)} + const(1)) < len(" + xs + "))"
	for b := range loop {
		for si, s := range b.Succs {
			if loop[s] {
				continue
			}
			iff, ok := b.Instrs[len(b.Instrs)-1].(*ssa.If)
			if use != nil && (b != header || si != 1) {
				if (&Walk{NoEnv: true, Target: func(x ssa.Instruction) bool { return x == use }}).From(Point{B: s, I: 0}, nil) == nil {
					continue // this way out never reaches the consumer of the list
				}
			}
			if b != header || !ok || si != 1 || sx.Of(iff.Cond).String() != want {
				return false, fmt.Sprintf("the loop is left at block %d other than by exhausting %s", b.Index, xs)
			}
		}
	}
	for _, p := range header.Preds {
		if loop[p] && !at.Block().Dominates(p) {
			return false, "the element write is skipped on some iteration"
		}
	}
	return true, ""
}

var _ = token.NoPos

// SliceElemWrites finds, in fn, every write of a []byte-like slice value as an element of a longer-lived list inside a
// loop: `list = append(list, v)` and `list[i] = v`. Each is returned with the freshness verdict of v.
func SliceElemWrites(fn *ssa.Function) []ListElem {
	var out []ListElem
	isSliceOfBytes := func(v ssa.Value) bool { return isByteSlice(v.Type()) }
	for _, b := range fn.Blocks {
		loop := loopBlocks(b)
		if loop == nil {
			continue
		}
		for _, ins := range b.Instrs {
			st, ok := ins.(*ssa.Store)
			if !ok || !isSliceOfBytes(st.Val) {
				continue
			}
			ia, ok := st.Addr.(*ssa.IndexAddr)
			if !ok {
				continue
			}
			// varargs array of an append(list, v) in this block, or a direct list[i] = v
			direct := true
			if arr, isA := ia.X.(*ssa.Alloc); isA {
				direct = false
				for _, r := range *arr.Referrers() {
					if sl, isS := r.(*ssa.Slice); isS {
						for _, r2 := range *sl.Referrers() {
							if cl, isC := r2.(*ssa.Call); isC {
								if bi, isB := cl.Call.Value.(*ssa.Builtin); isB && bi.Name() == "append" && cl.Call.Args[1] == ssa.Value(sl) {
									if _, fromPhi := cl.Call.Args[0].(*ssa.Phi); fromPhi {
										direct = true
									}
								}
							}
						}
					}
				}
			}
			if !direct {
				continue
			}
			if c, isC := st.Val.(*ssa.Const); isC && c.Value == nil {
				continue
			}
			f, why := freshPerIteration(st.Val, loop)
			out = append(out, ListElem{Val: st.Val, At: st, Fresh: f, Why: why})
		}
	}
	return out
}
