package core

import (
	"fmt"
	"go/token"
	"go/types"
	"sort"
	"strings"

	"golang.org/x/tools/go/ssa"
)

// Term is the symbolic origin of an SSA value ([PROV] in DESIGN.md): a tree whose leaves are origin atoms
// (parameter, free variable, constant, global, call result) and whose inner nodes are field selections, indexings,
// arithmetic, struct literals and Phi merges.
type Term struct {
	Op     string // param freevar const global field call extract phi binop unop index slice lit deref len alloc range lookup cycle unknown closure
	Name   string
	Args   []*Term
	Fields map[string]*Term // for Op=="lit"
	Val    ssa.Value        // the SSA value this term was built from (leaf identity for "same object" checks)
}

func (t *Term) String() string {
	if t == nil {
		return "<nil>"
	}
	switch t.Op {
	case "param", "freevar", "global":
		return t.Name
	case "const":
		return "const(" + t.Name + ")"
	case "field":
		return t.Args[0].String() + "." + t.Name
	case "deref":
		return "*" + t.Args[0].String()
	case "call":
		as := make([]string, len(t.Args))
		for i, a := range t.Args {
			as[i] = a.String()
		}
		return t.Name + "(" + strings.Join(as, ", ") + ")"
	case "extract":
		return t.Args[0].String() + "#" + t.Name
	case "phi":
		as := make([]string, len(t.Args))
		for i, a := range t.Args {
			as[i] = a.String()
		}
		sort.Strings(as)
		return "phi{" + strings.Join(as, " | ") + "}"
	case "binop":
		return "(" + t.Args[0].String() + " " + t.Name + " " + t.Args[1].String() + ")"
	case "unop":
		return t.Name + t.Args[0].String()
	case "index":
		return t.Args[0].String() + "[" + t.Args[1].String() + "]"
	case "slice":
		s := t.Args[0].String() + "["
		if t.Args[1] != nil {
			s += t.Args[1].String()
		}
		s += ":"
		if t.Args[2] != nil {
			s += t.Args[2].String()
		}
		return s + "]"
	case "lit":
		ks := make([]string, 0, len(t.Fields))
		for k := range t.Fields {
			ks = append(ks, k)
		}
		sort.Strings(ks)
		ps := make([]string, len(ks))
		for i, k := range ks {
			ps[i] = k + ": " + t.Fields[k].String()
		}
		return t.Name + "{" + strings.Join(ps, ", ") + "}"
	case "len":
		return "len(" + t.Args[0].String() + ")"
	case "range":
		return "elem(" + t.Args[0].String() + ")"
	case "rangeidx":
		return "idx(" + t.Args[0].String() + ")"
	case "lookup":
		return t.Args[0].String() + "[" + t.Args[1].String() + "]"
	case "recv":
		return "<-" + t.Args[0].String()
	case "loop":
		as := make([]string, len(t.Args))
		for i, a := range t.Args {
			as[i] = a.String()
		}
		sort.Strings(as)
		return "loop{" + strings.Join(as, " | ") + "}"
	}
	if t.Name != "" {
		return t.Op + ":" + t.Name
	}
	return t.Op
}

// HasUnknown reports whether the term contains a node the tracer could not see through.
func (t *Term) HasUnknown() bool {
	found := false
	t.Walk(func(x *Term) {
		if x.Op == "unknown" {
			found = true
		}
	})
	return found
}

func (t *Term) Walk(f func(*Term)) {
	if t == nil {
		return
	}
	f(t)
	for _, a := range t.Args {
		a.Walk(f)
	}
	for _, a := range t.Fields {
		a.Walk(f)
	}
}

// Leaves returns the phi-alternatives of a term (flattened).
func (t *Term) Alts() []*Term {
	if t.Op != "phi" {
		return []*Term{t}
	}
	var out []*Term
	for _, a := range t.Args {
		out = append(out, a.Alts()...)
	}
	return out
}

// Symx builds terms. Inline decides which static callees are looked into (their return value replaces the call).
type Symx struct {
	Inline   func(*ssa.Function) bool
	MaxDepth int
	// ElideConv drops numeric conversions from the rendering (uint8(h) and h index the same level).
	ElideConv bool
	subst     map[ssa.Value]*Term
}

func NewSymx() *Symx { return &Symx{MaxDepth: 40} }

// Bind makes the tracer render value v as the opaque name (keeps terms of loop-heavy functions readable and lets a
// rule ask "is this the same value as that one").
func (s *Symx) Bind(v ssa.Value, name string) *Symx {
	if s.subst == nil {
		s.subst = map[ssa.Value]*Term{}
	}
	s.subst[v] = &Term{Op: "param", Name: name, Val: v}
	return s
}

// BindTerm makes v render as the given term (structure kept: a literal stays a literal with its fields).
func (s *Symx) BindTerm(v ssa.Value, t *Term) *Symx {
	if s.subst == nil {
		s.subst = map[ssa.Value]*Term{}
	}
	s.subst[v] = t
	return s
}

func (s *Symx) Of(v ssa.Value) *Term {
	return s.of(v, map[ssa.Value]bool{}, 0)
}

func shortType(t types.Type) string {
	return strings.ReplaceAll(types.TypeString(t, nil), Mod+"/", "")
}

func (s *Symx) of(v ssa.Value, visiting map[ssa.Value]bool, depth int) *Term {
	if v == nil {
		return nil
	}
	if s.subst != nil {
		if t, ok := s.subst[v]; ok {
			return t
		}
	}
	if depth > s.MaxDepth {
		return &Term{Op: "unknown", Name: "depth", Val: v}
	}
	if visiting[v] {
		return &Term{Op: "cycle", Name: v.Name(), Val: v}
	}
	visiting[v] = true
	defer delete(visiting, v)
	rec := func(x ssa.Value) *Term { return s.of(x, visiting, depth+1) }

	switch x := v.(type) {
	case *ssa.Parameter:
		return &Term{Op: "param", Name: canonicalName(x), Val: v}
	case *ssa.FreeVar:
		return &Term{Op: "freevar", Name: canonicalName(x), Val: v}
	case *ssa.Const:
		n := "nil"
		if x.Value != nil {
			n = x.Value.ExactString()
		} else if !isNillable(x.Type()) {
			n = "zero:" + shortType(x.Type())
		}
		return &Term{Op: "const", Name: n, Val: v}
	case *ssa.Global:
		return &Term{Op: "global", Name: strings.ReplaceAll(x.String(), Mod+"/", ""), Val: v}
	case *ssa.Function:
		return &Term{Op: "func", Name: ShortFn(x), Val: v}
	case *ssa.Builtin:
		return &Term{Op: "builtin", Name: x.Name(), Val: v}
	case *ssa.Field:
		st := x.X.Type().Underlying().(*types.Struct)
		if f := s.ctorField(x.X, st.Field(x.Field).Name(), rec, depth); f != nil {
			return f
		}
		base := rec(x.X)
		// (*p).F of a loaded struct value is p.F; a conversion between struct types with identical fields keeps them
		for base.Op == "deref" && len(base.Args) == 1 || (base.Op == "conv" && len(base.Args) == 1 && base.Args[0].Op == "deref") {
			base = base.Args[0]
		}
		return &Term{Op: "field", Name: st.Field(x.Field).Name(), Args: []*Term{base}, Val: v}
	case *ssa.FieldAddr:
		// address of a field: represented like the field itself (loads strip nothing)
		st := derefStruct(x.X.Type())
		if st == nil {
			return &Term{Op: "unknown", Name: "fieldaddr", Val: v}
		}
		return &Term{Op: "field", Name: st.Field(x.Field).Name(), Args: []*Term{nonNilAlts(rec(x.X))}, Val: v}
	case *ssa.IndexAddr:
		return &Term{Op: "index", Args: []*Term{rec(x.X), rec(x.Index)}, Val: v}
	case *ssa.Index:
		return &Term{Op: "index", Args: []*Term{rec(x.X), rec(x.Index)}, Val: v}
	case *ssa.Lookup:
		return &Term{Op: "lookup", Args: []*Term{rec(x.X), rec(x.Index)}, Val: v}
	case *ssa.Slice:
		var lo, hi *Term
		if x.Low != nil {
			lo = rec(x.Low)
		}
		if x.High != nil {
			hi = rec(x.High)
		}
		return &Term{Op: "slice", Args: []*Term{rec(x.X), lo, hi}, Val: v}
	case *ssa.Alloc:
		return s.allocTerm(x, visiting, depth)
	case *ssa.UnOp:
		switch x.Op {
		case token.MUL:
			return s.load(x, visiting, depth)
		case token.ARROW:
			return &Term{Op: "recv", Args: []*Term{rec(x.X)}, Val: v}
		default:
			return &Term{Op: "unop", Name: x.Op.String(), Args: []*Term{rec(x.X)}, Val: v}
		}
	case *ssa.BinOp:
		return &Term{Op: "binop", Name: x.Op.String(), Args: []*Term{rec(x.X), rec(x.Y)}, Val: v}
	case *ssa.Convert:
		if s.ElideConv {
			return rec(x.X)
		}
		t := rec(x.X)
		// keep numeric conversions visible only when they narrow/widen between different basic kinds
		return &Term{Op: "call", Name: "conv:" + shortType(x.Type()), Args: []*Term{t}, Val: v}
	case *ssa.ChangeType:
		return rec(x.X)
	case *ssa.ChangeInterface:
		return rec(x.X)
	case *ssa.MakeInterface:
		return rec(x.X)
	case *ssa.SliceToArrayPointer:
		return rec(x.X)
	case *ssa.TypeAssert:
		return rec(x.X)
	case *ssa.Extract:
		tup := rec(x.Tuple)
		if tup.Op == "tuple" && x.Index < len(tup.Args) {
			return tup.Args[x.Index]
		}
		if tup.Op == "phi" {
			// phi of tuples (inlined callee with several returns)
			var alts []*Term
			allTup := true
			for _, a := range tup.Args {
				if a.Op == "tuple" && x.Index < len(a.Args) {
					alts = append(alts, a.Args[x.Index])
				} else {
					allTup = false
				}
			}
			if allTup {
				return mkPhi(alts, v)
			}
		}
		if sel, ok := x.Tuple.(*ssa.Select); ok && x.Index >= 2 {
			k := 2
			for _, st := range sel.States {
				if st.Dir == types.RecvOnly {
					if k == x.Index {
						return &Term{Op: "recv", Args: []*Term{rec(st.Chan)}, Val: v}
					}
					k++
				}
			}
		}
		return &Term{Op: "extract", Name: fmt.Sprint(x.Index), Args: []*Term{tup}, Val: v}
	case *ssa.Phi:
		// a unit-step counter that starts at 0 and is used directly (`for i := 0; …; i++`) denotes the same sequence as
		// the hidden counter of a range loop (`phi{-1, …}+1`): render both the same way, so that the loop form does not
		// change any term
		if init, ok := unitStepCounter(x); ok && init == 0 {
			return &Term{Op: "binop", Name: "+", Args: []*Term{
				{Op: "loop", Args: []*Term{{Op: "const", Name: "-1"}}, Val: v},
				{Op: "const", Name: "1"}}, Val: v}
		}
		var alts []*Term
		for _, e := range x.Edges {
			alts = append(alts, rec(e))
		}
		return mkPhi(alts, v)
	case *ssa.Call:
		return s.call(x, visiting, depth)
	case *ssa.MakeClosure:
		return &Term{Op: "closure", Name: ShortFn(x.Fn.(*ssa.Function)), Val: v}
	case *ssa.MakeSlice:
		return &Term{Op: "makeslice", Name: shortType(x.Type()), Args: []*Term{rec(x.Len)}, Val: v}
	case *ssa.MakeMap:
		// map literal: constant-key updates in the same function
		t := &Term{Op: "makemap", Name: shortType(x.Type()), Val: v}
		if refs := x.Referrers(); refs != nil {
			for _, r := range *refs {
				if mu, ok := r.(*ssa.MapUpdate); ok && mu.Map == ssa.Value(x) {
					if k, ok := mu.Key.(*ssa.Const); ok && k.Value != nil {
						if t.Fields == nil {
							t.Fields = map[string]*Term{}
							t.Op = "lit"
						}
						t.Fields[k.Value.ExactString()] = rec(mu.Value)
					}
				}
			}
		}
		return t
	case *ssa.MakeChan:
		return &Term{Op: "makechan", Val: v}
	case *ssa.Range:
		return &Term{Op: "rangeiter", Args: []*Term{rec(x.X)}, Val: v}
	case *ssa.Next:
		return &Term{Op: "next", Args: []*Term{rec(x.Iter)}, Val: v}
	case *ssa.Select:
		return &Term{Op: "select", Val: v}
	}
	return &Term{Op: "unknown", Name: fmt.Sprintf("%T", v), Val: v}
}

// unitStepCounter: phi{k, phi+1} with a constant k.
func unitStepCounter(p *ssa.Phi) (int64, bool) {
	if len(p.Edges) != 2 {
		return 0, false
	}
	var init int64
	haveInit, haveStep := false, false
	for _, e := range p.Edges {
		if k, ok := ConstInt(e); ok {
			init, haveInit = k, true
			continue
		}
		if b, ok := e.(*ssa.BinOp); ok && b.Op == token.ADD {
			if one, ok := ConstInt(b.Y); ok && one == 1 && b.X == ssa.Value(p) {
				haveStep = true
			}
		}
	}
	return init, haveInit && haveStep
}

func isNillable(t types.Type) bool {
	switch t.Underlying().(type) {
	case *types.Pointer, *types.Slice, *types.Map, *types.Chan, *types.Interface, *types.Signature:
		return true
	}
	return false
}

func mkPhi(alts []*Term, v ssa.Value) *Term {
	if len(alts) == 1 && alts[0] != nil && alts[0].Op != "cycle" && v == nil {
		return alts[0]
	}
	seen := map[string]bool{}
	var out []*Term
	loop := false
	defer func() { _ = loop }()
	for _, a := range alts {
		for _, x := range a.Alts() {
			if x.Op == "cycle" {
				loop = true
				continue
			}
			if containsCycle(x, v) {
				// loop-carried update of this very phi (e.g. i+1): summarised by the loop marker
				loop = true
				continue
			}
			k := x.String()
			if !seen[k] {
				seen[k] = true
				out = append(out, x)
			}
		}
	}
	if loop && v != nil {
		return &Term{Op: "loop", Args: out, Val: v}
	}
	if len(out) == 1 {
		return out[0]
	}
	return &Term{Op: "phi", Args: out, Val: v}
}

func containsCycle(t *Term, v ssa.Value) bool {
	if v == nil {
		return false
	}
	found := false
	t.Walk(func(x *Term) {
		if x.Op == "cycle" && x.Val == v {
			found = true
		}
	})
	return found
}

func derefStruct(t types.Type) *types.Struct {
	if p, ok := t.Underlying().(*types.Pointer); ok {
		t = p.Elem()
	}
	st, _ := t.Underlying().(*types.Struct)
	return st
}

// storesTo collects the values stored through address `addr` inside its function (direct Store instructions).
func storesTo(addr ssa.Value) []ssa.Value {
	var out []ssa.Value
	for _, ref := range *addr.Referrers() {
		if st, ok := ref.(*ssa.Store); ok && st.Addr == addr {
			out = append(out, st.Val)
		}
	}
	return out
}

// allocTerm describes a local/heap cell by what is stored into it: a struct literal (field-wise stores), an array
// literal (index-wise stores), or the merge of whole-value stores.
func (s *Symx) allocTerm(a *ssa.Alloc, visiting map[ssa.Value]bool, depth int) *Term {
	rec := func(x ssa.Value) *Term { return s.of(x, visiting, depth+1) }
	elem := a.Type().Underlying().(*types.Pointer).Elem()
	var whole []*Term
	var wholeStore *ssa.Store
	var fieldStores []*ssa.Store
	fields := map[string][]*Term{}
	idx := map[string][]*Term{}
	escapes := false
	for _, ref := range *a.Referrers() {
		switch r := ref.(type) {
		case *ssa.Store:
			if r.Addr == a {
				whole = append(whole, rec(r.Val))
				wholeStore = r
			} else {
				escapes = true
			}
		case *ssa.FieldAddr:
			st := derefStruct(a.Type())
			name := st.Field(r.Field).Name()
			for _, sv := range storesTo(r) {
				fields[name] = append(fields[name], rec(sv))
			}
			for _, ref2 := range *r.Referrers() {
				if st2, ok := ref2.(*ssa.Store); ok && st2.Addr == ssa.Value(r) {
					fieldStores = append(fieldStores, st2)
				}
			}
		case *ssa.IndexAddr:
			k := rec(r.Index).String()
			for _, sv := range storesTo(r) {
				idx[k] = append(idx[k], rec(sv))
			}
		case *ssa.UnOp, *ssa.DebugRef, *ssa.Slice:
		default:
			escapes = true
		}
	}
	_ = escapes
	if len(fields) > 0 {
		t := &Term{Op: "lit", Name: shortType(elem), Fields: map[string]*Term{}, Val: a}
		for k, vs := range fields {
			t.Fields[k] = mkPhi(vs, nil)
		}
		if len(whole) > 0 {
			// `v := T{…}; v.f = x` (a struct copied into a local, e.g. a by-value parameter of an expanded helper, and
			// then adjusted): the literal's fields, overridden by the field stores that follow the copy
			if w := whole[0]; len(whole) == 1 && w.Op == "lit" && w.Name == t.Name && w.Fields["<whole>"] == nil {
				after := true
				for _, fs := range fieldStores {
					if !Dominates(wholeStore, fs) {
						after = false
					}
				}
				if after {
					for k, v := range w.Fields {
						if _, overridden := t.Fields[k]; !overridden {
							t.Fields[k] = v
						}
					}
					return t
				}
			}
			t.Fields["<whole>"] = mkPhi(whole, nil)
		}
		return t
	}
	if len(idx) > 0 {
		t := &Term{Op: "lit", Name: shortType(elem), Fields: map[string]*Term{}, Val: a}
		for k, vs := range idx {
			t.Fields["["+k+"]"] = mkPhi(vs, nil)
		}
		return t
	}
	if len(whole) > 0 {
		return mkPhi(whole, a)
	}
	return &Term{Op: "alloc", Name: shortType(elem), Val: a}
}

func (s *Symx) load(u *ssa.UnOp, visiting map[ssa.Value]bool, depth int) *Term {
	rec := func(x ssa.Value) *Term { return s.of(x, visiting, depth+1) }
	switch a := u.X.(type) {
	case *ssa.Alloc:
		vals, entry := ReachingStores(u, a)
		// `x := T{}` followed by element-wise writes: the zero initialisation is not the content
		if len(vals) > 0 && hasElementStores(a) {
			allZero := true
			for _, v := range vals {
				if c, ok := v.(*ssa.Const); !ok || c.Value != nil {
					allZero = false
				}
			}
			if allZero {
				return rec(a)
			}
		}
		if len(vals) > 0 {
			var alts []*Term
			for _, v := range vals {
				alts = append(alts, rec(v))
			}
			if entry {
				alts = append(alts, &Term{Op: "const", Name: "zero:" + shortType(a.Type().Underlying().(*types.Pointer).Elem())})
			}
			return mkPhi(alts, u)
		}
		return rec(a)
	case *ssa.FieldAddr:
		if base, ok := a.X.(*ssa.Alloc); ok {
			bt := rec(base)
			st := derefStruct(base.Type())
			name := st.Field(a.Field).Name()
			if bt.Op == "lit" {
				if f, ok := bt.Fields[name]; ok {
					return f
				}
			}
			// a local copy of what a pointer points to (`v := *p; … v.F`, a by-value struct parameter of an expanded helper):
			// the field of the copy is the field behind the pointer at the time of the copy
			if bt.Op == "deref" && len(bt.Args) == 1 {
				return &Term{Op: "field", Name: name, Args: []*Term{bt.Args[0]}, Val: u}
			}
			// `sub := NewBlockRange(a, b); … sub.FromBlock`: the local holds the result of a plain constructor
			if bt.Val != nil {
				if f := s.ctorField(bt.Val, name, rec, depth); f != nil {
					return f
				}
			}
			return &Term{Op: "field", Name: name, Args: []*Term{bt}, Val: u}
		}
		return rec(a)
	case *ssa.IndexAddr:
		return rec(a)
	case *ssa.Global:
		return rec(a)
	case *ssa.FreeVar:
		// captured variable cell: the variable itself
		return &Term{Op: "freevar", Name: canonicalName(a), Val: a}
	}
	return &Term{Op: "deref", Args: []*Term{rec(u.X)}, Val: u}
}

func (s *Symx) call(c *ssa.Call, visiting map[ssa.Value]bool, depth int) *Term {
	rec := func(x ssa.Value) *Term { return s.of(x, visiting, depth+1) }
	cc := &c.Call
	var args []*Term
	for _, a := range CallArgs(cc) {
		args = append(args, rec(a))
	}
	if b, ok := cc.Value.(*ssa.Builtin); ok {
		if b.Name() == "len" {
			return &Term{Op: "len", Args: args, Val: c}
		}
		return &Term{Op: "call", Name: "builtin." + b.Name(), Args: args, Val: c}
	}
	name := FullName(CalleeObj(cc))
	if name == "" {
		name = "dyn:" + rec(cc.Value).String()
	}
	if f := cc.StaticCallee(); f != nil && f.Blocks != nil && s.Inline != nil && s.Inline(f) && depth < s.MaxDepth-5 {
		if t := s.inlineCall(f, cc, visiting, depth); t != nil {
			return t
		}
	}
	return &Term{Op: "call", Name: name, Args: args, Val: c}
}

// inlineCall evaluates the callee's return operands with its parameters substituted by the caller's argument terms.
func (s *Symx) inlineCall(f *ssa.Function, cc *ssa.CallCommon, visiting map[ssa.Value]bool, depth int) *Term {
	sub := &Symx{Inline: s.Inline, MaxDepth: s.MaxDepth, ElideConv: s.ElideConv, subst: map[ssa.Value]*Term{}}
	for k, v := range s.subst {
		sub.subst[k] = v
	}
	for i, p := range f.Params {
		if i < len(cc.Args) {
			sub.subst[p] = s.of(cc.Args[i], visiting, depth+1)
		}
	}
	var alts []*Term
	for _, r := range Returns(f) {
		if len(r.Results) == 1 {
			alts = append(alts, sub.of(r.Results[0], map[ssa.Value]bool{}, depth+1))
		} else {
			t := &Term{Op: "tuple"}
			for _, x := range r.Results {
				t.Args = append(t.Args, sub.of(x, map[ssa.Value]bool{}, depth+1))
			}
			alts = append(alts, t)
		}
	}
	if len(alts) == 0 {
		return nil
	}
	if len(alts) == 1 {
		return alts[0]
	}
	return &Term{Op: "phi", Args: alts}
}

// StripConv removes conversion wrappers.
func StripConv(t *Term) *Term {
	for t != nil && t.Op == "call" && strings.HasPrefix(t.Name, "conv:") {
		t = t.Args[0]
	}
	return t
}

// ReachingStores returns the values of the direct stores to cell `a` that reach the load `u` (backward search over
// the CFG), and whether the function entry is reachable backwards without meeting a store (zero value).
// Writes made by closures that capture the cell are added flow-insensitively.
func ReachingStores(u *ssa.UnOp, a *ssa.Alloc) (vals []ssa.Value, entry bool) {
	seenVal := map[ssa.Value]bool{}
	add := func(v ssa.Value) {
		if !seenVal[v] {
			seenVal[v] = true
			vals = append(vals, v)
		}
	}
	scan := func(b *ssa.BasicBlock, from int) bool {
		for i := from; i >= 0; i-- {
			if st, ok := b.Instrs[i].(*ssa.Store); ok && st.Addr == ssa.Value(a) {
				add(st.Val)
				return true
			}
		}
		return false
	}
	b := u.Block()
	idx := -1
	for i, ins := range b.Instrs {
		if ins == ssa.Instruction(u) {
			idx = i
		}
	}
	visited := map[*ssa.BasicBlock]bool{}
	var back func(b *ssa.BasicBlock)
	back = func(b *ssa.BasicBlock) {
		if len(b.Preds) == 0 {
			entry = true
		}
		for _, p := range b.Preds {
			if visited[p] {
				continue
			}
			visited[p] = true
			if !scan(p, len(p.Instrs)-1) {
				back(p)
			}
		}
	}
	if !scan(b, idx-1) {
		back(b)
	}
	// closures writing the captured cell
	for _, ref := range *a.Referrers() {
		mc, ok := ref.(*ssa.MakeClosure)
		if !ok {
			continue
		}
		fn := mc.Fn.(*ssa.Function)
		for i, bnd := range mc.Bindings {
			if bnd != ssa.Value(a) || i >= len(fn.FreeVars) {
				continue
			}
			fv := fn.FreeVars[i]
			for _, r := range *fv.Referrers() {
				if st, ok := r.(*ssa.Store); ok && st.Addr == ssa.Value(fv) {
					add(st.Val)
				}
			}
		}
	}
	return vals, entry
}

// Brief renders a term compactly (callee base names, no arguments, no spaces) for use in obligation keys.
func (t *Term) Brief() string {
	if t == nil {
		return "nil"
	}
	switch t.Op {
	case "call":
		n := t.Name
		if i := strings.LastIndex(n, "."); i >= 0 {
			n = n[i+1:]
		}
		if strings.HasPrefix(t.Name, "conv:") && len(t.Args) == 1 {
			return t.Args[0].Brief()
		}
		return n + "()"
	case "field":
		return t.Args[0].Brief() + "." + t.Name
	case "extract":
		return t.Args[0].Brief() + "#" + t.Name
	case "binop":
		return "(" + t.Args[0].Brief() + t.Name + t.Args[1].Brief() + ")"
	case "unop":
		return t.Name + t.Args[0].Brief()
	case "const":
		return "K"
	case "index", "lookup":
		return t.Args[0].Brief() + "[]"
	case "phi":
		as := make([]string, 0, len(t.Args))
		seen := map[string]bool{}
		for _, a := range t.Args {
			b := a.Brief()
			if !seen[b] {
				seen[b] = true
				as = append(as, b)
			}
		}
		sort.Strings(as)
		return "phi{" + strings.Join(as, "|") + "}"
	case "deref":
		return "*" + t.Args[0].Brief()
	case "len":
		return "len(" + t.Args[0].Brief() + ")"
	case "lit":
		return t.Name + "{}"
	case "recv":
		return "<-" + t.Args[0].Brief()
	case "loop":
		return "loopvar"
	}
	return strings.ReplaceAll(t.String(), " ", "")
}

func hasElementStores(a *ssa.Alloc) bool {
	for _, ref := range *a.Referrers() {
		switch r := ref.(type) {
		case *ssa.IndexAddr:
			if len(storesTo(r)) > 0 {
				return true
			}
		case *ssa.FieldAddr:
			if len(storesTo(r)) > 0 {
				return true
			}
		}
	}
	return false
}

// nonNilAlts: the base of a field access through a pointer cannot be nil (the access would panic), so the nil
// alternatives of a merged base — the placeholder of a `(nil, false, nil)` / `(nil, err)` result — are dropped.
// NonNilAlts is nonNilAlts for rule code (e.g. the error operand of errors.Is on its true edge).
func NonNilAlts(t *Term) *Term { return nonNilAlts(t) }

func nonNilAlts(t *Term) *Term {
	if t.Op != "phi" {
		return t
	}
	var keep []*Term
	for _, a := range t.Args {
		if a.Op == "const" && (a.Name == "nil" || a.String() == "const(nil)") {
			continue
		}
		keep = append(keep, a)
	}
	if len(keep) == 0 || len(keep) == len(t.Args) {
		return t
	}
	if len(keep) == 1 {
		return keep[0]
	}
	return &Term{Op: "phi", Args: keep, Val: t.Val}
}

// ctorField: v is the result of a call to a plain constructor (one block, one return of a composite literal built from the
// parameters, e.g. NewBlockRange(a, b)); the term of field `name` of that value is the argument it was built from.
func (s *Symx) ctorField(v ssa.Value, name string, rec func(ssa.Value) *Term, depth int) *Term {
	cl, isCall := v.(*ssa.Call)
	if !isCall || depth > 12 {
		return nil
	}
	g := cl.Call.StaticCallee()
	if g == nil || len(g.Blocks) != 1 || len(g.Params) != len(cl.Call.Args) {
		return nil
	}
	ret, isRet := g.Blocks[0].Instrs[len(g.Blocks[0].Instrs)-1].(*ssa.Return)
	if !isRet || len(ret.Results) != 1 {
		return nil
	}
	sub := NewSymx()
	sub.ElideConv = s.ElideConv
	for i, p := range g.Params {
		sub.BindTerm(p, rec(cl.Call.Args[i]))
	}
	lit := sub.Of(ret.Results[0])
	if lit.Op != "lit" || lit.Fields["<whole>"] != nil {
		return nil
	}
	return lit.Fields[name]
}
