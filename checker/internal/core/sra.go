package core

import (
	"fmt"
	"go/ast"
	"go/token"
	"go/types"
	"sort"
	"strings"

	"golang.org/x/tools/go/packages"
)

// [SRA] — source-level scalar replacement of local aggregates of types that did not exist on the pinned tree.
//
// Gathering a handful of loop-carried locals into a small struct (`cur := cursor{from: a, to: b}` … `cur.from = x`) is a
// behaviour-preserving refactoring, but go/ssa keeps a struct local whose fields are addressed as a memory cell: the
// loop-carried values are no longer Phis and every rule that follows values through the loop loses them. After the
// [INLINE] rounds (which turn the methods of such a struct into statements of the caller), a local variable v
//
//   - whose type is a package-level struct type that is not in the frozen type table,
//   - declared by `v := T{…}`, `v := &T{…}` is NOT accepted, or `var v T`,
//   - used only as `v.f` (direct field, read or written, not address-taken), or bound as `c := &(v)` / `c := &v` to a
//     name c that is itself only used as `c.f` or `_ = c` (the receiver binding an expansion leaves behind),
//   - and not mentioned inside any function literal,
//
// is replaced by one local per field. The rewrite is a renaming of memory cells that nobody else can reach, so the
// program is the same; if the result does not type-check the program is analysed as written.

// IsPinnedType reports whether a package-level named type existed on the pinned tree.
func IsPinnedType(t *types.Named) bool {
	o := t.Obj()
	if o == nil || o.Pkg() == nil {
		return true
	}
	return frozenTypes[strings.TrimPrefix(strings.TrimPrefix(o.Pkg().Path(), Mod), "/")+"."+o.Name()]
}

func sraRound(pkgs []*packages.Package, readFile func(abs string) ([]byte, error)) (map[string][]byte, []string) {
	out := map[string][]byte{}
	var log []string
	for _, p := range pkgs {
		if p.Types == nil || p.TypesInfo == nil || IsMockPkg(p.PkgPath) || !strings.HasPrefix(p.PkgPath, Mod) {
			continue
		}
		for _, f := range p.Syntax {
			fname := p.Fset.Position(f.Pos()).Filename
			if strings.HasSuffix(fname, "_test.go") {
				continue
			}
			var sp []splice
			var imports []string
			for _, d := range f.Decls {
				fd, ok := d.(*ast.FuncDecl)
				if !ok || fd.Body == nil {
					continue
				}
				s, imps, l := sraFunc(p, f, fd, readFile)
				sp = append(sp, s...)
				imports = append(imports, imps...)
				log = append(log, l...)
			}
			if len(sp) == 0 {
				continue
			}
			src, err := readFile(fname)
			if err != nil {
				continue
			}
			sort.Slice(sp, func(i, j int) bool { return sp[i].from < sp[j].from })
			var sb strings.Builder
			pos := 0
			okFile := true
			for _, s := range sp {
				if s.from < pos {
					okFile = false
					break
				}
				sb.Write(src[pos:s.from])
				sb.WriteString(s.text)
				pos = s.to
			}
			if !okFile {
				continue
			}
			sb.Write(src[pos:])
			text := sb.String()
			if len(imports) > 0 {
				tf := p.Fset.File(f.Pos())
				at := tf.Offset(f.Name.End())
				text = text[:at] + "; " + strings.Join(imports, "; ") + text[at:]
			}
			out[fname] = []byte(blankUnusedImports(text, f, p))
		}
	}
	return out, log
}

func sraFunc(p *packages.Package, f *ast.File, fd *ast.FuncDecl, readFile func(string) ([]byte, error)) ([]splice, []string, []string) {
	info := p.TypesInfo
	tf := p.Fset.File(f.Pos())
	// candidates: v := T{…} / var v T with T a new package-level struct type
	type cand struct {
		v      *types.Var
		named  *types.Named
		st     *types.Struct
		decl   ast.Stmt
		lit    *ast.CompositeLit // nil for `var v T`
		bad    bool
		fields map[*ast.SelectorExpr]int // v.f / c.f occurrences -> field index
		alias  map[*types.Var]bool
		binds  []ast.Expr // the `&(v)` expressions of alias bindings
	}
	cands := map[*types.Var]*cand{}
	newStruct := func(t types.Type) (*types.Named, *types.Struct) {
		n, ok := t.(*types.Named)
		if !ok || IsPinnedType(n) || n.TypeArgs().Len() > 0 {
			return nil, nil
		}
		if n.Obj().Parent() != n.Obj().Pkg().Scope() {
			return nil, nil
		}
		st, ok := n.Underlying().(*types.Struct)
		if !ok {
			return nil, nil
		}
		return n, st
	}
	ast.Inspect(fd.Body, func(n ast.Node) bool {
		switch x := n.(type) {
		case *ast.FuncLit:
			return false
		case *ast.AssignStmt:
			if x.Tok == token.DEFINE && len(x.Lhs) == 1 && len(x.Rhs) == 1 {
				id, ok := x.Lhs[0].(*ast.Ident)
				cl, ok2 := x.Rhs[0].(*ast.CompositeLit)
				if ok && ok2 && id.Name != "_" {
					if v, _ := info.Defs[id].(*types.Var); v != nil {
						if nt, st := newStruct(v.Type()); nt != nil {
							cands[v] = &cand{v: v, named: nt, st: st, decl: x, lit: cl, fields: map[*ast.SelectorExpr]int{}, alias: map[*types.Var]bool{}}
						}
					}
				}
			}
		case *ast.DeclStmt:
			gd, ok := x.Decl.(*ast.GenDecl)
			if !ok || gd.Tok != token.VAR || len(gd.Specs) != 1 {
				return true
			}
			vs, ok := gd.Specs[0].(*ast.ValueSpec)
			if !ok || len(vs.Names) != 1 || len(vs.Values) != 0 || vs.Names[0].Name == "_" {
				return true
			}
			if v, _ := info.Defs[vs.Names[0]].(*types.Var); v != nil {
				if nt, st := newStruct(v.Type()); nt != nil {
					cands[v] = &cand{v: v, named: nt, st: st, decl: x, fields: map[*ast.SelectorExpr]int{}, alias: map[*types.Var]bool{}}
				}
			}
		}
		return true
	})
	if len(cands) == 0 {
		return nil, nil, nil
	}
	// classify every use. parents are needed: walk with a stack
	aliasOf := map[*types.Var]*cand{}
	handled := map[*ast.Ident]bool{}
	strip := func(e ast.Expr) ast.Expr {
		for {
			pe, ok := e.(*ast.ParenExpr)
			if !ok {
				return e
			}
			e = pe.X
		}
	}
	// the variable (candidate) an expression `v`, `(v)`, `&v`, `(&(v))` denotes, and whether through an address-of
	var baseOf func(e ast.Expr) (*ast.Ident, bool)
	baseOf = func(e ast.Expr) (*ast.Ident, bool) {
		e = strip(e)
		switch x := e.(type) {
		case *ast.Ident:
			return x, false
		case *ast.UnaryExpr:
			if x.Op == token.AND {
				if id, _ := baseOf(x.X); id != nil {
					return id, true
				}
			}
		}
		return nil, false
	}
	// pass 1: alias bindings `c := &(v)` (possibly one position of a parallel define)
	ast.Inspect(fd.Body, func(n ast.Node) bool {
		as, ok := n.(*ast.AssignStmt)
		if !ok || as.Tok != token.DEFINE || len(as.Lhs) != len(as.Rhs) {
			return true
		}
		for i, r := range as.Rhs {
			id, addr := baseOf(r)
			if id == nil || !addr {
				continue
			}
			v, _ := info.Uses[id].(*types.Var)
			c := cands[v]
			if c == nil {
				continue
			}
			lid, ok := as.Lhs[i].(*ast.Ident)
			if !ok || lid.Name == "_" {
				continue
			}
			av, _ := info.Defs[lid].(*types.Var)
			if av == nil {
				continue
			}
			c.alias[av] = true
			aliasOf[av] = c
			c.binds = append(c.binds, r)
			handled[id] = true
		}
		return true
	})
	// pass 2: selectors and `_ = c`
	var inLit int
	var visit func(n ast.Node) bool
	visit = func(n ast.Node) bool {
		switch x := n.(type) {
		case *ast.FuncLit:
			inLit++
			ast.Inspect(x.Body, visit)
			inLit--
			return false
		case *ast.UnaryExpr:
			if x.Op == token.AND {
				// &v.f — the field's address escapes
				if sel, ok := strip(x.X).(*ast.SelectorExpr); ok {
					if id, _ := baseOf(sel.X); id != nil {
						if v, _ := info.Uses[id].(*types.Var); v != nil {
							if c := cands[v]; c != nil {
								c.bad = true
							}
							if c := aliasOf[v]; c != nil {
								c.bad = true
							}
						}
					}
				}
			}
		case *ast.SelectorExpr:
			id, _ := baseOf(x.X)
			if id == nil {
				return true
			}
			v, _ := info.Uses[id].(*types.Var)
			c := cands[v]
			if c == nil {
				c = aliasOf[v]
			}
			if c == nil {
				return true
			}
			handled[id] = true
			sel := info.Selections[x]
			if sel == nil || sel.Kind() != types.FieldVal || len(sel.Index()) != 1 || inLit > 0 {
				c.bad = true
				return true
			}
			c.fields[x] = sel.Index()[0]
			return false
		case *ast.AssignStmt:
			// `_ = c`
			if x.Tok == token.ASSIGN && len(x.Lhs) == 1 && len(x.Rhs) == 1 {
				if l, ok := x.Lhs[0].(*ast.Ident); ok && l.Name == "_" {
					if r, ok := x.Rhs[0].(*ast.Ident); ok {
						if v, _ := info.Uses[r].(*types.Var); v != nil && aliasOf[v] != nil {
							handled[r] = true
						}
					}
				}
			}
		}
		return true
	}
	ast.Inspect(fd.Body, visit)
	// any other mention of a candidate or of one of its aliases disqualifies it
	ast.Inspect(fd.Body, func(n ast.Node) bool {
		id, ok := n.(*ast.Ident)
		if !ok || handled[id] {
			return true
		}
		v, _ := info.Uses[id].(*types.Var)
		if v == nil {
			return true
		}
		if c := cands[v]; c != nil {
			c.bad = true
		}
		if c := aliasOf[v]; c != nil {
			c.bad = true
		}
		return true
	})
	src, err := readFile(tf.Name())
	if err != nil {
		return nil, nil, nil
	}
	text := func(from, to token.Pos) string { return string(src[tf.Offset(from):tf.Offset(to)]) }
	ix := &inliner{p: p, f: f, src: src, tf: tf, readFile: readFile}
	qual := ix.qualifier()
	var sp []splice
	var log []string
	var ordered []*cand
	for _, c := range cands {
		ordered = append(ordered, c)
	}
	sort.Slice(ordered, func(i, j int) bool { return ordered[i].v.Pos() < ordered[j].v.Pos() })
	for _, c := range ordered {
		if c.bad {
			continue
		}
		name := func(i int) string { return fmt.Sprintf("__sra_%s_%s", c.v.Name(), c.st.Field(i).Name()) }
		// declaration
		var sb strings.Builder
		given := map[int]bool{}
		okDecl := true
		if c.lit != nil {
			for k, el := range c.lit.Elts {
				idx, val := k, el
				if kv, isKV := el.(*ast.KeyValueExpr); isKV {
					key, isID := kv.Key.(*ast.Ident)
					if !isID {
						okDecl = false
						break
					}
					idx = -1
					for i := 0; i < c.st.NumFields(); i++ {
						if c.st.Field(i).Name() == key.Name {
							idx = i
						}
					}
					val = kv.Value
				}
				if idx < 0 || idx >= c.st.NumFields() || given[idx] {
					okDecl = false
					break
				}
				given[idx] = true
				fmt.Fprintf(&sb, "var %s %s = %s; _ = %s; ", name(idx), types.TypeString(c.st.Field(idx).Type(), qual), text(val.Pos(), val.End()), name(idx))
			}
		}
		if !okDecl {
			continue
		}
		for i := 0; i < c.st.NumFields(); i++ {
			if c.st.Field(i).Name() == "_" {
				okDecl = false
			}
			if !given[i] {
				fmt.Fprintf(&sb, "var %s %s; _ = %s; ", name(i), types.TypeString(c.st.Field(i).Type(), qual), name(i))
			}
		}
		if !okDecl {
			continue
		}
		end := tf.Position(c.decl.End())
		sp = append(sp, splice{tf.Offset(c.decl.Pos()), tf.Offset(c.decl.End()), sb.String() + fmt.Sprintf("/*line :%d:%d*/", end.Line, end.Column)})
		for sel, i := range c.fields {
			sp = append(sp, splice{tf.Offset(sel.Pos()), tf.Offset(sel.End()), name(i)})
		}
		for _, b := range c.binds {
			sp = append(sp, splice{tf.Offset(b.Pos()), tf.Offset(b.End()), "(*" + types.TypeString(c.named, qual) + ")(nil)"})
		}
		log = append(log, fmt.Sprintf("sra: local %s (%s) of %s replaced by one local per field", c.v.Name(), types.TypeString(c.named, qual), funcKeyOf(p, fd)))
	}
	return sp, ix.imports, log
}

func funcKeyOf(p *packages.Package, fd *ast.FuncDecl) string {
	if o, _ := p.TypesInfo.Defs[fd.Name].(*types.Func); o != nil {
		return funcKey(o)
	}
	return fd.Name.Name
}
