package core

import (
	"fmt"
	"go/ast"
	"go/parser"
	"go/token"
	"go/types"
	"os"
	"regexp"
	"sort"
	"strings"

	"golang.org/x/tools/go/packages"
)

// [INLINE] — source-level inlining of helper functions that did not exist on the pinned tree.
//
// The rules are anchored at the functions of the pinned tree. Extracting a helper out of one of them (the most common
// behaviour-preserving refactoring) moves instructions out of the anchored function; the rules would then report the
// construct as missing. Before SSA is built, every call to a function that is not in the frozen function table and
// lives in the same package as its caller is expanded in place (in an overlay, /repo is not touched):
//
//	x, err := p.helper(a, b)      var __r0 T; var __r1 error
//	                         =>   __L: switch { default: p, a1, b1 := p, a, b; <body, `return u, v` => { __r0, __r1 = u, v; break __L }> }
//	                              x, err := __r0, __r1
//
// which has the same control flow graph as the un-extracted code. A helper that cannot be expanded faithfully (defer,
// recover, goto/labels, variadic or generic, a call in a position that is evaluated conditionally or repeatedly, a
// package-level name it uses being shadowed at the call site) is left alone, and the analysis proceeds on the
// program as written. When every use of a helper was expanded, its declaration is blanked so that who-may-call /
// who-may-write rules do not see a second, dead copy of the code.

var inlNameRE = regexp.MustCompile(`__inl([0-9x]+)_`)

type inlineHelper struct {
	obj     types.Object // *types.Func, or the *types.Var a local closure is bound to
	name    string       // display name
	sig     *types.Signature
	recv    *ast.FieldList
	ftype   *ast.FuncType
	body    *ast.BlockStmt
	lit     *ast.FuncLit // non-nil for a local closure `name := func(…) {…}`
	from    token.Pos    // extent of the declaration (blanked when every use was expanded)
	to      token.Pos
	pkg     *packages.Package
	file    *ast.File
	waits   bool // its body still calls another helper: expanded in a later round
	keep    bool // a combinator (possibly pinned, possibly of another package): its declaration always stays
	foreign bool // may also be expanded at call sites in other packages (see exportedOnly)
	uses    int  // references seen in the package
	done    int  // references expanded
}

type splice struct {
	from, to int // byte offsets in the file
	text     string
}

// IsPinnedFunc reports whether a function with this display name existed on the pinned tree.
func IsPinnedFunc(key string) bool {
	_, ok := frozenNames[key]
	return ok
}

func funcKey(o *types.Func) string { return strings.ReplaceAll(o.FullName(), Mod+"/", "") }

// inlineRound computes one round of expansions. It returns the rewritten files (absolute path -> content) and a log.
//
// Helpers are collected for the whole module first (uses are counted over all packages): a new function whose body
// mentions only names that mean the same outside its package (exported package-level objects, exported fields and
// methods, imports, its own locals) is also expanded at its call sites in other packages ("foreign" expansion), unless
// that would need an import that closes a cycle.
func inlineRound(pkgs []*packages.Package, readFile func(abs string) ([]byte, error), counter *int) (map[string][]byte, []string) {
	out := map[string][]byte{}
	var log []string
	inModule := func(p *packages.Package) bool {
		return p.Types != nil && p.TypesInfo != nil && !IsMockPkg(p.PkgPath) && strings.HasPrefix(p.PkgPath, Mod)
	}
	combinators := collectCombinators(pkgs)
	// new functions and methods of the module
	home := map[types.Object]*inlineHelper{}
	for _, p := range pkgs {
		if !inModule(p) {
			continue
		}
		for _, f := range p.Syntax {
			for _, d := range f.Decls {
				fd, ok := d.(*ast.FuncDecl)
				if !ok || fd.Body == nil {
					continue
				}
				obj, _ := p.TypesInfo.Defs[fd.Name].(*types.Func)
				if obj == nil || IsPinnedFunc(funcKey(obj)) || fd.Name.Name == "init" || fd.Name.Name == "main" {
					continue
				}
				if why := notInlinable(fd.Body, obj.Type().(*types.Signature)); why != "" {
					if why != "generic" {
						log = append(log, fmt.Sprintf("inline: %s left as written: %s", funcKey(obj), why))
					}
					continue
				}
				from := fd.Pos()
				if fd.Doc != nil {
					from = fd.Doc.Pos()
				}
				h := &inlineHelper{obj: obj, name: funcKey(obj), sig: obj.Type().(*types.Signature), recv: fd.Recv, ftype: fd.Type, body: fd.Body,
					from: from, to: fd.End(), pkg: p, file: f}
				h.foreign = fd.Name.IsExported() && exportedOnly(p, fd) && !strings.HasSuffix(p.Fset.Position(f.Pos()).Filename, "_test.go")
				home[obj] = h
			}
		}
	}
	// uses over the whole module (a declaration is dropped only when every use anywhere was expanded)
	for _, p := range pkgs {
		if p.TypesInfo == nil {
			continue
		}
		for _, o := range p.TypesInfo.Uses {
			if h := home[o]; h != nil {
				h.uses++
			}
		}
	}
	// a helper whose own body still calls another helper waits for a later round: its text must first receive
	// that expansion, otherwise the copy placed in the caller would keep a call to a declaration that is dropped
	markWaits := func(h *inlineHelper, isHelper func(types.Object) bool) {
		ast.Inspect(h.body, func(n ast.Node) bool {
			call, ok := n.(*ast.CallExpr)
			if !ok {
				return true
			}
			if id := calleeIdent(call); id != nil {
				if o := h.pkg.TypesInfo.Uses[id]; o != nil && o != h.obj && isHelper(o) {
					h.waits = true
				}
			}
			return true
		})
	}
	splices := map[string][]splice{} // by file name
	addImports := map[string][]string{}
	fileOf := map[string]*ast.File{}
	pkgOfFile := map[string]*packages.Package{}
	importable := importCheck(pkgs)
	for _, p := range pkgs {
		if !inModule(p) {
			continue
		}
		helpers := map[types.Object]*inlineHelper{}
		for o, c := range combinators {
			cc := *c
			helpers[o] = &cc
		}
		for o, h := range home {
			if h.pkg == p || h.foreign {
				helpers[o] = h
			}
		}
		// local closures bound once to a name and only ever called through it: `get := func(n uint64) (*T, error) {…}`
		for _, f := range p.Syntax {
			ast.Inspect(f, func(n ast.Node) bool {
				as, ok := n.(*ast.AssignStmt)
				if !ok || as.Tok != token.DEFINE || len(as.Lhs) != 1 || len(as.Rhs) != 1 {
					return true
				}
				id, ok := as.Lhs[0].(*ast.Ident)
				lit, ok2 := as.Rhs[0].(*ast.FuncLit)
				if !ok || !ok2 || id.Name == "_" {
					return true
				}
				v, _ := p.TypesInfo.Defs[id].(*types.Var)
				if v == nil {
					return true
				}
				sig, _ := v.Type().(*types.Signature)
				if sig == nil {
					return true
				}
				if why := notInlinable(lit.Body, sig); why != "" {
					log = append(log, fmt.Sprintf("inline: local closure %s left as written: %s", id.Name, why))
					return true
				}
				helpers[v] = &inlineHelper{obj: v, name: "local closure " + id.Name, sig: sig, ftype: lit.Type, body: lit.Body, lit: lit,
					from: as.Pos(), to: as.End(), pkg: p, file: f}
				return true
			})
		}
		if len(helpers) == 0 {
			continue
		}
		// a closure variable that is assigned again, passed around or otherwise used as a value is not expanded
		callees := map[*ast.Ident]bool{}
		blankUse := map[*ast.Ident]bool{} // the `_ = name` that accompanies a generated binding: dropped with it
		for _, f := range p.Syntax {
			ast.Inspect(f, func(n ast.Node) bool {
				if call, ok := n.(*ast.CallExpr); ok {
					if id, ok := call.Fun.(*ast.Ident); ok {
						callees[id] = true
					}
				}
				// `_ = name` (emitted by an earlier expansion to keep an unused binding legal) is not a use as a value
				if as, ok := n.(*ast.AssignStmt); ok && as.Tok == token.ASSIGN && len(as.Lhs) == 1 && len(as.Rhs) == 1 {
					if l, isL := as.Lhs[0].(*ast.Ident); isL && l.Name == "_" {
						if r, isR := as.Rhs[0].(*ast.Ident); isR {
							callees[r] = true
							blankUse[r] = true
						}
					}
				}
				return true
			})
		}
		for id, o := range p.TypesInfo.Uses {
			if h := helpers[o]; h != nil && h.lit != nil {
				if blankUse[id] {
					continue
				}
				h.uses++
				if !callees[id] {
					h.uses += 1 << 20 // used as a value: never "fully expanded", and refuse below
				}
			}
		}
		for o, h := range helpers {
			if h.lit != nil && h.uses >= 1<<20 {
				delete(helpers, o)
			}
		}
		for _, h := range helpers {
			if h.pkg == p || h.lit != nil {
				markWaits(h, func(o types.Object) bool { return helpers[o] != nil || home[o] != nil })
			}
		}
		for _, f := range p.Syntax {
			fname := p.Fset.Position(f.Pos()).Filename
			src, err := readFile(fname)
			if err != nil {
				continue
			}
			fileOf[fname], pkgOfFile[fname] = f, p
			ix := &inliner{p: p, f: f, src: src, helpers: helpers, counter: counter, tf: p.Fset.File(f.Pos()), readFile: readFile, importable: importable}
			for _, d := range f.Decls {
				fd, ok := d.(*ast.FuncDecl)
				if !ok || fd.Body == nil {
					continue
				}
				ix.caller, _ = p.TypesInfo.Defs[fd.Name].(*types.Func)
				ix.exprPass(fd.Body)
				ix.block(fd.Body.List)
			}
			if len(ix.out) > 0 {
				splices[fname] = append(splices[fname], ix.out...)
				addImports[fname] = append(addImports[fname], ix.imports...)
				log = append(log, ix.log...)
			}
		}
		// local closures: blank the bindings whose every use was expanded
		for _, h := range helpers {
			if h.lit != nil {
				blankDecl(h, readFile, splices, &log)
			}
		}
	}
	// blank the declarations of helpers whose every use (in any package) was expanded
	var hs []*inlineHelper
	for _, h := range home {
		hs = append(hs, h)
	}
	sort.Slice(hs, func(i, j int) bool { return hs[i].name < hs[j].name })
	for _, h := range hs {
		fname := h.pkg.Fset.Position(h.file.Pos()).Filename
		fileOf[fname], pkgOfFile[fname] = h.file, h.pkg
		blankDecl(h, readFile, splices, &log)
	}
	for fname, sp := range splices {
		f, p := fileOf[fname], pkgOfFile[fname]
		src, err := readFile(fname)
		if err != nil || f == nil {
			continue
		}
		// drop splices contained in a blanked declaration or overlapping an earlier one
		sort.Slice(sp, func(i, j int) bool {
			if sp[i].from != sp[j].from {
				return sp[i].from < sp[j].from
			}
			return sp[i].to > sp[j].to
		})
		var keep []splice
		end := -1
		for _, s := range sp {
			if s.from < end {
				continue
			}
			keep = append(keep, s)
			end = s.to
		}
		var sb strings.Builder
		pos := 0
		for _, s := range keep {
			sb.Write(src[pos:s.from])
			sb.WriteString(s.text)
			pos = s.to
		}
		sb.Write(src[pos:])
		text := sb.String()
		if imps := addImports[fname]; len(imps) > 0 {
			tf := p.Fset.File(f.Pos())
			at := tf.Offset(f.Name.End())
			// offsets before the first splice are unchanged: the package clause precedes every declaration
			text = text[:at] + "; " + strings.Join(dedup(imps), "; ") + text[at:]
		}
		out[fname] = []byte(blankUnusedImports(text, f, p))
	}
	return out, log
}

func dedup(in []string) []string {
	seen := map[string]bool{}
	var out []string
	for _, s := range in {
		if !seen[s] {
			seen[s] = true
			out = append(out, s)
		}
	}
	return out
}

// blankDecl drops the declaration of a helper whose every use was expanded.
func blankDecl(h *inlineHelper, readFile func(string) ([]byte, error), splices map[string][]splice, log *[]string) {
	if h.keep {
		return
	}
	if h.done > 0 && h.done == h.uses {
		tf := h.pkg.Fset.File(h.file.Pos())
		from := tf.Offset(h.from)
		to := tf.Offset(h.to)
		fname := h.pkg.Fset.Position(h.file.Pos()).Filename
		src, err := readFile(fname)
		if err != nil {
			return
		}
		if h.lit != nil {
			// the `; _ = name` that follows a generated closure binding goes with it
			if m := regexp.MustCompile(`^\s*;?\s*_ = ` + regexp.QuoteMeta(h.obj.Name()) + `\b\s*;?`).FindIndex(src[to:]); m != nil {
				to += m[1]
			}
		}
		blank := strings.Repeat("\n", strings.Count(string(src[from:to]), "\n"))
		splices[fname] = append(splices[fname], splice{from, to, blank})
		*log = append(*log, fmt.Sprintf("inline: %s expanded at its %d call site(s); declaration dropped from the analysed program", h.name, h.done))
	} else if h.done > 0 {
		*log = append(*log, fmt.Sprintf("inline: %s expanded at %d of %d uses; declaration kept", h.name, h.done, h.uses))
	}
}

// exportedOnly: every name the body of fd mentions means the same in another package: its own parameters and locals,
// builtins, imported packages, exported package-level objects of its package, exported fields and methods.
func exportedOnly(p *packages.Package, fd *ast.FuncDecl) bool {
	ok := true
	ast.Inspect(fd.Body, func(n ast.Node) bool {
		if _, isLit := n.(*ast.FuncLit); isLit {
			ok = false // closures capture by reference; keep the foreign case simple
			return false
		}
		id, isID := n.(*ast.Ident)
		if !isID {
			return true
		}
		o := p.TypesInfo.Uses[id]
		if o == nil || o.Pkg() == nil {
			return true
		}
		if _, isPkg := o.(*types.PkgName); isPkg {
			return true
		}
		if o.Pos() >= fd.Pos() && o.Pos() < fd.End() {
			return true
		}
		if o.Pkg() != p.Types {
			return true // reached through an import: exported by construction
		}
		if !o.Exported() {
			ok = false
		}
		return true
	})
	// the receiver and parameter types must be nameable outside as well
	sig := p.TypesInfo.Defs[fd.Name].Type().(*types.Signature)
	nameable := func(t types.Type) {
		walkNamed(t, func(n *types.Named) {
			if n.Obj().Pkg() != nil && !n.Obj().Exported() {
				ok = false
			}
		})
	}
	if sig.Recv() != nil {
		nameable(sig.Recv().Type())
	}
	for i := 0; i < sig.Params().Len(); i++ {
		nameable(sig.Params().At(i).Type())
	}
	for i := 0; i < sig.Results().Len(); i++ {
		nameable(sig.Results().At(i).Type())
	}
	return ok
}

func walkNamed(t types.Type, f func(*types.Named)) {
	seen := map[types.Type]bool{}
	var rec func(t types.Type)
	rec = func(t types.Type) {
		if t == nil || seen[t] {
			return
		}
		seen[t] = true
		switch x := t.(type) {
		case *types.Named:
			f(x)
			for i := 0; i < x.TypeArgs().Len(); i++ {
				rec(x.TypeArgs().At(i))
			}
		case *types.Pointer:
			rec(x.Elem())
		case *types.Slice:
			rec(x.Elem())
		case *types.Array:
			rec(x.Elem())
		case *types.Map:
			rec(x.Key())
			rec(x.Elem())
		case *types.Chan:
			rec(x.Elem())
		case *types.Signature:
			for i := 0; i < x.Params().Len(); i++ {
				rec(x.Params().At(i).Type())
			}
			for i := 0; i < x.Results().Len(); i++ {
				rec(x.Results().At(i).Type())
			}
		}
	}
	rec(t)
}

// importCheck returns importable(from, to): adding `import to` to package from does not close an import cycle.
func importCheck(pkgs []*packages.Package) func(from *types.Package, to *types.Package) bool {
	byPath := map[string]*packages.Package{}
	var visit func(p *packages.Package)
	visit = func(p *packages.Package) {
		if byPath[p.PkgPath] != nil {
			return
		}
		byPath[p.PkgPath] = p
		for _, ip := range p.Imports {
			visit(ip)
		}
	}
	for _, p := range pkgs {
		visit(p)
	}
	memo := map[[2]string]bool{}
	var reaches func(a, b string, seen map[string]bool) bool
	reaches = func(a, b string, seen map[string]bool) bool {
		if a == b {
			return true
		}
		if seen[a] {
			return false
		}
		seen[a] = true
		pa := byPath[a]
		if pa == nil {
			return false
		}
		for _, ip := range pa.Imports {
			if reaches(ip.PkgPath, b, seen) {
				return true
			}
		}
		return false
	}
	return func(from, to *types.Package) bool {
		if from == nil || to == nil {
			return false
		}
		k := [2]string{from.Path(), to.Path()}
		if v, ok := memo[k]; ok {
			return v
		}
		v := !reaches(to.Path(), from.Path(), map[string]bool{})
		memo[k] = v
		return v
	}
}

func notInlinable(body *ast.BlockStmt, sig *types.Signature) string {
	if sig.RecvTypeParams().Len() > 0 {
		return "generic"
	}
	why := ""
	ast.Inspect(body, func(n ast.Node) bool {
		switch x := n.(type) {
		case *ast.FuncLit:
			return false
		case *ast.DeferStmt:
			if !simpleDefer(body, x) {
				why = "uses a defer that cannot be moved to the end of the expansion"
			}
		case *ast.LabeledStmt:
			if !strings.HasPrefix(x.Label.Name, "__inl") { // labels of an earlier expansion are renamed per copy
				why = "uses labels"
			}
		case *ast.BranchStmt:
			if x.Tok == token.GOTO {
				why = "uses goto"
			}
		case *ast.CallExpr:
			if id, ok := x.Fun.(*ast.Ident); ok && id.Name == "recover" {
				why = "uses recover"
			}
		}
		return true
	})
	return why
}

// simpleDefer: an unconditional top-level `defer x.y.M(args)` (receiver a selector chain of identifiers) that precedes
// every return of the helper: evaluating the arguments in place and running the call at every exit of the expanded body is
// the same program (panics aside).
func simpleDefer(body *ast.BlockStmt, d *ast.DeferStmt) bool {
	top := false
	for _, s := range body.List {
		if s == ast.Stmt(d) {
			top = true
		}
	}
	if !top || d.Call.Ellipsis.IsValid() {
		return false
	}
	// `defer func() { … }()`: a parameterless closure without return / recover / defer of its own; its body is run in place
	// at every exit (the expansion checks that the names it captures are not shadowed there and are no named results)
	if lit, isLit := d.Call.Fun.(*ast.FuncLit); isLit {
		if len(d.Call.Args) != 0 || lit.Type.Params.NumFields() != 0 || lit.Type.Results.NumFields() != 0 {
			return false
		}
		plain := true
		ast.Inspect(lit.Body, func(n ast.Node) bool {
			switch x := n.(type) {
			case *ast.FuncLit:
				return false
			case *ast.ReturnStmt, *ast.DeferStmt, *ast.GoStmt, *ast.LabeledStmt:
				plain = false
			case *ast.BranchStmt:
				if x.Label != nil || x.Tok == token.GOTO {
					plain = false
				}
			case *ast.CallExpr:
				if id, ok := x.Fun.(*ast.Ident); ok && id.Name == "recover" {
					plain = false
				}
			}
			return true
		})
		return plain
	}
	var chain func(e ast.Expr) bool
	chain = func(e ast.Expr) bool {
		switch x := e.(type) {
		case *ast.Ident:
			return true
		case *ast.SelectorExpr:
			return chain(x.X)
		}
		return false
	}
	if !chain(d.Call.Fun) {
		return false
	}
	// a return that textually precedes the (top-level, goto-free) defer statement leaves before it is registered: the
	// expansion runs at each exit only the deferred calls registered before it
	return true
}

type inliner struct {
	p          *packages.Package
	f          *ast.File
	tf         *token.File
	src        []byte
	helpers    map[types.Object]*inlineHelper
	caller     *types.Func
	counter    *int
	exprDone   map[*ast.CallExpr]bool
	qual       types.Qualifier
	readFile   func(string) ([]byte, error)
	importable func(from, to *types.Package) bool
	badImport  bool
	out        []splice
	imports    []string
	log        []string
}

func (ix *inliner) text(from, to token.Pos) string {
	return string(ix.src[ix.tf.Offset(from):ix.tf.Offset(to)])
}

// helperOf resolves a call expression to a helper of this package (nil otherwise).
func (ix *inliner) helperOf(call *ast.CallExpr) *inlineHelper {
	if ix.exprDone[call] {
		return nil
	}
	id := calleeIdent(call)
	if id == nil {
		return nil
	}
	o := ix.p.TypesInfo.Uses[id]
	if o == nil {
		return nil
	}
	h := ix.helpers[o]
	if h == nil || h.waits || o == types.Object(ix.caller) {
		return nil
	}
	if h.lit != nil && h.lit.Pos() <= call.Pos() && call.End() <= h.lit.End() {
		return nil // a recursive closure
	}
	return h
}

// calleeIdent: the identifier naming the function called: f(…), x.f(…), f[T](…), f[T, U](…).
func calleeIdent(call *ast.CallExpr) *ast.Ident {
	fun := call.Fun
	switch x := fun.(type) {
	case *ast.IndexExpr:
		fun = x.X
	case *ast.IndexListExpr:
		fun = x.X
	}
	switch f := fun.(type) {
	case *ast.Ident:
		return f
	case *ast.SelectorExpr:
		return f.Sel
	}
	return nil
}

// block visits a statement list; each statement gets at most one expansion per round.
func (ix *inliner) block(list []ast.Stmt) {
	for _, s := range list {
		if ix.stmt(s) {
			continue
		}
		// descend into nested statement lists
		switch x := s.(type) {
		case *ast.BlockStmt:
			ix.block(x.List)
		case *ast.IfStmt:
			ix.block(x.Body.List)
			if x.Else != nil {
				ix.block([]ast.Stmt{x.Else})
			}
		case *ast.ForStmt:
			ix.block(x.Body.List)
		case *ast.RangeStmt:
			ix.block(x.Body.List)
		case *ast.SwitchStmt:
			ix.clauses(x.Body)
		case *ast.TypeSwitchStmt:
			ix.clauses(x.Body)
		case *ast.SelectStmt:
			ix.clauses(x.Body)
		case *ast.LabeledStmt:
			ix.block([]ast.Stmt{x.Stmt})
		case *ast.ExprStmt, *ast.AssignStmt, *ast.ReturnStmt, *ast.GoStmt, *ast.DeferStmt, *ast.DeclStmt, *ast.SendStmt:
			// function literals inside a simple statement (`g.Go(func() error { … })`): their bodies are statement lists too
			ast.Inspect(s, func(n ast.Node) bool {
				if lit, ok := n.(*ast.FuncLit); ok {
					ix.block(lit.Body.List)
					return false
				}
				return true
			})
		}
	}
}

func (ix *inliner) clauses(b *ast.BlockStmt) {
	for _, c := range b.List {
		switch cc := c.(type) {
		case *ast.CaseClause:
			ix.block(cc.Body)
		case *ast.CommClause:
			ix.block(cc.Body)
		}
	}
}

// stmt tries to expand one helper call of statement s; reports whether s was rewritten.
func (ix *inliner) stmt(s ast.Stmt) bool {
	switch x := s.(type) {
	case *ast.ExprStmt:
		if call, ok := x.X.(*ast.CallExpr); ok {
			if h := ix.helperOf(call); h != nil {
				return ix.rewrite(s, s.Pos(), s.End(), call, h, nil, "", "", "")
			}
		}
		return ix.hoist(s, x.X)
	case *ast.AssignStmt:
		if len(x.Rhs) == 1 {
			if call, ok := x.Rhs[0].(*ast.CallExpr); ok {
				if h := ix.helperOf(call); h != nil {
					lhs := ix.text(x.Lhs[0].Pos(), x.Lhs[len(x.Lhs)-1].End())
					return ix.rewrite(s, s.Pos(), s.End(), call, h, &resultUse{n: len(x.Lhs)}, "", lhs+" "+x.Tok.String()+" ", "")
				}
			}
		}
		for _, r := range x.Rhs {
			if ix.hoist(s, r) {
				return true
			}
		}
	case *ast.ReturnStmt:
		if len(x.Results) == 1 {
			if call, ok := x.Results[0].(*ast.CallExpr); ok {
				if h := ix.helperOf(call); h != nil {
					n := h.sig.Results().Len()
					return ix.rewrite(s, s.Pos(), s.End(), call, h, &resultUse{n: n}, "", "return ", "")
				}
			}
		}
		for _, r := range x.Results {
			if ix.hoist(s, r) {
				return true
			}
		}
	case *ast.IfStmt:
		// if x, err := h(a); cond {…}  =>  { <expansion>; x, err := r0, r1; if cond {…} }
		if as, ok := x.Init.(*ast.AssignStmt); ok && len(as.Rhs) == 1 {
			if call, ok := as.Rhs[0].(*ast.CallExpr); ok {
				if h := ix.helperOf(call); h != nil {
					lhs := ix.text(as.Lhs[0].Pos(), as.Lhs[len(as.Lhs)-1].End())
					rest := "; if " + ix.text(x.Cond.Pos(), x.End()) + " }"
					return ix.rewrite(s, s.Pos(), s.End(), call, h, &resultUse{n: len(as.Lhs)}, "{ ", lhs+" "+as.Tok.String()+" ", rest)
				}
			}
		}
		if x.Init == nil {
			// a call in the condition is evaluated once: hoist it in front of the if
			return ix.hoist(s, x.Cond)
		}
	case *ast.DeferStmt:
		// defer h(args) with a new helper h: the helper's body becomes the deferred closure
		if h := ix.helperOf(x.Call); h != nil {
			if text, ok := ix.deferExpansion(x, h); ok {
				ix.emit(h, text, s.Pos(), s.End())
				return true
			}
		}
	case *ast.DeclStmt:
		if gd, ok := x.Decl.(*ast.GenDecl); ok && gd.Tok == token.VAR && len(gd.Specs) == 1 {
			if vs, ok := gd.Specs[0].(*ast.ValueSpec); ok {
				for _, v := range vs.Values {
					if ix.hoist(s, v) {
						return true
					}
				}
			}
		}
	}
	return false
}

type resultUse struct{ n int }

// hoist finds a single-result helper call nested in expression e (evaluated exactly once, unconditionally, as part of
// statement s), and rewrites s to `<expansion into tmp>; <s with the call replaced by tmp>`.
func (ix *inliner) hoist(s ast.Stmt, e ast.Expr) bool {
	var found *ast.CallExpr
	var h *inlineHelper
	sawCall := false // another call is evaluated before this point: hoisting a later helper call would reorder effects
	var walk func(n ast.Expr, cond bool)
	walk = func(n ast.Expr, cond bool) {
		if n == nil || found != nil {
			return
		}
		switch x := n.(type) {
		case *ast.FuncLit:
			return
		case *ast.BinaryExpr:
			walk(x.X, cond)
			walk(x.Y, cond || x.Op == token.LAND || x.Op == token.LOR)
		case *ast.CallExpr:
			// arguments first (evaluation order), then the call itself. Calls inside the helper call's own arguments
			// move together with it (they are evaluated by the expansion's bindings, in order): only calls evaluated
			// before the helper call and outside of it would be overtaken.
			before := sawCall
			for _, a := range x.Args {
				walk(a, cond)
			}
			if sel, ok := x.Fun.(*ast.SelectorExpr); ok {
				walk(sel.X, cond)
			}
			if found == nil && !cond && !before {
				if hh := ix.helperOf(x); hh != nil && hh.sig.Results().Len() == 1 {
					found, h = x, hh
				}
			}
			if found != x {
				if _, isConv := ix.p.TypesInfo.Types[x.Fun]; !isConv || !ix.p.TypesInfo.Types[x.Fun].IsType() {
					sawCall = true
				}
			}
		case *ast.ParenExpr:
			walk(x.X, cond)
		case *ast.UnaryExpr:
			walk(x.X, cond)
		case *ast.StarExpr:
			walk(x.X, cond)
		case *ast.SelectorExpr:
			walk(x.X, cond)
		case *ast.IndexExpr:
			walk(x.X, cond)
			walk(x.Index, cond)
		case *ast.SliceExpr:
			walk(x.X, cond)
			walk(x.Low, cond)
			walk(x.High, cond)
			walk(x.Max, cond)
		case *ast.TypeAssertExpr:
			walk(x.X, cond)
		case *ast.KeyValueExpr:
			walk(x.Value, cond)
		case *ast.CompositeLit:
			for _, el := range x.Elts {
				walk(el, cond)
			}
		}
	}
	walk(e, false)
	if found == nil || ix.touched(s.Pos(), s.End()) {
		return false
	}
	*ix.counter++
	tmp := fmt.Sprintf("__inl%d_t", *ix.counter)
	exp, ok := ix.expansion(found, h, 1, []string{tmp})
	if !ok {
		return false
	}
	stmtText := ix.text(s.Pos(), found.Pos()) + tmp + ix.text(found.End(), s.End())
	ix.emit(h, exp+"; "+stmtText, s.Pos(), s.End())
	return true
}

// touched: an expression-level substitution of this round already rewrites part of [from,to). A statement-level expansion
// copies the statement's original text, so it waits for the next round (otherwise the inner substitution would be lost
// while being counted as done).
func (ix *inliner) touched(from, to token.Pos) bool {
	a, b := ix.tf.Offset(from), ix.tf.Offset(to)
	for _, sp := range ix.out {
		if sp.from < b && a < sp.to {
			return true
		}
	}
	return false
}

func (ix *inliner) emit(h *inlineHelper, text string, from, to token.Pos) {
	end := ix.tf.Position(to)
	text += fmt.Sprintf("/*line :%d:%d*/", end.Line, end.Column)
	ix.out = append(ix.out, splice{ix.tf.Offset(from), ix.tf.Offset(to), text})
	h.done++
	ix.log = append(ix.log, fmt.Sprintf("inline: %s expanded in %s", h.name, funcKey(ix.caller)))
}

// rewrite replaces statement text [from,to) by prefix + expansion + "; " + assign + "r0, r1" + suffix.
func (ix *inliner) rewrite(s ast.Stmt, from, to token.Pos, call *ast.CallExpr, h *inlineHelper, use *resultUse, prefix, assign, suffix string) bool {
	if ix.touched(from, to) {
		return false
	}
	n := 0
	if use != nil {
		n = h.sig.Results().Len()
		if use.n != n && !(assign == "return ") {
			return false
		}
	}
	*ix.counter++
	var temps []string
	for i := 0; i < n; i++ {
		temps = append(temps, fmt.Sprintf("__inl%d_r%d", *ix.counter, i))
	}
	exp, ok := ix.expansion(call, h, n, temps)
	if !ok {
		return false
	}
	text := prefix + exp
	if use != nil {
		if n == 0 {
			return false
		}
		text += "; " + assign + strings.Join(temps, ", ")
	}
	text += suffix
	end := ix.tf.Position(to)
	text += fmt.Sprintf("/*line :%d:%d*/", end.Line, end.Column)
	ix.out = append(ix.out, splice{ix.tf.Offset(from), ix.tf.Offset(to), text})
	h.done++
	ix.log = append(ix.log, fmt.Sprintf("inline: %s expanded in %s", h.name, funcKey(ix.caller)))
	return true
}

// expansion builds `var temps…; L: switch { default: <bindings>; <body> }`.
func (ix *inliner) expansion(call *ast.CallExpr, h *inlineHelper, nres int, temps []string) (string, bool) {
	ix.badImport = false
	text, ok := ix.expansion0(call, h, nres, temps)
	if ix.badImport {
		ix.log = append(ix.log, fmt.Sprintf("inline: %s left as written in %s: expanding it there needs an import that closes a cycle", h.name, funcKey(ix.caller)))
		return "", false
	}
	return text, ok
}

func (ix *inliner) expansion0(call *ast.CallExpr, h *inlineHelper, nres int, temps []string) (string, bool) {
	sig := h.sig
	// a generic helper: use the signature of this instantiation and spell its type parameters out in the copied body
	typeArgs := map[types.Object]string{}
	if sig.TypeParams().Len() > 0 {
		id := calleeIdent(call)
		inst, ok := ix.p.TypesInfo.Instances[id]
		isig, ok2 := inst.Type.(*types.Signature)
		if id == nil || !ok || !ok2 || inst.TypeArgs.Len() != sig.TypeParams().Len() {
			dbgRefuse(0)
			return "", false
		}
		for i := 0; i < sig.TypeParams().Len(); i++ {
			typeArgs[sig.TypeParams().At(i).Obj()] = "(" + types.TypeString(inst.TypeArgs.At(i), ix.qualifier()) + ")"
		}
		sig = isig
	}
	variadic := sig.Variadic()
	switch {
	case !variadic && (len(call.Args) != sig.Params().Len() || call.Ellipsis.IsValid()):
		dbgRefuse(626)
		return "", false
	case variadic && call.Ellipsis.IsValid() && len(call.Args) != sig.Params().Len():
		dbgRefuse(627)
		return "", false
	case variadic && len(call.Args) < sig.Params().Len()-1:
		dbgRefuse(628)
		return "", false
	}
	qual := ix.qualifier()
	htf := h.pkg.Fset.File(h.file.Pos())
	hfname := h.pkg.Fset.Position(h.file.Pos()).Filename
	hsrc := ix.src
	if hfname != ix.tf.Name() {
		b, err := ix.readFile(hfname)
		if err != nil {
			dbgRefuse(638)
			return "", false
		}
		hsrc = b
		// the overlay content of the helper's file is what was parsed
		if len(b) != htf.Size() {
			dbgRefuse(643)
			return "", false
		}
	}
	label := fmt.Sprintf("__inl%d_L", *ix.counter)
	var sb strings.Builder
	for i, t := range temps {
		fmt.Fprintf(&sb, "var %s %s; ", t, types.TypeString(sig.Results().At(i).Type(), qual))
	}
	sb.WriteString(label + ": switch { default: ")
	// bindings: receiver and parameters
	var names, vals []string
	if sig.Recv() != nil && h.lit == nil {
		sel, ok := call.Fun.(*ast.SelectorExpr)
		if !ok {
			dbgRefuse(657)
			return "", false
		}
		selection := ix.p.TypesInfo.Selections[sel]
		if selection == nil || len(selection.Index()) != 1 || selection.Kind() != types.MethodVal {
			dbgRefuse(661)
			return "", false
		}
		x := ix.text(sel.X.Pos(), sel.X.End())
		_, recvPtr := sig.Recv().Type().(*types.Pointer)
		_, xPtr := ix.p.TypesInfo.TypeOf(sel.X).Underlying().(*types.Pointer)
		switch {
		case recvPtr && !xPtr:
			x = "&(" + x + ")"
		case !recvPtr && xPtr:
			x = "*(" + x + ")"
		}
		name := "_"
		if r := h.recv; r != nil && len(r.List) == 1 && len(r.List[0].Names) == 1 {
			name = r.List[0].Names[0].Name
		}
		// `p := p` would only shadow the caller's variable (and separate it from closures that captured it): skipped when
		// the receiver is never assigned in the helper
		selfBound := false
		if id, isID := sel.X.(*ast.Ident); isID && id.Name == name && x == id.Name && name != "_" {
			if r := h.recv; r != nil && len(r.List) == 1 && len(r.List[0].Names) == 1 {
				if ro := h.pkg.TypesInfo.Defs[r.List[0].Names[0]]; ro != nil && !assignedIn(h, ro) &&
					types.Identical(ix.p.TypesInfo.TypeOf(sel.X), sig.Recv().Type()) {
					selfBound = true
				}
			}
		}
		if !selfBound {
			names, vals = append(names, name), append(vals, x)
		}
	} else if isQualifiedCallee(call) && !h.keep && !(h.foreign && h.pkg != ix.p) {
		dbgRefuse(678)
		return "", false // pkg.F from another package
	}
	k := 0
	// each argument is converted to its parameter type, as the call would (untyped constants, nil, interface boxing)
	var aliasFixes []identFix
	var litBindings []string // `name := func(…) {…}` for function-literal arguments, so that a later round can expand their calls
	argText := func(k int) string {
		pt := types.TypeString(sig.Params().At(k).Type(), qual)
		if variadic && k == sig.Params().Len()-1 && !call.Ellipsis.IsValid() {
			// f(a, b, rest…): the variadic parameter is the slice of the remaining arguments
			if len(call.Args) <= k {
				return "(" + pt + ")(nil)"
			}
			var rest []string
			for _, a := range call.Args[k:] {
				rest = append(rest, ix.text(a.Pos(), a.End()))
			}
			return pt + "{" + strings.Join(rest, ", ") + "}"
		}
		return "(" + pt + ")(" + ix.text(call.Args[k].Pos(), call.Args[k].End()) + ")"
	}
	for _, fl := range h.ftype.Params.List {
		if len(fl.Names) == 0 {
			names, vals = append(names, "_"), append(vals, argText(k))
			k++
			continue
		}
		for _, nm := range fl.Names {
			if k < len(call.Args) && !(variadic && k == sig.Params().Len()-1) {
				if pobj := h.pkg.TypesInfo.Defs[nm]; pobj != nil && ix.funcAliasArg(call.Args[k], h, pobj) {
					// the argument names a declared function: every use of the parameter is spelled as that function
					aliasFixes = append(aliasFixes, ix.aliasUses(h, pobj, ix.text(call.Args[k].Pos(), call.Args[k].End()))...)
					k++
					continue
				}
				if _, isLit := call.Args[k].(*ast.FuncLit); isLit && nm.Name != "_" {
					litBindings = append(litBindings, nm.Name+" := "+ix.text(call.Args[k].Pos(), call.Args[k].End())+"; _ = "+nm.Name+"; ")
					k++
					continue
				}
			}
			if k < len(call.Args) && !(variadic && k == sig.Params().Len()-1) {
				if id, isID := call.Args[k].(*ast.Ident); isID && id.Name == nm.Name && nm.Name != "_" {
					if po := h.pkg.TypesInfo.Defs[nm]; po != nil && !assignedIn(h, po) &&
						types.Identical(ix.p.TypesInfo.TypeOf(call.Args[k]), sig.Params().At(k).Type()) {
						k++
						continue // `ctx := ctx`: see the receiver case
					}
				}
			}
			names, vals = append(names, nm.Name), append(vals, argText(k))
			k++
		}
	}
	anyNew := false
	for _, n := range names {
		if n != "_" {
			anyNew = true
		}
	}
	for _, lb := range litBindings {
		sb.WriteString(lb)
	}
	if len(names) > 0 {
		op := " = "
		if anyNew {
			op = " := "
		}
		sb.WriteString(strings.Join(names, ", ") + op + strings.Join(vals, ", ") + "; ")
		for _, n := range names {
			if n != "_" {
				sb.WriteString("_ = " + n + "; ")
			}
		}
	}
	// named results
	var resNames []string
	if h.ftype.Results != nil {
		for _, fl := range h.ftype.Results.List {
			for _, nm := range fl.Names {
				resNames = append(resNames, nm.Name)
			}
		}
	}
	if len(resNames) > 0 && len(resNames) != sig.Results().Len() {
		dbgRefuse(724)
		return "", false
	}
	for i, rn := range resNames {
		if rn == "_" {
			rn = fmt.Sprintf("__inl%d_n%d", *ix.counter, i)
			resNames[i] = rn
		}
		fmt.Fprintf(&sb, "var %s %s; _ = %s; ", rn, types.TypeString(sig.Results().At(i).Type(), qual), rn)
	}
	// capture check and package-name fixes
	fixes, ok := ix.captureFixes(call.Pos(), h, names, resNames)
	if !ok {
		ix.log = append(ix.log, fmt.Sprintf("inline: %s left as written in %s: a package-level name it uses is shadowed at the call site", h.name, funcKey(ix.caller)))
		dbgRefuse(737)
		return "", false
	}
	fixes = append(fixes, aliasFixes...)
	// body with returns rewritten
	type rep struct {
		from, to int
		text     string
	}
	var reps []rep
	// text of a source range of the helper with the package-name fixes that fall inside it applied
	fixed := func(from, to int) string {
		var in []identFix
		for _, fx := range fixes {
			if o := htf.Offset(fx.id.Pos()); o >= from && htf.Offset(fx.id.End()) <= to {
				in = append(in, fx)
			}
		}
		sort.Slice(in, func(i, j int) bool { return in[i].id.Pos() < in[j].id.Pos() })
		var b strings.Builder
		pos := from
		for _, fx := range in {
			b.Write(hsrc[pos:htf.Offset(fx.id.Pos())])
			b.WriteString(fx.name)
			pos = htf.Offset(fx.id.End())
		}
		b.Write(hsrc[pos:to])
		return b.String()
	}
	inReturn := func(fx identFix) bool {
		hit := false
		ast.Inspect(h.body, func(n ast.Node) bool {
			switch x := n.(type) {
			case *ast.FuncLit:
				return false
			case *ast.ReturnStmt:
				if x.Pos() <= fx.id.Pos() && fx.id.End() <= x.End() {
					hit = true
				}
			case *ast.DeferStmt:
				if x.Pos() <= fx.id.Pos() && fx.id.End() <= x.End() {
					hit = true
				}
			}
			return true
		})
		return hit
	}
	if len(typeArgs) > 0 {
		ast.Inspect(h.body, func(n ast.Node) bool {
			if id, isID := n.(*ast.Ident); isID {
				if t, isTP := typeArgs[h.pkg.TypesInfo.Uses[id]]; isTP {
					fixes = append(fixes, identFix{id, t})
				}
			}
			return true
		})
	}
	for _, fx := range fixes {
		if !inReturn(fx) {
			reps = append(reps, rep{htf.Offset(fx.id.Pos()), htf.Offset(fx.id.End()), fx.name})
		}
	}
	// deferred calls (simple, top-level, registered before any return): run at every way out of the expansion, after the
	// results were evaluated, in reverse order of registration
	type deferredCall struct {
		at   token.Pos
		text string
	}
	var deferred []deferredCall
	var deferLits []*ast.FuncLit
	deferCapture := map[*ast.DeferStmt]string{}
	ast.Inspect(h.body, func(n ast.Node) bool {
		switch x := n.(type) {
		case *ast.FuncLit:
			return false
		case *ast.DeferStmt:
			if lit, isLit := x.Call.Fun.(*ast.FuncLit); isLit {
				// a deferred closure: its body runs in place at the exits
				deferCapture[x] = ""
				deferred = append([]deferredCall{{x.Pos(), "{ " + fixed(htf.Offset(lit.Body.Lbrace)+1, htf.Offset(lit.Body.Rbrace)) + " }"}}, deferred...)
				deferLits = append(deferLits, lit)
				return false
			}
			// the arguments are evaluated where the defer statement stands (into temporaries of this copy), the call
			// itself runs at the exits
			capture, args := "", []string{}
			for k, a := range x.Call.Args {
				tn := fmt.Sprintf("__inl%d_d%d_%d", *ix.counter, len(deferred), k)
				capture += tn + " := " + fixed(htf.Offset(a.Pos()), htf.Offset(a.End())) + "; _ = " + tn + "; "
				args = append(args, tn)
			}
			deferCapture[x] = capture
			deferred = append([]deferredCall{{x.Pos(), fixed(htf.Offset(x.Call.Fun.Pos()), htf.Offset(x.Call.Fun.End())) + "(" + strings.Join(args, ", ") + ")"}}, deferred...)
			return false
		}
		return true
	})
	// a deferred closure run in place must mean the same at every exit: the helper's locals it captures are not shadowed
	// there, and it does not look at named results (which only a real return statement sets)
	for _, lit := range deferLits {
		okLit := true
		var exits []token.Pos
		ast.Inspect(h.body, func(n ast.Node) bool {
			switch x := n.(type) {
			case *ast.FuncLit:
				return false
			case *ast.ReturnStmt:
				if x.Pos() > lit.End() {
					exits = append(exits, x.Pos())
				}
			}
			return true
		})
		exits = append(exits, h.body.Rbrace)
		ast.Inspect(lit.Body, func(n ast.Node) bool {
			id, isID := n.(*ast.Ident)
			if !isID {
				return true
			}
			o := h.pkg.TypesInfo.Uses[id]
			if o == nil || o.Pkg() == nil || o.Parent() == nil || o.Parent() == h.pkg.Types.Scope() {
				return true
			}
			if o.Pos() >= lit.Pos() && o.Pos() < lit.End() {
				return true // the closure's own local
			}
			for _, rn := range resNames {
				if id.Name == rn {
					okLit = false
				}
			}
			for _, at := range exits {
				sc := h.pkg.Types.Scope().Innermost(at)
				if sc == nil {
					okLit = false
					continue
				}
				if _, cur := sc.LookupParent(id.Name, at); cur != o {
					okLit = false
				}
			}
			return true
		})
		if !okLit {
			dbgRefuse(871)
			return "", false
		}
	}
	runDeferredAt := func(at token.Pos) string {
		out := ""
		for _, dcall := range deferred {
			if dcall.at < at {
				out += dcall.text + "; "
			}
		}
		return out
	}
	ast.Inspect(h.body, func(n ast.Node) bool {
		switch x := n.(type) {
		case *ast.FuncLit:
			return false
		case *ast.DeferStmt:
			reps = append(reps, rep{htf.Offset(x.Pos()), htf.Offset(x.End()), deferCapture[x]})
			return false
		case *ast.ReturnStmt:
			var t string
			var exprs []string
			runDeferred := runDeferredAt(x.Pos())
			for _, r := range x.Results {
				exprs = append(exprs, fixed(htf.Offset(r.Pos()), htf.Offset(r.End())))
			}
			if len(x.Results) == 0 && len(resNames) > 0 {
				exprs = resNames
			}
			switch {
			case nres > 0 && len(exprs) > 0:
				t = "{ " + strings.Join(temps, ", ") + " = " + strings.Join(exprs, ", ") + "; " + runDeferred + "break " + label + " }"
			case len(exprs) > 0:
				blanks := make([]string, sig.Results().Len())
				for i := range blanks {
					blanks[i] = "_"
				}
				t = "{ " + strings.Join(blanks, ", ") + " = " + strings.Join(exprs, ", ") + "; " + runDeferred + "break " + label + " }"
			default:
				t = "{ " + runDeferred + "break " + label + " }"
			}
			reps = append(reps, rep{htf.Offset(x.Pos()), htf.Offset(x.End()), t})
			return false
		}
		return true
	})
	// package-name fixes inside return expressions were swallowed by the return replacement: re-apply by text is not
	// possible, so refuse that combination
	sort.Slice(reps, func(i, j int) bool { return reps[i].from < reps[j].from })
	for i := 1; i < len(reps); i++ {
		if reps[i].from < reps[i-1].to {
			dbgRefuse(803)
			return "", false
		}
	}
	bFrom, bTo := htf.Offset(h.body.Lbrace)+1, htf.Offset(h.body.Rbrace)
	bp := htf.Position(h.body.Lbrace + 1)
	fmt.Fprintf(&sb, "/*line %s:%d:%d*/", hfname, bp.Line, bp.Column)
	pos := bFrom
	for _, r := range reps {
		if r.from < bFrom || r.to > bTo {
			continue
		}
		sb.Write(hsrc[pos:r.from])
		sb.WriteString(r.text)
		pos = r.to
	}
	sb.Write(hsrc[pos:bTo])
	sb.WriteString("\n" + runDeferredAt(h.body.Rbrace) + "break " + label + "\n}")
	// names generated by an earlier round inside the copied body get a prefix of this copy (two copies of the same
	// helper in one function must not declare the same label)
	if body := sb.String(); strings.Contains(string(hsrc[bFrom:bTo]), "__inl") {
		cur := fmt.Sprint(*ix.counter)
		renamed := inlNameRE.ReplaceAllStringFunc(body, func(m string) string {
			n := inlNameRE.FindStringSubmatch(m)[1]
			if n == cur {
				return m
			}
			return "__inl" + cur + "x" + n + "_"
		})
		sb.Reset()
		sb.WriteString(renamed)
	}
	return sb.String(), true
}

type identFix struct {
	id   *ast.Ident
	name string
}

// qualifier renders types for the caller's file, adding imports when a package is not imported there.
func (ix *inliner) qualifier() types.Qualifier {
	if ix.qual != nil {
		return ix.qual
	}
	ix.qual = ix.newQualifier()
	return ix.qual
}

func (ix *inliner) newQualifier() types.Qualifier {
	byPath := map[string]string{}
	for _, is := range ix.f.Imports {
		if pn := ix.p.TypesInfo.PkgNameOf(is); pn != nil && pn.Name() != "_" && pn.Name() != "." {
			byPath[pn.Imported().Path()] = pn.Name()
		}
	}
	return func(p *types.Package) string {
		if p == ix.p.Types {
			return ""
		}
		if n, ok := byPath[p.Path()]; ok {
			return n
		}
		alias := "__imp_" + strings.NewReplacer("/", "_", ".", "_", "-", "_").Replace(p.Path())
		if ix.importable != nil && !ix.importable(ix.p.Types, p) {
			ix.badImport = true // the import would close a cycle: the expansion that needs it is refused
			return alias
		}
		byPath[p.Path()] = alias
		ix.imports = append(ix.imports, fmt.Sprintf("import %s %q", alias, p.Path()))
		return alias
	}
}

// captureFixes checks every package-level / imported name used by the helper's body against what that name means at
// the call site. Imported package names are rewritten when they differ; a shadowed package-level object refuses.
func (ix *inliner) captureFixes(at token.Pos, h *inlineHelper, params, results []string) ([]identFix, bool) {
	scope := ix.p.Types.Scope().Innermost(at)
	if scope == nil {
		return nil, false
	}
	local := map[string]bool{}
	for _, n := range params {
		local[n] = true
	}
	for _, n := range results {
		local[n] = true
	}
	qual := ix.qualifier()
	var fixes []identFix
	ok := true
	ast.Inspect(h.body, func(n ast.Node) bool {
		id, isID := n.(*ast.Ident)
		if !isID {
			return true
		}
		obj := h.pkg.TypesInfo.Uses[id]
		if obj == nil {
			return true
		}
		switch o := obj.(type) {
		case *types.PkgName:
			want := qual(o.Imported())
			_, cur := scope.LookupParent(id.Name, at)
			if pn, isPN := cur.(*types.PkgName); isPN && pn.Imported() == o.Imported() && id.Name == want {
				return true
			}
			// the caller sees another meaning under this name: use the caller's name for that package, if free
			if _, shadow := scope.LookupParent(want, at); shadow != nil {
				if pn, isPN := shadow.(*types.PkgName); !isPN || pn.Imported() != o.Imported() {
					ok = false
					return true
				}
			}
			if local[want] {
				ok = false
				return true
			}
			if want != id.Name {
				fixes = append(fixes, identFix{id, want})
			}
		default:
			if h.pkg != ix.p && h.lit == nil && obj.Parent() == h.pkg.Types.Scope() {
				// a foreign helper mentions an (exported) package-level object of its own package: qualify it
				if !obj.Exported() {
					ok = false
					return true
				}
				fixes = append(fixes, identFix{id, qual(h.pkg.Types) + "." + id.Name})
				return true
			}
			outsideLit := h.lit != nil && (obj.Pos() < h.lit.Pos() || obj.Pos() >= h.lit.End()) && obj.Pkg() == h.pkg.Types
			if _, isField := obj.(*types.Var); isField && obj.(*types.Var).IsField() {
				return true
			}
			if obj.Parent() == h.pkg.Types.Scope() || outsideLit && obj.Parent() != nil {
				if _, cur := scope.LookupParent(id.Name, at); cur != obj {
					ok = false
				}
			}
		}
		return true
	})
	return fixes, ok
}

// blankUnusedImports: expanding a helper into another file (or dropping its declaration) can leave an import of the
// file without a user, which does not compile. Such imports are turned into blank imports.
func blankUnusedImports(text string, orig *ast.File, p *packages.Package) string {
	fset := token.NewFileSet()
	nf, err := parser.ParseFile(fset, "x.go", text, parser.SkipObjectResolution)
	if err != nil {
		return text
	}
	used := map[string]bool{}
	ast.Inspect(nf, func(n ast.Node) bool {
		if sel, ok := n.(*ast.SelectorExpr); ok {
			if id, ok := sel.X.(*ast.Ident); ok {
				used[id.Name] = true
			}
		}
		return true
	})
	nameOf := map[string]string{} // import path -> package name as seen by the type checker
	for _, is := range orig.Imports {
		if pn := p.TypesInfo.PkgNameOf(is); pn != nil {
			nameOf[strings.Trim(is.Path.Value, "\"")] = pn.Name()
		}
	}
	type sp struct {
		from, to int
		text     string
	}
	var sps []sp
	tf := fset.File(nf.Pos())
	for _, is := range nf.Imports {
		path := strings.Trim(is.Path.Value, "\"")
		name := nameOf[path]
		if is.Name != nil {
			name = is.Name.Name
		}
		if name == "" || name == "_" || name == "." || used[name] {
			continue
		}
		if is.Name != nil {
			sps = append(sps, sp{tf.Offset(is.Name.Pos()), tf.Offset(is.Name.End()), "_"})
		} else {
			sps = append(sps, sp{tf.Offset(is.Path.Pos()), tf.Offset(is.Path.Pos()), "_ "})
		}
	}
	sort.Slice(sps, func(i, j int) bool { return sps[i].from > sps[j].from })
	for _, x := range sps {
		text = text[:x.from] + x.text + text[x.to:]
	}
	return text
}

// exprPass: a helper whose body is a single `return <expr>` and whose arguments at the call are plain names, selector
// chains or literals is substituted as an expression — wherever the call stands (conditions, case clauses, loop
// conditions), keeping short-circuit evaluation as written in the helper.
func (ix *inliner) exprPass(body *ast.BlockStmt) {
	if ix.exprDone == nil {
		ix.exprDone = map[*ast.CallExpr]bool{}
	}
	var inner func(n ast.Node) bool
	inner = func(n ast.Node) bool {
		call, ok := n.(*ast.CallExpr)
		if !ok {
			return true
		}
		h := ix.helperOf(call)
		if h == nil {
			return true
		}
		text, ok := ix.exprExpansion(call, h)
		if !ok {
			return true
		}
		ix.exprDone[call] = true
		end := ix.tf.Position(call.End())
		text += fmt.Sprintf("/*line :%d:%d*/", end.Line, end.Column)
		ix.out = append(ix.out, splice{ix.tf.Offset(call.Pos()), ix.tf.Offset(call.End()), text})
		h.done++
		ix.log = append(ix.log, fmt.Sprintf("inline: %s substituted as an expression in %s", h.name, funcKey(ix.caller)))
		return false // nested helper calls inside the arguments wait for the next round
	}
	ast.Inspect(body, inner)
}

func simpleOperand(e ast.Expr) bool {
	switch x := e.(type) {
	case *ast.Ident, *ast.BasicLit:
		return true
	case *ast.SelectorExpr:
		return simpleOperand(x.X)
	case *ast.ParenExpr:
		return simpleOperand(x.X)
	case *ast.StarExpr:
		return simpleOperand(x.X)
	case *ast.UnaryExpr:
		return x.Op != token.ARROW && simpleOperand(x.X)
	case *ast.IndexExpr:
		return simpleOperand(x.X) && simpleOperand(x.Index) // a pure read (it may be evaluated more than once)
	}
	return false
}

func (ix *inliner) exprExpansion(call *ast.CallExpr, h *inlineHelper) (string, bool) {
	ix.badImport = false
	text, ok := ix.exprExpansion0(call, h)
	if ix.badImport {
		return "", false
	}
	return text, ok
}

func (ix *inliner) exprExpansion0(call *ast.CallExpr, h *inlineHelper) (string, bool) {
	if len(h.body.List) != 1 || h.sig.Results().Len() != 1 || call.Ellipsis.IsValid() || len(call.Args) != h.sig.Params().Len() {
		dbgRefuse(1030)
		return "", false
	}
	ret, ok := h.body.List[0].(*ast.ReturnStmt)
	if !ok || len(ret.Results) != 1 {
		dbgRefuse(1034)
		return "", false
	}
	hasLit := false
	ast.Inspect(ret.Results[0], func(n ast.Node) bool {
		if _, isLit := n.(*ast.FuncLit); isLit {
			hasLit = true
		}
		return true
	})
	if hasLit {
		dbgRefuse(1044)
		return "", false
	}
	for _, a := range call.Args {
		if !simpleOperand(a) {
			dbgRefuse(1048)
			return "", false
		}
	}
	qual := ix.qualifier()
	// parameter objects -> replacement text
	repl := map[types.Object]string{}
	notAddr := map[types.Object]bool{} // parameters whose replacement is not addressable
	esig := h.sig
	if esig.TypeParams().Len() > 0 {
		id := calleeIdent(call)
		inst, ok := ix.p.TypesInfo.Instances[id]
		isig, ok2 := inst.Type.(*types.Signature)
		if id == nil || !ok || !ok2 || inst.TypeArgs.Len() != esig.TypeParams().Len() {
			return "", false
		}
		for i := 0; i < esig.TypeParams().Len(); i++ {
			repl[esig.TypeParams().At(i).Obj()] = "(" + types.TypeString(inst.TypeArgs.At(i), qual) + ")"
		}
		esig = isig
	}
	k := 0
	for _, fl := range h.ftype.Params.List {
		for _, nm := range fl.Names {
			if o := h.pkg.TypesInfo.Defs[nm]; o != nil {
				// a converted argument is not addressable; a helper that slices an array parameter or calls a pointer method
				// on a value parameter is expanded as statements instead (the copy it works on keeps the caller's variable
				// out of memory, so go/ssa still lifts it)
				repl[o] = "(" + types.TypeString(esig.Params().At(k).Type(), qual) + ")(" + ix.text(call.Args[k].Pos(), call.Args[k].End()) + ")"
				notAddr[o] = true
			}
			k++
		}
		if len(fl.Names) == 0 {
			k++
		}
	}
	var names []string
	if h.sig.Recv() != nil && h.lit == nil {
		sel, ok := call.Fun.(*ast.SelectorExpr)
		if !ok || !simpleOperand(sel.X) {
			dbgRefuse(1070)
			return "", false
		}
		selection := ix.p.TypesInfo.Selections[sel]
		if selection == nil || len(selection.Index()) != 1 || selection.Kind() != types.MethodVal {
			dbgRefuse(1074)
			return "", false
		}
		x := ix.text(sel.X.Pos(), sel.X.End())
		_, recvPtr := h.sig.Recv().Type().(*types.Pointer)
		_, xPtr := ix.p.TypesInfo.TypeOf(sel.X).Underlying().(*types.Pointer)
		switch {
		case recvPtr && !xPtr:
			x = "(&(" + x + "))"
		case !recvPtr && xPtr:
			x = "(*(" + x + "))"
		default:
			x = "(" + x + ")"
		}
		if r := h.recv; r != nil && len(r.List) == 1 && len(r.List[0].Names) == 1 {
			if o := h.pkg.TypesInfo.Defs[r.List[0].Names[0]]; o != nil {
				repl[o] = x
			}
		}
	} else if _, isSel := call.Fun.(*ast.SelectorExpr); isSel && !h.keep && !(h.foreign && h.pkg != ix.p) {
		dbgRefuse(1093)
		return "", false
	}
	// parameters must not be assigned or have their address taken in the expression (plain reads only)
	okReads := true
	ast.Inspect(ret.Results[0], func(n ast.Node) bool {
		if u, isU := n.(*ast.UnaryExpr); isU && u.Op == token.AND {
			if id, isID := u.X.(*ast.Ident); isID && repl[h.pkg.TypesInfo.Uses[id]] != "" {
				okReads = false
			}
		}
		// slicing an array parameter / calling a pointer method on a value parameter needs an addressable operand
		if sl, isSl := n.(*ast.SliceExpr); isSl {
			if id, isID := sl.X.(*ast.Ident); isID && notAddr[h.pkg.TypesInfo.Uses[id]] {
				if _, isArr := h.pkg.TypesInfo.TypeOf(id).Underlying().(*types.Array); isArr {
					okReads = false
				}
			}
		}
		if sel, isSel := n.(*ast.SelectorExpr); isSel {
			if id, isID := sel.X.(*ast.Ident); isID && notAddr[h.pkg.TypesInfo.Uses[id]] {
				if s := h.pkg.TypesInfo.Selections[sel]; s != nil && s.Kind() == types.MethodVal {
					if msig, _ := s.Obj().Type().(*types.Signature); msig != nil && msig.Recv() != nil {
						_, mPtr := msig.Recv().Type().(*types.Pointer)
						_, xPtr := h.pkg.TypesInfo.TypeOf(id).Underlying().(*types.Pointer)
						if mPtr && !xPtr {
							okReads = false
						}
					}
				}
			}
		}
		return true
	})
	if !okReads {
		dbgRefuse(1106)
		return "", false
	}
	fixes, ok := ix.captureFixes(call.Pos(), h, names, nil)
	if !ok {
		dbgRefuse(1110)
		return "", false
	}
	htf := h.pkg.Fset.File(h.file.Pos())
	hfname := h.pkg.Fset.Position(h.file.Pos()).Filename
	hsrc := ix.src
	if hfname != ix.tf.Name() {
		b, err := ix.readFile(hfname)
		if err != nil || len(b) != htf.Size() {
			dbgRefuse(1118)
			return "", false
		}
		hsrc = b
	}
	type rep struct {
		from, to int
		text     string
	}
	var reps []rep
	for _, fx := range fixes {
		reps = append(reps, rep{htf.Offset(fx.id.Pos()), htf.Offset(fx.id.End()), fx.name})
	}
	ast.Inspect(ret.Results[0], func(n ast.Node) bool {
		// do not rewrite the field name of a selector or a composite-literal key
		if sel, isSel := n.(*ast.SelectorExpr); isSel {
			ast.Inspect(sel.X, func(m ast.Node) bool { return true })
		}
		id, isID := n.(*ast.Ident)
		if !isID {
			return true
		}
		if t := repl[h.pkg.TypesInfo.Uses[id]]; t != "" {
			reps = append(reps, rep{htf.Offset(id.Pos()), htf.Offset(id.End()), t})
		}
		return true
	})
	sort.Slice(reps, func(i, j int) bool { return reps[i].from < reps[j].from })
	from, to := htf.Offset(ret.Results[0].Pos()), htf.Offset(ret.Results[0].End())
	var sb strings.Builder
	sb.WriteString("(")
	pos := from
	for _, r := range reps {
		if r.from < pos || r.to > to {
			continue
		}
		sb.Write(hsrc[pos:r.from])
		sb.WriteString(r.text)
		pos = r.to
	}
	sb.Write(hsrc[pos:to])
	sb.WriteString(")")
	// keep it on one line: comments inside the expression would swallow the rest
	out := sb.String()
	if strings.Contains(out, "//") {
		dbgRefuse(1162)
		return "", false
	}
	return strings.ReplaceAll(out, "\n", " "), true
}

func dbgRefuse(line int) {
	if os.Getenv("VERIF_INLINE_DEBUG") != "" {
		fmt.Fprintf(os.Stderr, "inline: expansion refused at inline.go:%d\n", line)
	}
}

// isQualifiedCallee: the callee is written pkg.F or pkg.F[T] (a function of another package).
func isQualifiedCallee(call *ast.CallExpr) bool {
	f := call.Fun
	switch x := f.(type) {
	case *ast.IndexExpr:
		f = x.X
	case *ast.IndexListExpr:
		f = x.X
	}
	_, isSel := f.(*ast.SelectorExpr)
	return isSel
}

// collectCombinators: generic package-level functions of the module that take a function and whose body mentions nothing
// but their own parameters, locals, type parameters and builtins (MapSlice, Filter, …). Such a body means the same text
// in every package, so a call `pkg.MapSlice(xs, f)` is expanded at the call site wherever it stands — also when the
// combinator is a function of the pinned tree — and the per-element computation becomes visible to the rules in the
// caller. The declaration itself is never dropped.
func collectCombinators(pkgs []*packages.Package) map[types.Object]*inlineHelper {
	out := map[types.Object]*inlineHelper{}
	for _, p := range pkgs {
		if p.Types == nil || p.TypesInfo == nil || IsMockPkg(p.PkgPath) || !strings.HasPrefix(p.PkgPath, Mod) {
			continue
		}
		for _, f := range p.Syntax {
			if strings.HasSuffix(p.Fset.Position(f.Pos()).Filename, "_test.go") {
				continue
			}
			for _, d := range f.Decls {
				fd, ok := d.(*ast.FuncDecl)
				if !ok || fd.Body == nil || fd.Recv != nil {
					continue
				}
				obj, _ := p.TypesInfo.Defs[fd.Name].(*types.Func)
				if obj == nil {
					continue
				}
				sig := obj.Type().(*types.Signature)
				if sig.TypeParams().Len() == 0 || sig.Variadic() {
					continue
				}
				takesFunc := false
				for i := 0; i < sig.Params().Len(); i++ {
					if _, isF := sig.Params().At(i).Type().Underlying().(*types.Signature); isF {
						takesFunc = true
					}
				}
				if !takesFunc || notInlinable(fd.Body, sig) != "" {
					continue
				}
				closed := true
				ast.Inspect(fd.Body, func(n ast.Node) bool {
					if _, isLit := n.(*ast.FuncLit); isLit {
						closed = false
					}
					id, isID := n.(*ast.Ident)
					if !isID {
						return true
					}
					o := p.TypesInfo.Uses[id]
					if o == nil {
						return true
					}
					if o.Pkg() == nil { // builtin or universe
						return true
					}
					if _, isField := o.(*types.Var); isField && o.(*types.Var).IsField() {
						return true
					}
					if o.Pos() >= fd.Pos() && o.Pos() < fd.End() { // parameter, type parameter, result or local
						return true
					}
					closed = false
					return true
				})
				if !closed {
					continue
				}
				out[obj] = &inlineHelper{obj: obj, name: funcKey(obj), sig: sig, ftype: fd.Type, body: fd.Body,
					from: fd.Pos(), to: fd.End(), pkg: p, file: f, keep: true}
			}
		}
	}
	return out
}

// funcAliasArg: argument e of a call to helper h, bound to parameter pobj, names a declared package-level function (f,
// pkg.F, f[T]) and the helper only ever calls or passes the parameter (never assigns it), and no name in e is declared
// again inside the helper.
func (ix *inliner) funcAliasArg(e ast.Expr, h *inlineHelper, pobj types.Object) bool {
	if _, isSig := pobj.Type().Underlying().(*types.Signature); !isSig {
		return false
	}
	base := e
	switch x := base.(type) {
	case *ast.IndexExpr:
		base = x.X
	case *ast.IndexListExpr:
		base = x.X
	}
	var id *ast.Ident
	switch x := base.(type) {
	case *ast.Ident:
		id = x
	case *ast.SelectorExpr:
		if pk, isID := x.X.(*ast.Ident); !isID {
			return false
		} else if _, isPkg := ix.p.TypesInfo.Uses[pk].(*types.PkgName); !isPkg {
			return false
		}
		id = x.Sel
	default:
		return false
	}
	fn, _ := ix.p.TypesInfo.Uses[id].(*types.Func)
	if fn == nil || fn.Type().(*types.Signature).Recv() != nil {
		return false
	}
	// names declared inside the helper (parameters included) would capture the spelled-out function
	declared := map[string]bool{}
	ast.Inspect(h.ftype, func(n ast.Node) bool {
		if d, isID := n.(*ast.Ident); isID && h.pkg.TypesInfo.Defs[d] != nil {
			declared[d.Name] = true
		}
		return true
	})
	okBody := true
	ast.Inspect(h.body, func(n ast.Node) bool {
		switch x := n.(type) {
		case *ast.Ident:
			if h.pkg.TypesInfo.Defs[x] != nil {
				declared[x.Name] = true
			}
		case *ast.AssignStmt:
			for _, l := range x.Lhs {
				if li, isID := l.(*ast.Ident); isID && h.pkg.TypesInfo.Uses[li] == pobj {
					okBody = false
				}
			}
		case *ast.UnaryExpr:
			if x.Op == token.AND {
				if li, isID := x.X.(*ast.Ident); isID && h.pkg.TypesInfo.Uses[li] == pobj {
					okBody = false
				}
			}
		}
		return true
	})
	if !okBody {
		return false
	}
	clash := false
	ast.Inspect(e, func(n ast.Node) bool {
		if x, isID := n.(*ast.Ident); isID && declared[x.Name] {
			clash = true
		}
		return true
	})
	return !clash
}

func (ix *inliner) aliasUses(h *inlineHelper, pobj types.Object, text string) []identFix {
	var out []identFix
	ast.Inspect(h.body, func(n ast.Node) bool {
		if id, isID := n.(*ast.Ident); isID && h.pkg.TypesInfo.Uses[id] == pobj {
			out = append(out, identFix{id, text})
		}
		return true
	})
	return out
}

// assignedIn: the helper's body assigns to (or takes the address of) the given parameter / receiver.
func assignedIn(h *inlineHelper, o types.Object) bool {
	hit := false
	ast.Inspect(h.body, func(n ast.Node) bool {
		switch x := n.(type) {
		case *ast.AssignStmt:
			for _, l := range x.Lhs {
				if id, ok := l.(*ast.Ident); ok && h.pkg.TypesInfo.Uses[id] == o {
					hit = true
				}
			}
		case *ast.IncDecStmt:
			if id, ok := x.X.(*ast.Ident); ok && h.pkg.TypesInfo.Uses[id] == o {
				hit = true
			}
		case *ast.UnaryExpr:
			if id, ok := x.X.(*ast.Ident); ok && x.Op == token.AND && h.pkg.TypesInfo.Uses[id] == o {
				hit = true
			}
		case *ast.RangeStmt:
			for _, e := range []ast.Expr{x.Key, x.Value} {
				if id, ok := e.(*ast.Ident); ok && h.pkg.TypesInfo.Uses[id] == o {
					hit = true
				}
			}
		}
		return true
	})
	return hit
}

// deferExpansion: `defer h(a, &flag)` with a new, result-less helper h becomes
//
//	__t := a; defer func() { <body of h, parameters spelled as their arguments> }()
//
// Arguments are evaluated where the defer statement stands, as Go does: `&x` of a local is spelled in place (the address
// is the same later), a plain identifier that is assigned exactly once in the enclosing function is used directly, anything
// else is captured in a temporary first. `return` in the helper is `return` of the closure. The deferred closure with a
// captured flag is the form the transaction rules know.
func (ix *inliner) deferExpansion(d *ast.DeferStmt, h *inlineHelper) (string, bool) {
	call := d.Call
	sig := h.sig
	if sig.Results().Len() != 0 || sig.TypeParams().Len() > 0 || sig.Variadic() || call.Ellipsis.IsValid() || len(call.Args) != sig.Params().Len() || h.lit != nil {
		return "", false
	}
	if h.pkg != ix.p {
		return "", false
	}
	ix.badImport = false
	qual := ix.qualifier()
	htf := h.pkg.Fset.File(h.file.Pos())
	hfname := h.pkg.Fset.Position(h.file.Pos()).Filename
	hsrc := ix.src
	if hfname != ix.tf.Name() {
		b, err := ix.readFile(hfname)
		if err != nil || len(b) != htf.Size() {
			return "", false
		}
		hsrc = b
	}
	enclosing := ix.enclosingFunc(d.Pos())
	assignedOnce := func(id *ast.Ident) bool {
		o := ix.p.TypesInfo.Uses[id]
		if o == nil || enclosing == nil {
			return false
		}
		n := 0
		ast.Inspect(enclosing, func(x ast.Node) bool {
			switch y := x.(type) {
			case *ast.AssignStmt:
				for _, l := range y.Lhs {
					if li, ok := l.(*ast.Ident); ok && (ix.p.TypesInfo.Uses[li] == o || ix.p.TypesInfo.Defs[li] == o) {
						n++
					}
				}
			case *ast.UnaryExpr:
				if li, ok := y.X.(*ast.Ident); ok && y.Op == token.AND && ix.p.TypesInfo.Uses[li] == o {
					n += 2 // address taken: may change behind our back
				}
			}
			return true
		})
		if _, isParam := o.(*types.Var); isParam && n == 0 {
			return true // a parameter or receiver that is never assigned
		}
		return n == 1
	}
	*ix.counter++
	var pre strings.Builder
	var fixes []identFix
	bind := func(pobj types.Object, arg ast.Expr, ptype types.Type, k int) {
		text := ix.text(arg.Pos(), arg.End())
		direct := false
		switch a := arg.(type) {
		case *ast.Ident:
			direct = assignedOnce(a)
		case *ast.UnaryExpr:
			if id, ok := a.X.(*ast.Ident); ok && a.Op == token.AND {
				if _, isVar := ix.p.TypesInfo.Uses[id].(*types.Var); isVar {
					direct = true
				}
			}
		case *ast.BasicLit:
			direct = true
		}
		if !direct {
			tmp := fmt.Sprintf("__inl%d_a%d", *ix.counter, k)
			fmt.Fprintf(&pre, "%s := (%s)(%s); _ = %s; ", tmp, types.TypeString(ptype, qual), text, tmp)
			text = tmp
		} else {
			text = "(" + text + ")"
		}
		if pobj == nil {
			return
		}
		ast.Inspect(h.body, func(n ast.Node) bool {
			if id, ok := n.(*ast.Ident); ok && h.pkg.TypesInfo.Uses[id] == pobj {
				fixes = append(fixes, identFix{id, text})
			}
			return true
		})
	}
	// parameters must not be assigned in the helper (they are spelled as expressions)
	k := 0
	var pnames []string
	for _, fl := range h.ftype.Params.List {
		for _, nm := range fl.Names {
			po := h.pkg.TypesInfo.Defs[nm]
			if po != nil && assignedIn(h, po) {
				return "", false
			}
			bind(po, call.Args[k], sig.Params().At(k).Type(), k)
			pnames = append(pnames, nm.Name)
			k++
		}
		if len(fl.Names) == 0 {
			bind(nil, call.Args[k], sig.Params().At(k).Type(), k)
			k++
		}
	}
	if sig.Recv() != nil {
		sel, ok := call.Fun.(*ast.SelectorExpr)
		if !ok {
			return "", false
		}
		selection := ix.p.TypesInfo.Selections[sel]
		if selection == nil || len(selection.Index()) != 1 || selection.Kind() != types.MethodVal {
			return "", false
		}
		_, recvPtr := sig.Recv().Type().(*types.Pointer)
		_, xPtr := ix.p.TypesInfo.TypeOf(sel.X).Underlying().(*types.Pointer)
		if recvPtr != xPtr {
			return "", false
		}
		if r := h.recv; r != nil && len(r.List) == 1 && len(r.List[0].Names) == 1 {
			ro := h.pkg.TypesInfo.Defs[r.List[0].Names[0]]
			if ro != nil && assignedIn(h, ro) {
				return "", false
			}
			bind(ro, sel.X, sig.Recv().Type(), 99)
		} else {
			bind(nil, sel.X, sig.Recv().Type(), 99)
		}
	} else if isQualifiedCallee(call) {
		return "", false
	}
	cf, ok := ix.captureFixes(call.Pos(), h, nil, nil)
	if !ok || ix.badImport {
		return "", false
	}
	fixes = append(fixes, cf...)
	sort.Slice(fixes, func(i, j int) bool { return fixes[i].id.Pos() < fixes[j].id.Pos() })
	var body strings.Builder
	pos := htf.Offset(h.body.Lbrace) + 1
	for _, fx := range fixes {
		o := htf.Offset(fx.id.Pos())
		if o < pos {
			continue
		}
		body.Write(hsrc[pos:o])
		body.WriteString(fx.name)
		pos = htf.Offset(fx.id.End())
	}
	body.Write(hsrc[pos:htf.Offset(h.body.Rbrace)])
	bp := htf.Position(h.body.Lbrace + 1)
	return pre.String() + "defer func() { " + fmt.Sprintf("/*line %s:%d:%d*/", hfname, bp.Line, bp.Column) + body.String() + "\n}()", true
}

// enclosingFunc: the function declaration or literal body around pos in the current file.
func (ix *inliner) enclosingFunc(pos token.Pos) ast.Node {
	var best ast.Node
	ast.Inspect(ix.f, func(n ast.Node) bool {
		switch x := n.(type) {
		case *ast.FuncDecl:
			if x.Body != nil && x.Body.Pos() <= pos && pos < x.Body.End() {
				best = x.Body
			}
		case *ast.FuncLit:
			if x.Body.Pos() <= pos && pos < x.Body.End() {
				best = x.Body
			}
		}
		return true
	})
	return best
}
