package core

import (
	"fmt"
	"go/ast"
	"os"
	"path/filepath"
	"sort"
	"strings"
	"unicode"
)

// [SCHEMA] — a small DDL reader for the embedded SQLite migrations.

type Col struct {
	Name      string
	Type      string
	PK        bool
	Unique    bool
	NotNull   bool
	RefTable  string
	RefCol    string
	OnDelete  string // CASCADE, ...
	Deferred  bool   // the reference is DEFERRABLE INITIALLY DEFERRED (violations surface at COMMIT)
	FromMigID string
}

type Table struct {
	Name    string
	Cols    []*Col
	PK      []string
	Uniques [][]string
	Pos     string
}

func (t *Table) Col(name string) *Col {
	for _, c := range t.Cols {
		if strings.EqualFold(c.Name, name) {
			return c
		}
	}
	return nil
}

type Schema struct {
	Tables   map[string]*Table
	Problems []string // unknown DDL, unlisted files, ...
	Files    []string // migration files in application order
}

func (s *Schema) TableNames() []string {
	var out []string
	for n := range s.Tables {
		out = append(out, n)
	}
	sort.Strings(out)
	return out
}

// MigrationFiles reads the Go AST of a migrations package: the //go:embed'ed .sql files in the order in which the
// `types.Migration{... SQL: v}` literals list them. .sql files present in the directory but not embedded/listed are
// reported as problems.
func (c *Ctx) MigrationFiles(sub string) (files []string, problems []string) {
	p := c.Pkg(sub)
	if p == nil {
		return nil, []string{"package " + sub + " not loaded"}
	}
	embed := map[string]string{} // var -> file
	for _, f := range p.Syntax {
		for _, d := range f.Decls {
			gd, ok := d.(*ast.GenDecl)
			if !ok || gd.Doc == nil {
				continue
			}
			for _, cm := range gd.Doc.List {
				if strings.HasPrefix(cm.Text, "//go:embed ") {
					file := strings.TrimSpace(strings.TrimPrefix(cm.Text, "//go:embed "))
					for _, sp := range gd.Specs {
						if vs, ok := sp.(*ast.ValueSpec); ok && len(vs.Names) == 1 {
							embed[vs.Names[0].Name] = file
						}
					}
				}
			}
		}
	}
	type lit struct {
		pos  int
		file string
	}
	var lits []lit
	for _, f := range p.Syntax {
		ast.Inspect(f, func(n ast.Node) bool {
			cl, ok := n.(*ast.CompositeLit)
			if !ok {
				return true
			}
			for _, e := range cl.Elts {
				kv, ok := e.(*ast.KeyValueExpr)
				if !ok {
					continue
				}
				if k, ok := kv.Key.(*ast.Ident); ok && k.Name == "SQL" {
					if id, ok := kv.Value.(*ast.Ident); ok {
						if file, ok := embed[id.Name]; ok {
							lits = append(lits, lit{int(cl.Pos()), file})
						}
					}
				}
			}
			return true
		})
	}
	sort.Slice(lits, func(i, j int) bool { return lits[i].pos < lits[j].pos })
	listed := map[string]bool{}
	for _, l := range lits {
		files = append(files, filepath.Join(sub, l.file))
		listed[l.file] = true
	}
	ents, err := os.ReadDir(filepath.Join(c.RepoDir, sub))
	if err == nil {
		for _, e := range ents {
			if strings.HasSuffix(e.Name(), ".sql") && !listed[e.Name()] {
				problems = append(problems, fmt.Sprintf("%s/%s is not embedded and listed in the migrations slice", sub, e.Name()))
			}
		}
	}
	for k := range c.FileOverlay {
		if strings.HasPrefix(k, sub+"/") && strings.HasSuffix(k, ".sql") && !listed[filepath.Base(k)] {
			problems = append(problems, fmt.Sprintf("%s is not embedded and listed in the migrations slice", k))
		}
	}
	return files, problems
}

// LoadSchema applies the Up halves of the given migration files, in order, with the given table prefix replacement.
func (c *Ctx) LoadSchema(files []string, prefix string) *Schema {
	s := &Schema{Tables: map[string]*Table{}}
	s.ApplyFiles(c, files, prefix)
	return s
}

func (s *Schema) ApplyFiles(c *Ctx, files []string, prefix string) {
	for _, f := range files {
		b, err := c.ReadFile(f)
		if err != nil {
			s.Problems = append(s.Problems, err.Error())
			continue
		}
		s.Files = append(s.Files, f)
		text := strings.ReplaceAll(string(b), "/*dbprefix*/", prefix)
		parts := strings.Split(text, "-- +migrate Up")
		if len(parts) != 2 {
			s.Problems = append(s.Problems, f+": expected exactly one `-- +migrate Up` marker")
			continue
		}
		for _, stmt := range splitStatements(parts[1]) {
			s.apply(stmt, f)
		}
	}
}

func splitStatements(sql string) []string {
	var lines []string
	for _, l := range strings.Split(sql, "\n") {
		if i := strings.Index(l, "--"); i >= 0 {
			l = l[:i]
		}
		lines = append(lines, l)
	}
	var out []string
	for _, st := range strings.Split(strings.Join(lines, "\n"), ";") {
		if strings.TrimSpace(st) != "" {
			out = append(out, st)
		}
	}
	return out
}

// SQLTokens splits a statement into identifiers / numbers / punctuation (upper-casing nothing).
func SQLTokens(s string) []string {
	var out []string
	i := 0
	for i < len(s) {
		ch := rune(s[i])
		switch {
		case unicode.IsSpace(ch):
			i++
		case unicode.IsLetter(ch) || ch == '_' || unicode.IsDigit(ch) || ch == '$':
			j := i
			for j < len(s) && (unicode.IsLetter(rune(s[j])) || s[j] == '_' || unicode.IsDigit(rune(s[j])) || s[j] == '$' || s[j] == '.') {
				j++
			}
			out = append(out, s[i:j])
			i = j
		case ch == '"' || ch == '\'' || ch == '`':
			j := i + 1
			for j < len(s) && rune(s[j]) != ch {
				j++
			}
			if j < len(s) {
				j++
			}
			out = append(out, s[i:j])
			i = j
		case ch == '>' || ch == '<' || ch == '!':
			if i+1 < len(s) && s[i+1] == '=' {
				out = append(out, s[i:i+2])
				i += 2
			} else {
				out = append(out, string(ch))
				i++
			}
		default:
			out = append(out, string(ch))
			i++
		}
	}
	return out
}

func up(s string) string { return strings.ToUpper(s) }

func (s *Schema) apply(stmt, file string) {
	tk := SQLTokens(stmt)
	if len(tk) == 0 {
		return
	}
	switch {
	case up(tk[0]) == "CREATE" && len(tk) > 2 && up(tk[1]) == "TABLE":
		i := 2
		if up(tk[i]) == "IF" {
			i += 3
		}
		name := tk[i]
		i++
		if i >= len(tk) || tk[i] != "(" {
			s.Problems = append(s.Problems, file+": cannot parse CREATE TABLE "+name)
			return
		}
		body, _ := matchParen(tk, i)
		t := &Table{Name: name, Pos: file}
		for _, item := range splitTop(body) {
			s.tableItem(t, item, file)
		}
		s.Tables[name] = t
	case up(tk[0]) == "ALTER" && len(tk) > 5 && up(tk[1]) == "TABLE" && up(tk[3]) == "ADD":
		t := s.Tables[tk[2]]
		if t == nil {
			s.Problems = append(s.Problems, file+": ALTER TABLE on unknown table "+tk[2])
			return
		}
		i := 4
		if up(tk[i]) == "COLUMN" {
			i++
		}
		s.tableItem(t, tk[i:], file)
	case up(tk[0]) == "ALTER" && len(tk) > 5 && up(tk[1]) == "TABLE" && up(tk[3]) == "RENAME" && up(tk[4]) == "TO":
		if t := s.Tables[tk[2]]; t != nil {
			delete(s.Tables, tk[2])
			t.Name = tk[5]
			s.Tables[tk[5]] = t
		} else {
			s.Problems = append(s.Problems, file+": ALTER TABLE RENAME on unknown table "+tk[2])
		}
	case up(tk[0]) == "DROP" && len(tk) > 2 && up(tk[1]) == "TABLE":
		delete(s.Tables, tk[len(tk)-1])
	case up(tk[0]) == "DELETE" || up(tk[0]) == "UPDATE" || up(tk[0]) == "INSERT":
		// data migration, no schema effect
	case up(tk[0]) == "CREATE" && len(tk) > 2 && (up(tk[1]) == "INDEX" || up(tk[1]) == "UNIQUE"):
		// index: no effect on the rules (a UNIQUE INDEX is not used as a constraint by any rule)
	default:
		s.Problems = append(s.Problems, file+": unknown DDL statement: "+strings.Join(tk[:min(len(tk), 6)], " "))
	}
}

func matchParen(tk []string, open int) (inside []string, end int) {
	depth := 0
	for i := open; i < len(tk); i++ {
		switch tk[i] {
		case "(":
			depth++
		case ")":
			depth--
			if depth == 0 {
				return tk[open+1 : i], i
			}
		}
	}
	return tk[open+1:], len(tk)
}

func splitTop(tk []string) [][]string {
	var out [][]string
	depth := 0
	start := 0
	for i, t := range tk {
		switch t {
		case "(":
			depth++
		case ")":
			depth--
		case ",":
			if depth == 0 {
				out = append(out, tk[start:i])
				start = i + 1
			}
		}
	}
	if start < len(tk) {
		out = append(out, tk[start:])
	}
	return out
}

func (s *Schema) tableItem(t *Table, item []string, file string) {
	if len(item) == 0 {
		return
	}
	switch up(item[0]) {
	case "PRIMARY":
		for i, x := range item {
			if x == "(" {
				in, _ := matchParen(item, i)
				for _, c := range splitTop(in) {
					t.PK = append(t.PK, c[0])
				}
				break
			}
		}
		return
	case "UNIQUE":
		for i, x := range item {
			if x == "(" {
				in, _ := matchParen(item, i)
				var u []string
				for _, c := range splitTop(in) {
					u = append(u, c[0])
				}
				t.Uniques = append(t.Uniques, u)
				break
			}
		}
		return
	case "FOREIGN":
		// FOREIGN KEY (a) REFERENCES t (c) ON DELETE CASCADE
		var cols []string
		for i, x := range item {
			if x == "(" {
				in, _ := matchParen(item, i)
				for _, c := range splitTop(in) {
					cols = append(cols, c[0])
				}
				break
			}
		}
		for _, cn := range cols {
			if c := t.Col(cn); c != nil {
				parseRef(c, item)
			}
		}
		return
	case "CHECK", "CONSTRAINT":
		return
	}
	c := &Col{Name: item[0], FromMigID: file}
	if len(item) > 1 {
		c.Type = item[1]
	}
	for i := 1; i < len(item); i++ {
		switch up(item[i]) {
		case "PRIMARY":
			c.PK = true
			t.PK = append(t.PK, c.Name)
		case "UNIQUE":
			c.Unique = true
			t.Uniques = append(t.Uniques, []string{c.Name})
		case "NOT":
			if i+1 < len(item) && up(item[i+1]) == "NULL" {
				c.NotNull = true
			}
		}
	}
	parseRef(c, item)
	t.Cols = append(t.Cols, c)
}

func parseRef(c *Col, item []string) {
	for i := 0; i < len(item); i++ {
		if up(item[i]) != "REFERENCES" || i+1 >= len(item) {
			continue
		}
		c.RefTable = item[i+1]
		j := i + 2
		if j < len(item) && item[j] == "(" {
			in, end := matchParen(item, j)
			if len(in) > 0 {
				c.RefCol = in[0]
			}
			j = end + 1
		}
		for k := j; k < len(item); k++ {
			if up(item[k]) == "DEFERRED" {
				c.Deferred = true
			}
		}
		for ; j+2 < len(item); j++ {
			if up(item[j]) == "ON" && up(item[j+1]) == "DELETE" {
				c.OnDelete = up(item[j+2])
			}
		}
	}
}

func (t *Table) HasUnique(cols ...string) bool {
	eq := func(a []string) bool {
		if len(a) != len(cols) {
			return false
		}
		for i := range a {
			if !strings.EqualFold(a[i], cols[i]) {
				return false
			}
		}
		return true
	}
	if eq(t.PK) {
		return true
	}
	for _, u := range t.Uniques {
		if eq(u) {
			return true
		}
	}
	return false
}

// Debugf prints to stderr when VERIF_DEBUG is set (development aid; never part of a verdict).
func Debugf(format string, args ...any) {
	if os.Getenv("VERIF_DEBUG") != "" {
		fmt.Fprintf(os.Stderr, "DEBUG "+format+"\n", args...)
	}
}

// Affinity is SQLite's column affinity of a declared type (https://www.sqlite.org/datatype3.html §3.1).
func Affinity(declared string) string {
	t := strings.ToUpper(declared)
	switch {
	case strings.Contains(t, "INT"):
		return "INTEGER"
	case strings.Contains(t, "CHAR"), strings.Contains(t, "CLOB"), strings.Contains(t, "TEXT"):
		return "TEXT"
	case strings.Contains(t, "BLOB"), t == "":
		return "BLOB"
	case strings.Contains(t, "REAL"), strings.Contains(t, "FLOA"), strings.Contains(t, "DOUB"):
		return "REAL"
	}
	return "NUMERIC"
}
