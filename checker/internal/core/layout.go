package core

import (
	"fmt"
	"go/token"
	"go/types"
	"sort"
	"strings"

	"golang.org/x/tools/go/ssa"
)

// [LAYOUT] — byte-layout extraction for loop-free hash-building code (DESIGN.md section 3).
//
// Of(v) renders the bytes denoted by an SSA value as a term:
//
//	K(p1|...|pn)   keccak-256 of the concatenation
//	U8(x) BE32(x) BE64(x) LE64(x) U256BE(x)   fixed-width integer encodings
//	RAW20(x) RAW32(x)                           an address / hash array as is
//	BYTES(x)                                    a variable-length byte string
//	PHI{a|b}                                    alternatives merged by control flow
//	LIST(x)                                     a dynamic list of byte strings (not expanded)
//
// Anything the evaluator does not model is rendered "?…" so that comparisons fail visibly.
type Layout struct {
	Sx *Symx
}

func NewLayout() *Layout {
	sx := NewSymx()
	sx.ElideConv = true
	return &Layout{Sx: sx}
}

func arrayLen(t types.Type) int64 {
	if p, ok := t.Underlying().(*types.Pointer); ok {
		t = p.Elem()
	}
	if a, ok := t.Underlying().(*types.Array); ok {
		return a.Len()
	}
	return -1
}

func (l *Layout) raw(v ssa.Value, n int64) string {
	return fmt.Sprintf("RAW%d(%s)", n, l.Sx.Of(v))
}

func (l *Layout) Of(v ssa.Value) string { return l.of(v, 0) }

func (l *Layout) of(v ssa.Value, d int) string {
	if v == nil || d > 25 {
		return "?depth"
	}
	switch x := v.(type) {
	case *ssa.Call:
		return l.call(x, d)
	case *ssa.MakeInterface:
		return l.of(x.X, d+1)
	case *ssa.ChangeType:
		return l.of(x.X, d+1)
	case *ssa.Convert:
		return l.of(x.X, d+1)
	case *ssa.Phi:
		var alts []string
		seen := map[string]bool{}
		for _, e := range x.Edges {
			s := l.of(e, d+1)
			if !seen[s] {
				seen[s] = true
				alts = append(alts, s)
			}
		}
		sort.Strings(alts)
		if len(alts) == 1 {
			return alts[0]
		}
		return "PHI{" + strings.Join(alts, "|") + "}"
	case *ssa.Slice:
		return l.sliceOf(x, d)
	case *ssa.MakeSlice:
		return l.filledBuffer(x, d)
	case *ssa.UnOp:
		if x.Op == token.MUL {
			switch a := x.X.(type) {
			case *ssa.Alloc:
				// local array filled by copy(arr[:], src)
				if src := copiedInto(a); src != nil {
					return l.of(src, d+1)
				}
				vals, _ := ReachingStores(x, a)
				if len(vals) == 1 {
					return l.of(vals[0], d+1)
				}
			case *ssa.Global:
				return "GLOBAL(" + strings.ReplaceAll(a.String(), Mod+"/", "") + ")"
			}
			if n := arrayLen(x.Type()); n == 20 || n == 32 {
				return l.raw(x, n)
			}
			if isByteSlice(x.Type()) {
				return "BYTES(" + l.Sx.Of(x).String() + ")"
			}
		}
	case *ssa.Alloc:
		if src := copiedInto(x); src != nil {
			return l.of(src, d+1)
		}
	case *ssa.Const:
		if x.Value == nil {
			return "EMPTY"
		}
	case *ssa.Extract, *ssa.Parameter, *ssa.Field:
		if n := arrayLen(v.Type()); n == 20 || n == 32 {
			return l.raw(v, n)
		}
		if isByteSlice(v.Type()) {
			return "BYTES(" + l.Sx.Of(v).String() + ")"
		}
	}
	if isByteSlice(v.Type()) {
		return "BYTES(" + l.Sx.Of(v).String() + ")"
	}
	return "?" + l.Sx.Of(v).String()
}

func isByteSlice(t types.Type) bool {
	s, ok := t.Underlying().(*types.Slice)
	if !ok {
		return false
	}
	b, ok := s.Elem().Underlying().(*types.Basic)
	return ok && b.Kind() == types.Uint8
}

// copiedInto: the source of `copy(arr[:], src)` for a local array.
func copiedInto(a *ssa.Alloc) ssa.Value {
	for _, ref := range *a.Referrers() {
		sl, ok := ref.(*ssa.Slice)
		if !ok {
			continue
		}
		for _, r2 := range *sl.Referrers() {
			call, ok := r2.(*ssa.Call)
			if !ok {
				continue
			}
			if b, ok := call.Call.Value.(*ssa.Builtin); ok && b.Name() == "copy" && call.Call.Args[0] == ssa.Value(sl) {
				return call.Call.Args[1]
			}
		}
	}
	return nil
}

func (l *Layout) sliceOf(s *ssa.Slice, d int) string {
	// make([]byte, N) with constant N is `new [N]byte` sliced [:N]: a buffer filled by binary.*Endian.PutUintNN
	if al, ok := s.X.(*ssa.Alloc); ok && s.Low == nil && s.High != nil {
		if hi, ok := ConstInt(s.High); ok && hi == arrayLen(al.Type()) {
			if r := l.putInto(s, hi); r != "" {
				return r
			}
		}
	}
	if s.Low != nil || s.High != nil {
		lo, hi := "", ""
		if s.Low != nil {
			lo = l.Sx.Of(s.Low).String()
		}
		if s.High != nil {
			hi = l.Sx.Of(s.High).String()
		}
		return fmt.Sprintf("SLICE(%s,%s,%s)", l.of(s.X, d+1), lo, hi)
	}
	switch a := s.X.(type) {
	case *ssa.Alloc:
		n := arrayLen(a.Type())
		// []byte{x} literal
		if n == 1 {
			for _, ref := range *a.Referrers() {
				if ia, ok := ref.(*ssa.IndexAddr); ok {
					for _, sv := range storesTo(ia) {
						return "U8(" + l.Sx.Of(sv).String() + ")"
					}
				}
			}
		}
		if src := copiedInto(a); src != nil {
			return l.of(src, d+1)
		}
		// var buf [32]byte; x.FillBytes(buf[:]); … buf[:] — the whole array filled by exactly one FillBytes
		if n == 32 && s.Low == nil && s.High == nil {
			var fills []*ssa.Call
			other := false
			for _, ref := range *a.Referrers() {
				sl, isSl := ref.(*ssa.Slice)
				if !isSl {
					if _, isDbg := ref.(*ssa.DebugRef); !isDbg {
						other = true
					}
					continue
				}
				for _, r2 := range *sl.Referrers() {
					if c, isC := r2.(*ssa.Call); isC && CallName(c) == "(*math/big.Int).FillBytes" && len(c.Call.Args) == 2 && c.Call.Args[1] == ssa.Value(sl) && sl.Low == nil && sl.High == nil {
						fills = append(fills, c)
					}
				}
			}
			if len(fills) == 1 && !other && Dominates(fills[0], s) {
				return "U256BE(" + l.Sx.Of(fills[0].Call.Args[0]).String() + ")"
			}
		}
		// a value (parameter / local) spilled to a cell because its address is taken: arr[:]
		if st := storesTo(a); len(st) == 1 && (n == 20 || n == 32) {
			return l.raw(st[0], n)
		}
		return fmt.Sprintf("?local[%d]", n)
	case *ssa.FieldAddr:
		if n := arrayLen(a.Type()); n == 20 || n == 32 {
			return fmt.Sprintf("RAW%d(%s)", n, l.Sx.Of(a))
		}
	case *ssa.UnOp, *ssa.Parameter:
		if n := arrayLen(a.Type()); n == 20 || n == 32 {
			return l.raw(a, n)
		}
	}
	// slice of a pointer-to-array parameter / local copy (e.g. left[:] where left is a Hash parameter spilled to a cell)
	if n := arrayLen(s.X.Type()); n == 20 || n == 32 {
		return fmt.Sprintf("RAW%d(%s)", n, l.Sx.Of(s.X))
	}
	return "?slice:" + l.Sx.Of(s).String()
}

// filledBuffer: make([]byte, n) followed by binary.{Big,Little}Endian.PutUintNN(buf, x).
func (l *Layout) filledBuffer(m *ssa.MakeSlice, d int) string {
	n, _ := ConstInt(m.Len)
	if r := l.putInto(m, n); r != "" {
		return r
	}
	return fmt.Sprintf("?buffer[%d]", n)
}

func (l *Layout) putInto(m ssa.Value, n int64) string {
	if m.Referrers() == nil {
		return ""
	}
	for _, ref := range *m.Referrers() {
		call, ok := ref.(*ssa.Call)
		if !ok {
			continue
		}
		name := CallName(call)
		args := call.Call.Args
		if len(args) < 3 || args[1] != ssa.Value(m) {
			continue
		}
		x := l.Sx.Of(args[2]).String()
		switch {
		case name == "(encoding/binary.bigEndian).PutUint32" && n == 4:
			return "BE32(" + x + ")"
		case name == "(encoding/binary.bigEndian).PutUint64" && n == 8:
			return "BE64(" + x + ")"
		case name == "(encoding/binary.littleEndian).PutUint64" && n == 8:
			return "LE64(" + x + ")"
		case name == "(encoding/binary.littleEndian).PutUint32" && n == 4:
			return "LE32(" + x + ")"
		case strings.HasPrefix(name, "(encoding/binary."):
			return fmt.Sprintf("?%s into %d bytes", name, n)
		}
	}
	return ""
}

// variadicParts expands `f(a, b, c)` passed as a []T literal into its elements, in order.
func variadicParts(v ssa.Value) ([]ssa.Value, bool) {
	sl, ok := v.(*ssa.Slice)
	if !ok {
		return nil, false
	}
	al, ok := sl.X.(*ssa.Alloc)
	if !ok {
		return nil, false
	}
	n := arrayLen(al.Type())
	if n < 0 {
		return nil, false
	}
	parts := make([]ssa.Value, n)
	for _, ref := range *al.Referrers() {
		ia, ok := ref.(*ssa.IndexAddr)
		if !ok {
			continue
		}
		k, ok := ConstInt(ia.Index)
		if !ok || k < 0 || k >= n {
			return nil, false
		}
		st := storesTo(ia)
		if len(st) != 1 {
			return nil, false
		}
		parts[k] = st[0]
	}
	for _, p := range parts {
		if p == nil {
			return nil, false
		}
	}
	return parts, true
}

func (l *Layout) keccakOf(arg ssa.Value, d int) string {
	parts, ok := variadicParts(arg)
	if !ok {
		if c, isC := arg.(*ssa.Const); isC && c.Value == nil {
			return "K()"
		}
		return "K(LIST)" // construction of the list is analysed separately ([LIST])
	}
	ps := make([]string, len(parts))
	for i, p := range parts {
		ps[i] = l.of(p, d+1)
	}
	return "K(" + strings.Join(ps, "|") + ")"
}

func (l *Layout) call(c *ssa.Call, d int) string {
	name := CallName(c)
	args := c.Call.Args
	// append(append(make([]byte, 0, n), a...), b...) — concatenation
	if b, ok := c.Call.Value.(*ssa.Builtin); ok && b.Name() == "append" && isByteSlice(c.Type()) && len(args) == 2 {
		tail := l.of(args[1], d+1)
		if l.emptyPrefix(args[0]) {
			return tail
		}
		return l.of(args[0], d+1) + "|" + tail
	}
	// binary.BigEndian.AppendUintNN(prefix, v) = prefix ‖ BE(v)
	if strings.HasPrefix(name, "(encoding/binary.bigEndian).AppendUint") || strings.HasPrefix(name, "(encoding/binary.littleEndian).AppendUint") {
		kind := map[string]string{"(encoding/binary.bigEndian).AppendUint16": "BE16", "(encoding/binary.bigEndian).AppendUint32": "BE32", "(encoding/binary.bigEndian).AppendUint64": "BE64",
			"(encoding/binary.littleEndian).AppendUint16": "LE16", "(encoding/binary.littleEndian).AppendUint32": "LE32", "(encoding/binary.littleEndian).AppendUint64": "LE64"}[name]
		if kind != "" && len(args) == 3 {
			tail := kind + "(" + l.Sx.Of(args[2]).String() + ")"
			if l.emptyPrefix(args[1]) {
				return tail
			}
			return l.of(args[1], d+1) + "|" + tail
		}
	}
	// slices.Concat(a, b, …) / bytes.Join([][]byte{a, b, …}, nil) = a ‖ b ‖ …
	if (strings.HasPrefix(name, "slices.Concat") && len(args) == 1 && isByteSlice(c.Type())) ||
		(name == "bytes.Join" && len(args) == 2 && isNilConst(args[1])) {
		if parts, ok := variadicParts(args[0]); ok && len(parts) > 0 {
			ps := make([]string, len(parts))
			for i, p := range parts {
				ps[i] = l.of(p, d+1)
			}
			return strings.Join(ps, "|")
		}
	}
	switch name {
	case "github.com/ethereum/go-ethereum/crypto.Keccak256Hash", "github.com/ethereum/go-ethereum/crypto.Keccak256",
		"github.com/iden3/go-iden3-crypto/keccak256.Hash":
		return l.keccakOf(args[0], d)
	case "github.com/ethereum/go-ethereum/common.BytesToHash":
		return l.of(args[0], d+1)
	case "(github.com/ethereum/go-ethereum/common.Hash).Bytes":
		if inner, ok := args[0].(*ssa.Call); ok {
			switch CallName(inner) {
			case "github.com/ethereum/go-ethereum/common.BigToHash":
				return "U256BE(" + l.Sx.Of(inner.Call.Args[0]).String() + ")"
			case "github.com/ethereum/go-ethereum/crypto.Keccak256Hash":
				return l.of(inner, d+1)
			}
		}
		return l.raw(args[0], 32)
	case "(github.com/ethereum/go-ethereum/common.Address).Bytes":
		return l.raw(args[0], 20)
	case "common.Uint32ToBytes":
		return "BE32(" + l.Sx.Of(args[0]).String() + ")"
	case "common.Uint64ToBigEndianBytes":
		return "BE64(" + l.Sx.Of(args[0]).String() + ")"
	case "common.Uint64ToLittleEndianBytes":
		return "LE64(" + l.Sx.Of(args[0]).String() + ")"
	case "(*math/big.Int).FillBytes":
		if sl, ok := args[1].(*ssa.Slice); ok && arrayLen(sl.X.Type()) == 32 && sl.Low == nil && sl.High == nil {
			return "U256BE(" + l.Sx.Of(args[0]).String() + ")"
		}
		return "?FillBytes"
	case "(hash.Hash).Sum":
		return l.hasherSum(c, d)
	}
	if isByteSlice(c.Type()) {
		return "BYTES(" + l.Sx.Of(c).String() + ")"
	}
	if n := arrayLen(c.Type()); n == 20 || n == 32 {
		return l.raw(c, n)
	}
	return "?" + l.Sx.Of(c).String()
}

// hasherSum: h := sha3.NewLegacyKeccak256(); h.Write(a); h.Write(b); h.Sum(nil) — writes in program order.
func (l *Layout) hasherSum(sum *ssa.Call, d int) string {
	h := sum.Call.Value
	if !sum.Call.IsInvoke() {
		return "?Sum"
	}
	if a := sum.Call.Args[0]; !isNilByteConst(a) {
		return "?Sum(non-nil prefix)"
	}
	mk, ok := h.(*ssa.Call)
	if !ok || CallName(mk) != "golang.org/x/crypto/sha3.NewLegacyKeccak256" {
		return "?hasher:" + l.Sx.Of(h).String()
	}
	type w struct {
		pos token.Pos
		s   string
		ins ssa.Instruction
	}
	var ws []w
	for _, ref := range *mk.Referrers() {
		call, ok := ref.(*ssa.Call)
		if !ok || call == sum {
			continue
		}
		if !call.Call.IsInvoke() || call.Call.Value != ssa.Value(mk) {
			return "?hasher escapes"
		}
		switch call.Call.Method.Name() {
		case "Write":
			if !Dominates(call, sum) {
				return "?conditional hasher write"
			}
			ws = append(ws, w{call.Pos(), l.of(call.Call.Args[0], d+1), call})
		default:
			return "?hasher." + call.Call.Method.Name()
		}
	}
	// program order: by dominance chain (all writes dominate the Sum; order them by mutual dominance)
	sort.SliceStable(ws, func(i, j int) bool { return Dominates(ws[i].ins, ws[j].ins) && ws[i].ins != ws[j].ins })
	ps := make([]string, len(ws))
	for i, x := range ws {
		ps[i] = x.s
	}
	return "K(" + strings.Join(ps, "|") + ")"
}

// emptyPrefix: nil, make([]byte, 0, n), []byte{}, or buf[:0] of a fresh local array.
func (l *Layout) emptyPrefix(v ssa.Value) bool {
	if isNilByteConst(v) {
		return true
	}
	switch x := v.(type) {
	case *ssa.MakeSlice:
		n, ok := ConstInt(x.Len)
		return ok && n == 0
	case *ssa.Slice:
		if _, isAlloc := x.X.(*ssa.Alloc); isAlloc && x.High != nil {
			n, ok := ConstInt(x.High)
			return ok && n == 0 && x.Low == nil
		}
	}
	return false
}

func isNilByteConst(v ssa.Value) bool {
	c, ok := v.(*ssa.Const)
	return ok && c.Value == nil
}

func isNilConst(v ssa.Value) bool {
	c, ok := v.(*ssa.Const)
	return ok && c.Value == nil
}
