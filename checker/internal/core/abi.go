package core

import (
	"encoding/json"
	"fmt"
	"os"
	"os/exec"
	"path/filepath"
	"regexp"
	"strconv"
	"strings"
)

// ABIEntry is one entry of a contract ABI JSON.
type ABIEntry struct {
	Type   string `json:"type"`
	Name   string `json:"name"`
	Inputs []struct {
		Name    string `json:"name"`
		Type    string `json:"type"`
		Indexed bool   `json:"indexed"`
	} `json:"inputs"`
}

// Signature renders name(type1,type2,...).
func (e ABIEntry) Signature() string {
	ts := make([]string, len(e.Inputs))
	for i, in := range e.Inputs {
		ts[i] = in.Type
	}
	return e.Name + "(" + strings.Join(ts, ",") + ")"
}

var abiLit = regexp.MustCompile(`ABI:\s*("(?:[^"\\]|\\.)*")`)

// DepDir returns the source directory of a dependency package (go list, offline).
func (c *Ctx) DepDir(pkgPath string) (string, error) {
	cmd := exec.Command("go", "list", "-f", "{{.Dir}}", pkgPath)
	cmd.Dir = c.RepoDir
	cmd.Env = append(os.Environ(), "GOWORK=off", "GOFLAGS=-mod=mod", "GOPROXY=off", "GOTOOLCHAIN=local")
	out, err := cmd.Output()
	if err != nil {
		return "", fmt.Errorf("go list %s: %v", pkgPath, err)
	}
	return strings.TrimSpace(string(out)), nil
}

// BindingABI reads the ABI JSON embedded in an abigen binding package (the contract interface itself is the oracle).
func (c *Ctx) BindingABI(pkgPath string) ([]ABIEntry, error) {
	dir, err := c.DepDir(pkgPath)
	if err != nil {
		return nil, err
	}
	files, _ := filepath.Glob(filepath.Join(dir, "*.go"))
	for _, f := range files {
		b, err := os.ReadFile(f)
		if err != nil {
			continue
		}
		m := abiLit.FindSubmatch(b)
		if m == nil {
			continue
		}
		s, err := strconv.Unquote(string(m[1]))
		if err != nil {
			return nil, err
		}
		var es []ABIEntry
		if err := json.Unmarshal([]byte(s), &es); err != nil {
			return nil, err
		}
		return es, nil
	}
	return nil, fmt.Errorf("no ABI literal found in %s", pkgPath)
}
