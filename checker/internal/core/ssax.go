package core

import (
	"fmt"
	"go/constant"
	"go/token"
	"go/types"
	"sort"
	"strings"

	"golang.org/x/tools/go/ssa"
)

// ---------------------------------------------------------------------------------------------
// Callee resolution (by object identity, never by text)

// AsCall returns the call common of any call-like instruction (call, defer, go).
func AsCall(instr ssa.Instruction) *ssa.CallCommon {
	switch i := instr.(type) {
	case *ssa.Call:
		return &i.Call
	case *ssa.Defer:
		return &i.Call
	case *ssa.Go:
		return &i.Call
	}
	return nil
}

// CalleeObj returns the types.Func a call resolves to: the static callee's object, or the interface method
// for an invoke-mode call. nil for calls of closures / function values.
func CalleeObj(cc *ssa.CallCommon) *types.Func {
	if cc == nil {
		return nil
	}
	if cc.IsInvoke() {
		return cc.Method
	}
	if f := cc.StaticCallee(); f != nil {
		if o, ok := f.Object().(*types.Func); ok {
			return o
		}
		// instantiation of a generic / wrapper
		if f.Origin() != nil {
			if o, ok := f.Origin().Object().(*types.Func); ok {
				return o
			}
		}
	}
	return nil
}

// FullName renders a function object as "pkg.Func" / "(*pkg.T).M" / "(pkg.I).M" with the module prefix stripped.
func FullName(o *types.Func) string {
	if o == nil {
		return ""
	}
	return strings.ReplaceAll(o.FullName(), Mod+"/", "")
}

// CallName is FullName of the callee of instr ("" when not a call or not resolvable).
func CallName(instr ssa.Instruction) string {
	return FullName(CalleeObj(AsCall(instr)))
}

// IsCallTo reports whether instr calls one of the given full names.
func IsCallTo(instr ssa.Instruction, names ...string) bool {
	n := CallName(instr)
	if n == "" {
		return false
	}
	for _, x := range names {
		if n == x {
			return true
		}
	}
	return false
}

// CallArgs returns the arguments including the receiver as first element for method calls (both modes).
func CallArgs(cc *ssa.CallCommon) []ssa.Value {
	if cc.IsInvoke() {
		return append([]ssa.Value{cc.Value}, cc.Args...)
	}
	return cc.Args
}

// Instrs iterates over all instructions of fn (not of its closures).
func Instrs(fn *ssa.Function, f func(ssa.Instruction)) {
	for _, b := range fn.Blocks {
		for _, i := range b.Instrs {
			f(i)
		}
	}
}

// InstrsDeep iterates over fn and its anonymous functions, recursively.
func InstrsDeep(fn *ssa.Function, f func(*ssa.Function, ssa.Instruction)) {
	Instrs(fn, func(i ssa.Instruction) { f(fn, i) })
	for _, a := range fn.AnonFuncs {
		InstrsDeep(a, f)
	}
}

// CallsTo lists the call instructions in fn (not closures) whose callee is one of names.
func CallsTo(fn *ssa.Function, names ...string) []ssa.Instruction {
	var out []ssa.Instruction
	Instrs(fn, func(i ssa.Instruction) {
		if IsCallTo(i, names...) {
			out = append(out, i)
		}
	})
	return out
}

// CallSite describes a call found in the repository.
type CallSite struct {
	Fn    *ssa.Function
	Instr ssa.Instruction
}

// AllCallsTo enumerates every call site (in any repository function incl. closures) of the given callee names.
func (c *Ctx) AllCallsTo(names ...string) []CallSite {
	var out []CallSite
	for _, fn := range c.AllFuncs() {
		Instrs(fn, func(i ssa.Instruction) {
			if IsCallTo(i, names...) {
				out = append(out, CallSite{fn, i})
			}
		})
	}
	return out
}

// RootFn returns the outermost enclosing named function of a (possibly anonymous) function.
func RootFn(f *ssa.Function) *ssa.Function {
	for f.Parent() != nil {
		f = f.Parent()
	}
	return f
}

// ---------------------------------------------------------------------------------------------
// Program points, path-sensitive reachability

type Point struct {
	B *ssa.BasicBlock
	I int
}

func PointOf(instr ssa.Instruction) Point {
	b := instr.Block()
	for i, x := range b.Instrs {
		if x == instr {
			return Point{b, i}
		}
	}
	panic("instruction not in its block")
}

// After is the point just after instr.
func After(instr ssa.Instruction) Point { p := PointOf(instr); p.I++; return p }

func Entry(fn *ssa.Function) Point { return Point{fn.Blocks[0], 0} }

// Env is the set of boolean facts known on a path: SSA bool values whose value is known.
type Env map[ssa.Value]bool

func (e Env) key() string {
	if len(e) == 0 {
		return ""
	}
	ks := make([]string, 0, len(e))
	for v, b := range e {
		ks = append(ks, fmt.Sprintf("%s=%v", v.Name(), b))
	}
	sort.Strings(ks)
	return strings.Join(ks, ",")
}

func (e Env) clone() Env {
	n := make(Env, len(e)+2)
	for k, v := range e {
		n[k] = v
	}
	return n
}

// Walk is a forward reachability query on the instruction-level CFG of one function.
// Boolean flags are tracked path-sensitively (constant Phi operands, branch refinement), which removes the
// infeasible paths of the `succeed := false; for { ...; if succeed { break } }` idiom.
type Walk struct {
	// Stop: do not continue past this instruction (the instruction itself is visited / can be a target first).
	Stop func(ssa.Instruction) bool
	// Target: the walk reports the first target found.
	Target func(ssa.Instruction) bool
	// EdgeOK: return false to forbid leaving `from` through successor index succ (0 = true edge of an If).
	EdgeOK func(from *ssa.BasicBlock, succ int) bool
	// TargetEdge: the walk reports success when it is about to traverse this (feasible, allowed) edge.
	TargetEdge func(from *ssa.BasicBlock, succ int) bool
	// TargetEnv is like Target but also sees the boolean facts known on the path.
	TargetEnv func(ssa.Instruction, Env) bool
	// TargetPath is like Target but also sees the blocks walked so far (to resolve Phi values, see ResolveOnPath).
	TargetPath func(ssa.Instruction, []int) bool
	NoEnv      bool
}

// EvalBool evaluates a boolean SSA value under path facts.
func EvalBool(v ssa.Value, env Env) (val, known bool) { return evalBool(v, env) }

type Found struct {
	Instr ssa.Instruction
	Path  []int // block indices from the start to the target
}

type wstate struct {
	p   Point
	env Env
}

// From runs the query from a point. Returns nil when no target is reachable.
func (w *Walk) From(start Point, env Env) *Found {
	if env == nil {
		env = Env{}
	}
	type qitem struct {
		st   wstate
		path []int
	}
	seen := map[string]bool{}
	queue := []qitem{{wstate{start, env}, []int{start.B.Index}}}
	for len(queue) > 0 {
		it := queue[0]
		queue = queue[1:]
		b := it.st.p.B
		k := fmt.Sprintf("%d:%d:%s", b.Index, it.st.p.I, it.st.env.key())
		if seen[k] {
			continue
		}
		seen[k] = true
		stopped := false
		for i := it.st.p.I; i < len(b.Instrs); i++ {
			ins := b.Instrs[i]
			if w.Target != nil && w.Target(ins) {
				return &Found{ins, it.path}
			}
			if w.TargetEnv != nil && w.TargetEnv(ins, it.st.env) {
				return &Found{ins, it.path}
			}
			if w.TargetPath != nil && w.TargetPath(ins, it.path) {
				return &Found{ins, it.path}
			}
			if w.Stop != nil && w.Stop(ins) {
				stopped = true
				break
			}
		}
		if stopped || len(b.Succs) == 0 {
			continue
		}
		last := b.Instrs[len(b.Instrs)-1]
		for si, succ := range b.Succs {
			if w.EdgeOK != nil && !w.EdgeOK(b, si) {
				continue
			}
			env2 := it.st.env
			if !w.NoEnv {
				if iff, ok := last.(*ssa.If); ok {
					val, known := evalBool(iff.Cond, it.st.env)
					if known && val != (si == 0) {
						continue // infeasible edge
					}
					env2 = env2.clone()
					refine(iff.Cond, si == 0, env2)
				}
				env2 = enterBlock(b, succ, env2)
			}
			np := append(append([]int{}, it.path...), succ.Index)
			if w.TargetEdge != nil && w.TargetEdge(b, si) {
				return &Found{last, np}
			}
			queue = append(queue, qitem{wstate{Point{succ, 0}, env2}, np})
		}
	}
	return nil
}

// canonOperand maps repeated loads of the same parameter-rooted field path (go/ssa does no CSE) to one representative
// value, provided the function never stores to that path; lets `x.f == nil` and a later `x.f != nil` be correlated.
var canonCache = map[*ssa.Function]map[string]ssa.Value{}

func canonOperand(v ssa.Value) ssa.Value {
	u, ok := v.(*ssa.UnOp)
	if !ok || u.Op != token.MUL {
		return v
	}
	fa, ok := u.X.(*ssa.FieldAddr)
	if !ok {
		return v
	}
	fn := u.Parent()
	key := ""
	var cur ssa.Value = fa
	for depth := 0; depth < 6; depth++ {
		switch x := cur.(type) {
		case *ssa.FieldAddr:
			key = fmt.Sprintf(".%d", x.Field) + key
			cur = x.X
			continue
		case *ssa.UnOp:
			if x.Op == token.MUL {
				key = "*" + key
				cur = x.X
				continue
			}
		case *ssa.Parameter:
			key = x.Name() + key
			cur = nil
		default:
			return v
		}
		break
	}
	if cur != nil {
		return v
	}
	m := canonCache[fn]
	if m == nil {
		m = map[string]ssa.Value{}
		canonCache[fn] = m
		// paths that are stored to are not canonicalised
		Instrs(fn, func(i ssa.Instruction) {
			if st, ok := i.(*ssa.Store); ok {
				if _, isFA := st.Addr.(*ssa.FieldAddr); isFA {
					m["<stores>"] = st.Addr
				}
			}
		})
	}
	if _, hasStores := m["<stores>"]; hasStores {
		// conservative: only canonicalise in functions without any field store through pointers
		// (struct literals built on fresh allocations use FieldAddr on Alloc, which is fine)
		safe := true
		Instrs(fn, func(i ssa.Instruction) {
			if st, ok := i.(*ssa.Store); ok {
				if f2, isFA := st.Addr.(*ssa.FieldAddr); isFA {
					if _, onAlloc := f2.X.(*ssa.Alloc); !onAlloc {
						safe = false
					}
				}
			}
		})
		if !safe {
			return v
		}
	}
	if rep, ok := m[key]; ok {
		return rep
	}
	m[key] = v
	return v
}

func evalBool(v ssa.Value, env Env) (val, known bool) {
	if c, ok := v.(*ssa.Const); ok && c.Value != nil && c.Value.Kind() == constant.Bool {
		return constant.BoolVal(c.Value), true
	}
	if b, ok := env[v]; ok {
		return b, true
	}
	if x, trueMeansNil, ok := NilCheck(v); ok {
		if isNil, k := env[canonOperand(x)]; k {
			return isNil == trueMeansNil, true
		}
	}
	if u, ok := v.(*ssa.UnOp); ok && u.Op == token.NOT {
		if b, k := evalBool(u.X, env); k {
			return !b, true
		}
	}
	return false, false
}

func refine(v ssa.Value, val bool, env Env) {
	if _, ok := v.(*ssa.Const); ok {
		return
	}
	env[v] = val
	if u, ok := v.(*ssa.UnOp); ok && u.Op == token.NOT {
		refine(u.X, !val, env)
	}
	if x, trueMeansNil, ok := NilCheck(v); ok {
		if _, isConst := x.(*ssa.Const); !isConst {
			env[canonOperand(x)] = (val == trueMeansNil)
		}
	}
}

// enterBlock computes the environment after taking edge from->to: Phi nodes of `to` are assigned from the
// operand of this edge, and facts about values (re)defined in `to` are dropped.
func enterBlock(from, to *ssa.BasicBlock, env Env) Env {
	predIdx := -1
	for i, p := range to.Preds {
		if p == from {
			predIdx = i
			break
		}
	}
	n := env.clone()
	// first compute phi values with the OLD env (parallel assignment)
	type asg struct {
		v     ssa.Value
		val   bool
		known bool
	}
	var asgs []asg
	for _, ins := range to.Instrs {
		phi, ok := ins.(*ssa.Phi)
		if !ok {
			break
		}
		if predIdx < 0 {
			continue
		}
		if !isBool(phi.Type()) {
			// nil-ness of a pointer / interface phi follows the operand of the edge taken (this is what keeps
			// `r = err; …; if r != nil` correlated after a helper was expanded in place)
			if isNillable(phi.Type()) {
				e := phi.Edges[predIdx]
				switch {
				case isNilConstValue(e):
					asgs = append(asgs, asg{phi, true, true})
				case certainlyNonNil(e):
					asgs = append(asgs, asg{phi, false, true})
				default:
					if b, ok := env[canonOperand(e)]; ok {
						asgs = append(asgs, asg{phi, b, true})
					} else if b, ok := env[e]; ok {
						asgs = append(asgs, asg{phi, b, true})
					}
				}
			}
			continue
		}
		val, known := evalBool(phi.Edges[predIdx], env)
		asgs = append(asgs, asg{phi, val, known})
	}
	for _, ins := range to.Instrs {
		if v, ok := ins.(ssa.Value); ok {
			delete(n, v)
		}
	}
	// facts about values derived from redefined values are also stale: drop UnOp/BinOp facts whose operand
	// lives in `to`.
	for v := range n {
		if ins, ok := v.(ssa.Instruction); ok {
			stale := false
			for _, op := range ins.Operands(nil) {
				if *op == nil {
					continue
				}
				if oi, ok := (*op).(ssa.Instruction); ok && oi.Block() == to {
					stale = true
				}
			}
			if stale {
				delete(n, v)
			}
		}
	}
	for _, a := range asgs {
		if a.known {
			n[a.v] = a.val
		}
	}
	return n
}

func isNilConstValue(v ssa.Value) bool {
	c, ok := v.(*ssa.Const)
	return ok && c.Value == nil && isNillable(c.Type())
}

// certainlyNonNil: values that cannot be nil: a boxed value, an allocation, a fresh error, an error sentinel.
func certainlyNonNil(v ssa.Value) bool {
	switch x := v.(type) {
	case *ssa.MakeInterface, *ssa.Alloc, *ssa.MakeSlice, *ssa.MakeMap, *ssa.MakeChan, *ssa.MakeClosure, *ssa.Function:
		return true
	case *ssa.Call:
		switch CallName(x) {
		case "fmt.Errorf", "errors.New":
			return true
		}
	case *ssa.UnOp:
		if g, ok := x.X.(*ssa.Global); ok && x.Op == token.MUL && (strings.HasPrefix(g.Name(), "Err") || strings.HasPrefix(g.Name(), "err")) && isErrorType(g.Type()) {
			return true
		}
	}
	return false
}

func isBool(t types.Type) bool {
	b, ok := t.Underlying().(*types.Basic)
	return ok && b.Info()&types.IsBoolean != 0
}

// Dominates reports whether instruction a dominates instruction b (same function).
func Dominates(a, b ssa.Instruction) bool {
	pa, pb := PointOf(a), PointOf(b)
	if pa.B == pb.B {
		return pa.I <= pb.I
	}
	return pa.B.Dominates(pb.B)
}

// CondOf strips negations: returns the underlying value and whether the condition is that value (true) or its
// negation (false).
func CondOf(v ssa.Value) (ssa.Value, bool) {
	pos := true
	for {
		u, ok := v.(*ssa.UnOp)
		if !ok || u.Op != token.NOT {
			return v, pos
		}
		v = u.X
		pos = !pos
	}
}

// IfEdges lists, for every If in fn whose (negation-stripped) condition satisfies pred, the block and the successor
// index on which the underlying value is `want`.
type IfEdge struct {
	B    *ssa.BasicBlock
	Succ int
	If   *ssa.If
	Val  ssa.Value
}

func IfEdgesWhere(fn *ssa.Function, pred func(ssa.Value) bool, want bool) []IfEdge {
	var out []IfEdge
	for _, b := range fn.Blocks {
		if len(b.Instrs) == 0 {
			continue
		}
		iff, ok := b.Instrs[len(b.Instrs)-1].(*ssa.If)
		if !ok {
			continue
		}
		v, pos := CondOf(iff.Cond)
		if !pred(v) {
			continue
		}
		// underlying v == want  <=> cond == (want == pos)
		condVal := want == pos
		succ := 1
		if condVal {
			succ = 0
		}
		out = append(out, IfEdge{b, succ, iff, v})
	}
	return out
}

// NilCheck recognises `x == nil` / `x != nil` and returns x and whether the BinOp being true means x is nil.
func NilCheck(v ssa.Value) (x ssa.Value, trueMeansNil bool, ok bool) {
	b, isb := v.(*ssa.BinOp)
	if !isb || (b.Op != token.EQL && b.Op != token.NEQ) {
		return nil, false, false
	}
	isNil := func(v ssa.Value) bool {
		c, ok := v.(*ssa.Const)
		return ok && c.Value == nil
	}
	switch {
	case isNil(b.Y):
		return b.X, b.Op == token.EQL, true
	case isNil(b.X):
		return b.Y, b.Op == token.EQL, true
	}
	return nil, false, false
}

// NilEdgesOf is the precise version: edges where x is nil / non-nil.
func NilEdgesOf(fn *ssa.Function, x ssa.Value, wantNil bool) []IfEdge {
	var out []IfEdge
	for _, b := range fn.Blocks {
		if len(b.Instrs) == 0 {
			continue
		}
		iff, ok := b.Instrs[len(b.Instrs)-1].(*ssa.If)
		if !ok {
			continue
		}
		v, pos := CondOf(iff.Cond)
		y, trueMeansNil, ok := NilCheck(v)
		if !ok || !sameValue(y, x) {
			continue
		}
		// cond true <=> (v true) == pos ; v true <=> isNil == trueMeansNil
		// want isNil == wantNil  => v == (wantNil == trueMeansNil) => cond == ((wantNil == trueMeansNil) == pos)
		condVal := (wantNil == trueMeansNil) == pos
		succ := 1
		if condVal {
			succ = 0
		}
		out = append(out, IfEdge{b, succ, iff, v})
	}
	return out
}

func sameValue(a, b ssa.Value) bool { return a == b }

// Returns lists the Return instructions of fn.
func Returns(fn *ssa.Function) []*ssa.Return {
	var out []*ssa.Return
	Instrs(fn, func(i ssa.Instruction) {
		if r, ok := i.(*ssa.Return); ok && (fn.Recover == nil || r.Block() != fn.Recover) {
			out = append(out, r)
		}
	})
	return out
}

// IsExit reports whether instr ends the function (return or panic).
func IsExit(i ssa.Instruction) bool {
	switch i.(type) {
	case *ssa.Return, *ssa.Panic:
		return true
	}
	return false
}

// ConstString returns the string value of a constant SSA value.
func ConstString(v ssa.Value) (string, bool) {
	c, ok := v.(*ssa.Const)
	if !ok || c.Value == nil || c.Value.Kind() != constant.String {
		return "", false
	}
	return constant.StringVal(c.Value), true
}

// ConstInt returns the int64 value of a constant SSA value.
func ConstInt(v ssa.Value) (int64, bool) {
	c, ok := v.(*ssa.Const)
	if !ok || c.Value == nil || c.Value.Kind() != constant.Int {
		return 0, false
	}
	i, exact := constant.Int64Val(c.Value)
	return i, exact
}

// PathStr renders a witness path.
func PathStr(f *Found) string {
	if f == nil {
		return ""
	}
	s := make([]string, len(f.Path))
	for i, b := range f.Path {
		s[i] = fmt.Sprint(b)
	}
	return "blocks " + strings.Join(s, "→")
}

// ResolveLoad sees through `store cell, v; ...; x = load cell` inside one block (captured variables are heap cells).
func ResolveLoad(x ssa.Value) ssa.Value {
	u, ok := x.(*ssa.UnOp)
	if !ok || u.Op != token.MUL {
		return x
	}
	al, ok := u.X.(*ssa.Alloc)
	if !ok {
		return x
	}
	b := u.Block()
	var last ssa.Value
	for _, ins := range b.Instrs {
		if ins == ssa.Instruction(u) {
			break
		}
		if st, ok := ins.(*ssa.Store); ok && st.Addr == ssa.Value(al) {
			last = st.Val
		}
	}
	if last != nil {
		return last
	}
	return x
}

// ErrValueOf returns the SSA value carrying the error result of a call instruction (the call itself for a single
// result, the Extract of the last component otherwise). nil if the result is dropped.
func ErrValueOf(call *ssa.Call) ssa.Value {
	sig := call.Call.Signature()
	n := sig.Results().Len()
	if n == 0 {
		return nil
	}
	if n == 1 {
		return call
	}
	for _, ref := range *call.Referrers() {
		if ex, ok := ref.(*ssa.Extract); ok && ex.Index == n-1 {
			return ex
		}
	}
	return nil
}

// ExtractOf returns the Extract #idx of a tuple-valued call, or the call itself when idx==0 and it has one result.
func ExtractOf(call *ssa.Call, idx int) ssa.Value {
	sig := call.Call.Signature()
	if sig.Results().Len() == 1 && idx == 0 {
		return call
	}
	for _, ref := range *call.Referrers() {
		if ex, ok := ref.(*ssa.Extract); ok && ex.Index == idx {
			return ex
		}
	}
	return nil
}

// NilEdgesRes is NilEdgesOf that also matches comparisons made on a reload of a cell the value was just stored to.
func NilEdgesRes(fn *ssa.Function, x ssa.Value, wantNil bool) []IfEdge {
	var out []IfEdge
	for _, b := range fn.Blocks {
		if len(b.Instrs) == 0 {
			continue
		}
		iff, ok := b.Instrs[len(b.Instrs)-1].(*ssa.If)
		if !ok {
			continue
		}
		v, pos := CondOf(iff.Cond)
		y, trueMeansNil, ok := NilCheck(v)
		if !ok {
			continue
		}
		if y != x && ResolveLoad(y) != x {
			continue
		}
		condVal := (wantNil == trueMeansNil) == pos
		succ := 1
		if condVal {
			succ = 0
		}
		out = append(out, IfEdge{b, succ, iff, v})
	}
	return out
}

// EdgeSet builds an EdgeOK function that forbids the listed edges.
func Forbid(edges []IfEdge) func(*ssa.BasicBlock, int) bool {
	return func(b *ssa.BasicBlock, s int) bool {
		for _, e := range edges {
			if e.B == b && e.Succ == s {
				return false
			}
		}
		return true
	}
}

// SelectCaseEdges returns the If edges that enter the body of a select case whose channel satisfies pred
// (select dispatch is an if-chain on the select's index result).
func SelectCaseEdges(fn *ssa.Function, pred func(ch ssa.Value, dir types.ChanDir) bool) []IfEdge {
	var out []IfEdge
	Instrs(fn, func(i ssa.Instruction) {
		sel, ok := i.(*ssa.Select)
		if !ok {
			return
		}
		var idx ssa.Value
		for _, ref := range *sel.Referrers() {
			if ex, ok := ref.(*ssa.Extract); ok && ex.Index == 0 {
				idx = ex
			}
		}
		if idx == nil {
			return
		}
		for k, st := range sel.States {
			if !pred(st.Chan, st.Dir) {
				continue
			}
			kk := int64(k)
			out = append(out, IfEdgesWhere(fn, func(v ssa.Value) bool {
				b, ok := v.(*ssa.BinOp)
				if !ok || b.Op != token.EQL || b.X != idx {
					return false
				}
				c, ok := ConstInt(b.Y)
				return ok && c == kk
			}, true)...)
		}
	})
	return out
}

// IsCtxDone recognises `ctx.Done()` channel values.
func IsCtxDone(ch ssa.Value) bool {
	call, ok := ch.(*ssa.Call)
	if !ok {
		return false
	}
	return CallName(call) == "(context.Context).Done"
}

// CtxDoneEdges: edges entering `case <-ctx.Done():` bodies.
func CtxDoneEdges(fn *ssa.Function) []IfEdge {
	return SelectCaseEdges(fn, func(ch ssa.Value, dir types.ChanDir) bool { return dir == types.RecvOnly && IsCtxDone(ch) })
}

// TrueEdgesOf returns the edges on which bool value v is true (want) / false.
func BoolEdges(fn *ssa.Function, v ssa.Value, want bool) []IfEdge {
	return IfEdgesWhere(fn, func(x ssa.Value) bool { return x == v || ResolveLoad(x) == v }, want)
}

// ReachableWithout reports a witness when target is reachable from `from` without using the forbidden edges.
func ReachableWithout(from Point, forbidden []IfEdge, target func(ssa.Instruction) bool) *Found {
	return (&Walk{EdgeOK: Forbid(forbidden), Target: target}).From(from, nil)
}

// RetCase is one way a function returns: a Return instruction and, when its operands are Phis of the return block
// (recursively: of the merge blocks feeding it), the chain of incoming edges with the Phi operands resolved.
type RetCase struct {
	Ret    *ssa.Return
	Pred   *ssa.BasicBlock // deepest predecessor of the resolved edge chain; nil when no Phi was resolved
	Succ   int             // successor index of Pred taken by this case
	Values []ssa.Value
}

// ReachableOnlyVia reports whether every path from the entry to this return case passes one of the given edges.
func (rc RetCase) ReachableOnlyVia(fn *ssa.Function, edges []IfEdge) bool {
	if len(edges) == 0 {
		return false
	}
	w := &Walk{EdgeOK: Forbid(edges)}
	if rc.Pred == nil {
		w.Target = func(i ssa.Instruction) bool { return i == ssa.Instruction(rc.Ret) }
	} else {
		// the case's own edge may itself be one of the required edges
		for _, e := range edges {
			if e.B == rc.Pred && e.Succ == rc.Succ {
				return true
			}
		}
		w.TargetEdge = func(b *ssa.BasicBlock, s int) bool { return b == rc.Pred && s == rc.Succ }
	}
	return w.From(Entry(fn), nil) == nil
}

// Reach returns an instruction whose execution is necessary for this case (the Return, or the terminator of Pred).
func (rc RetCase) Reach() ssa.Instruction {
	if rc.Pred == nil {
		return rc.Ret
	}
	return rc.Pred.Instrs[len(rc.Pred.Instrs)-1]
}

func ReturnCases(fn *ssa.Function) []RetCase {
	var out []RetCase
	var expand func(r *ssa.Return, b *ssa.BasicBlock, vals []ssa.Value, pred *ssa.BasicBlock, succ int, depth int)
	expand = func(r *ssa.Return, b *ssa.BasicBlock, vals []ssa.Value, pred *ssa.BasicBlock, succ int, depth int) {
		hasPhi := false
		for _, v := range vals {
			if p, ok := v.(*ssa.Phi); ok && p.Block() == b {
				hasPhi = true
			}
		}
		if !hasPhi && depth <= 4 {
			// a value merged further up (e.g. the result of a helper expanded in place, returned after a test): split at
			// the nearest such merge block that dominates this point; the case is then identified by the edge into it
			var d *ssa.BasicBlock
			for _, v := range vals {
				if p, ok := v.(*ssa.Phi); ok && p.Block() != b && p.Block().Dominates(b) && len(p.Block().Preds) >= 2 && !isLoopHeader(p.Block()) {
					if d == nil || d.Dominates(p.Block()) {
						d = p.Block()
					}
				}
			}
			if d != nil {
				expand(r, d, vals, pred, succ, depth)
				return
			}
		}
		if !hasPhi || len(b.Preds) < 2 || depth > 4 {
			out = append(out, RetCase{Ret: r, Pred: pred, Succ: succ, Values: vals})
			return
		}
		for k, p := range b.Preds {
			nv := make([]ssa.Value, len(vals))
			for i, v := range vals {
				if ph, ok := v.(*ssa.Phi); ok && ph.Block() == b {
					nv[i] = ph.Edges[k]
				} else {
					nv[i] = v
				}
			}
			si := 0
			for j, sc := range p.Succs {
				if sc == b {
					si = j
				}
			}
			// a split above the return's own block: drop operands that cannot reach this return with the facts their
			// edge establishes (e.g. the `(nil, false, nil)` of "not decided" never takes the `if decided` branch)
			if b != r.Block() {
				env := enterBlock(p, b, Env{})
				if (&Walk{Target: func(x ssa.Instruction) bool { return x == ssa.Instruction(r) }}).From(Point{B: b, I: 0}, env) == nil {
					continue
				}
			}
			expand(r, p, nv, p, si, depth+1)
		}
	}
	for _, r := range Returns(fn) {
		expand(r, r.Block(), r.Results, nil, 0, 0)
	}
	return out
}

// TermEdges returns the If edges whose (negation-stripped) condition, rendered symbolically, satisfies match; the edge
// returned is the one on which the matched condition has truth value `want`.
// Comparisons are matched up to the way they were written: `(a == b)` also matches a condition written `b == a`,
// `a != b` (with the opposite edge) or `b != a`; likewise for the order relations; and for an unsigned x, `x > 0` and
// `x != 0` (resp. `x == 0` and `x <= 0`) are the same fact.
func TermEdges(fn *ssa.Function, sx *Symx, match func(s string, t *Term) bool, want bool) []IfEdge {
	var out []IfEdge
	for _, same := range []bool{true, false} {
		same := same
		w := want
		if !same {
			w = !want
		}
		out = append(out, IfEdgesWhere(fn, func(v ssa.Value) bool {
			t := sx.Of(v)
			for _, r := range renderings(v, sx) {
				if r.same == same && match(r.s, t) {
					return true
				}
			}
			return false
		}, w)...)
	}
	return out
}

type rendering struct {
	s    string
	same bool // s has the truth value of the condition (false: the opposite)
}

func renderings(v ssa.Value, sx *Symx) []rendering {
	out := []rendering{{sx.Of(v).String(), true}}
	b, ok := v.(*ssa.BinOp)
	if !ok {
		return out
	}
	swap := map[token.Token]token.Token{token.LSS: token.GTR, token.GTR: token.LSS, token.LEQ: token.GEQ, token.GEQ: token.LEQ, token.EQL: token.EQL, token.NEQ: token.NEQ}
	neg := map[token.Token]token.Token{token.LSS: token.GEQ, token.GEQ: token.LSS, token.GTR: token.LEQ, token.LEQ: token.GTR, token.EQL: token.NEQ, token.NEQ: token.EQL}
	if _, isCmp := swap[b.Op]; !isCmp {
		return out
	}
	x, y := sx.Of(b.X).String(), sx.Of(b.Y).String()
	add := func(l string, op token.Token, r string, same bool) {
		out = append(out, rendering{"(" + l + " " + op.String() + " " + r + ")", same})
	}
	type form struct {
		l    string
		op   token.Token
		r    string
		same bool
	}
	forms := []form{{x, b.Op, y, true}, {y, swap[b.Op], x, true}, {x, neg[b.Op], y, false}, {y, swap[neg[b.Op]], x, false}}
	// unsigned comparisons with zero
	isUnsigned := func(v ssa.Value) bool {
		if c, ok := v.(*ssa.Call); ok {
			if b, ok := c.Call.Value.(*ssa.Builtin); ok && (b.Name() == "len" || b.Name() == "cap") {
				return true // never negative
			}
		}
		bt, ok := v.Type().Underlying().(*types.Basic)
		return ok && bt.Info()&types.IsUnsigned != 0
	}
	var extra []form
	for _, f := range forms {
		var u ssa.Value
		switch {
		case f.r == "const(0)" && f.l == x:
			u = b.X
		case f.r == "const(0)" && f.l == y:
			u = b.Y
		}
		if u == nil || !isUnsigned(u) {
			continue
		}
		switch f.op {
		case token.GTR:
			extra = append(extra, form{f.l, token.NEQ, f.r, f.same}, form{f.r, token.NEQ, f.l, f.same}, form{f.l, token.EQL, f.r, !f.same}, form{f.r, token.EQL, f.l, !f.same})
		case token.NEQ:
			extra = append(extra, form{f.l, token.GTR, f.r, f.same}, form{f.r, token.LSS, f.l, f.same}, form{f.l, token.LEQ, f.r, !f.same}, form{f.r, token.GEQ, f.l, !f.same})
		case token.EQL:
			extra = append(extra, form{f.l, token.LEQ, f.r, f.same}, form{f.r, token.GEQ, f.l, f.same}, form{f.l, token.GTR, f.r, !f.same}, form{f.r, token.LSS, f.l, !f.same})
		case token.LEQ:
			extra = append(extra, form{f.l, token.EQL, f.r, f.same}, form{f.r, token.EQL, f.l, f.same}, form{f.l, token.NEQ, f.r, !f.same}, form{f.r, token.NEQ, f.l, !f.same})
		}
	}
	seen := map[string]bool{out[0].s: true}
	for _, f := range append(forms, extra...) {
		k := fmt.Sprintf("(%s %s %s)|%v", f.l, f.op, f.r, f.same)
		if seen[k] {
			continue
		}
		seen[k] = true
		add(f.l, f.op, f.r, f.same)
	}
	return out
}

// RelEdges returns the If edges on which `X rel Y` is known to hold, whatever way the comparison was written:
// X rel Y (true edge), Y rel' X (true edge, operands swapped), and the false edges of the negated comparisons.
// rel is one of token.LSS, LEQ, GTR, GEQ, EQL, NEQ.
func RelEdges(fn *ssa.Function, isX, isY func(ssa.Value) bool, rel token.Token) []IfEdge {
	swap := map[token.Token]token.Token{token.LSS: token.GTR, token.GTR: token.LSS, token.LEQ: token.GEQ, token.GEQ: token.LEQ, token.EQL: token.EQL, token.NEQ: token.NEQ}
	neg := map[token.Token]token.Token{token.LSS: token.GEQ, token.GEQ: token.LSS, token.GTR: token.LEQ, token.LEQ: token.GTR, token.EQL: token.NEQ, token.NEQ: token.EQL}
	var out []IfEdge
	for _, want := range []bool{true, false} {
		want := want
		out = append(out, IfEdgesWhere(fn, func(v ssa.Value) bool {
			b, ok := v.(*ssa.BinOp)
			if !ok {
				return false
			}
			op := b.Op
			if !want {
				op = neg[op] // on the false edge the negated relation holds
			}
			if isX(b.X) && isY(b.Y) && op == rel {
				return true
			}
			if isX(b.Y) && isY(b.X) && swap[op] == rel {
				return true
			}
			return false
		}, want)...)
	}
	return out
}

// IsConstInt matches an integer constant of the given value.
func IsConstInt(k int64) func(ssa.Value) bool {
	return func(v ssa.Value) bool { n, ok := ConstInt(v); return ok && n == k }
}

// IsValue matches exactly v (conversions stripped).
func IsValue(v ssa.Value) func(ssa.Value) bool {
	return func(x ssa.Value) bool {
		for {
			if x == v {
				return true
			}
			switch c := x.(type) {
			case *ssa.Convert:
				x = c.X
			case *ssa.ChangeType:
				x = c.X
			default:
				return false
			}
		}
	}
}

// ResolveOnPath replaces a Phi by the operand of the edge through which the given path (block indices, oldest first)
// last entered the Phi's block; repeated for nested Phis. A Phi whose block was entered before the path starts stays.
func ResolveOnPath(v ssa.Value, path []int) ssa.Value {
	for d := 0; d < 16; d++ {
		// a defer-spilled result: `*ret = x; rundefers; return *ret`
		if u, isLoad := v.(*ssa.UnOp); isLoad && u.Op == token.MUL {
			if a, isAlloc := u.X.(*ssa.Alloc); isAlloc {
				if vals, entry := ReachingStores(u, a); len(vals) == 1 && !entry {
					v = vals[0]
					continue
				}
			}
			return v
		}
		phi, ok := v.(*ssa.Phi)
		if !ok {
			return v
		}
		bi := phi.Block().Index
		k := -1
		for i := len(path) - 1; i > 0; i-- {
			if path[i] == bi {
				k = i
				break
			}
		}
		if k <= 0 {
			return v
		}
		pred := path[k-1]
		next := ssa.Value(nil)
		for i, p := range phi.Block().Preds {
			if p.Index == pred {
				next = phi.Edges[i]
			}
		}
		if next == nil {
			return v
		}
		v = next
		path = path[:k]
	}
	return v
}

// AfterEdge: the point reached by taking the edge, and the facts the branch condition establishes on it.
func AfterEdge(e IfEdge) (Point, Env) {
	env := Env{}
	refine(e.If.Cond, e.Succ == 0, env)
	to := e.B.Succs[e.Succ]
	return Point{B: to, I: 0}, enterBlock(e.B, to, env)
}

// PhiEdgeReaches: taking the k-th incoming edge of phi (with the nil/bool facts that edge establishes for the other
// Phis of the block), can an instruction satisfying target still be reached? Used to discard placeholder operands
// that travel together with an error (`return 0, err` expanded in place).
func PhiEdgeReaches(phi *ssa.Phi, k int, target func(ssa.Instruction) bool) bool {
	pred := phi.Block().Preds[k]
	env := enterBlock(pred, phi.Block(), factsAt(pred))
	// start behind the Phis of the block and stop when the block is entered again (in a loop the Phi is then redefined:
	// a target reached in a later iteration is not reached with this operand)
	first := 0
	for first < len(phi.Block().Instrs) {
		if _, isPhi := phi.Block().Instrs[first].(*ssa.Phi); !isPhi {
			break
		}
		first++
	}
	reentry := func(i ssa.Instruction) bool {
		p, isPhi := i.(*ssa.Phi)
		return isPhi && p.Block() == phi.Block()
	}
	return (&Walk{Target: target, Stop: reentry}).From(Point{B: phi.Block(), I: first}, env) != nil
}

func isLoopHeader(b *ssa.BasicBlock) bool {
	for _, p := range b.Preds {
		if b.Dominates(p) {
			return true
		}
	}
	return false
}

// NilTestedAfterSplit: the k-th value of this return case is known nil (wantNil) / non-nil (!wantNil) at the return:
// every path from the point where the case was split off (the merge block entered through Pred→Succ; the function
// entry when nothing was split) to the return passes a nil test of that value — or of a Phi of the merge block that
// carries the value on this edge — on the wanted side.
func (rc RetCase) NilTestedAfterSplit(fn *ssa.Function, k int, wantNil bool) bool {
	v := rc.Values[k]
	edges := NilEdgesRes(fn, v, wantNil)
	start := Entry(fn)
	var env Env
	if rc.Pred != nil {
		d := rc.Pred.Succs[rc.Succ]
		pi := -1
		for i, p := range d.Preds {
			if p == rc.Pred {
				pi = i
			}
		}
		for _, ins := range d.Instrs {
			phi, ok := ins.(*ssa.Phi)
			if !ok {
				break
			}
			if pi >= 0 && phi.Edges[pi] == v {
				edges = append(edges, NilEdgesOf(fn, phi, wantNil)...)
			}
		}
		start = Point{B: d, I: 0}
		env = enterBlock(rc.Pred, d, Env{})
	}
	if len(edges) == 0 {
		return false
	}
	return (&Walk{EdgeOK: Forbid(edges), Target: func(x ssa.Instruction) bool { return x == ssa.Instruction(rc.Ret) }}).From(start, env) == nil
}

func isErrorType(t types.Type) bool {
	if p, ok := t.Underlying().(*types.Pointer); ok {
		t = p.Elem()
	}
	return types.Identical(t, types.Universe.Lookup("error").Type())
}

// factsAt: what the branch conditions on the way into block b establish, following b's chain of single predecessors
// (each such predecessor that ends in an If contributes the truth value of its condition on the edge taken).
func factsAt(b *ssa.BasicBlock) Env {
	env := Env{}
	for d := 0; d < 12 && len(b.Preds) == 1; d++ {
		p := b.Preds[0]
		if iff, ok := p.Instrs[len(p.Instrs)-1].(*ssa.If); ok && p.Succs[0] != p.Succs[1] {
			refine(iff.Cond, p.Succs[0] == b, env)
		}
		b = p
	}
	return env
}
