package core

import (
	"strings"

	"golang.org/x/tools/go/ssa"
)

// canonicalName returns the frozen display name of a parameter / free variable (by position in its function), or
// its current name when the function is not in the table (new code).
func canonicalName(v ssa.Value) string {
	switch x := v.(type) {
	case *ssa.Parameter:
		fn := x.Parent()
		if e, ok := frozenNames[strings.ReplaceAll(fn.String(), Mod+"/", "")]; ok {
			for i, p := range fn.Params {
				if p == x && i < len(e[0]) {
					return e[0][i]
				}
			}
		}
		return x.Name()
	case *ssa.FreeVar:
		fn := x.Parent()
		if e, ok := frozenNames[strings.ReplaceAll(fn.String(), Mod+"/", "")]; ok {
			for i, p := range fn.FreeVars {
				if p == x && i < len(e[1]) {
					return e[1][i]
				}
			}
		}
		return x.Name()
	}
	return v.Name()
}

// ParamName is the frozen display name of parameter i of fn (what rules spell in expected terms).
func ParamName(fn *ssa.Function, i int) string {
	if i < len(fn.Params) {
		return canonicalName(fn.Params[i])
	}
	return ""
}
