package core

import (
	"strings"

	"golang.org/x/tools/go/ssa"
)

// canonicalName returns the frozen display name of a parameter / free variable (by position in its function), or
// its current name when the function is not in the table (new code).
func canonicalName(v ssa.Value) string {
	switch x := v.(type) {
	case *ssa.Parameter:
		fn := x.Parent()
		if e, ok := frozenNames[strings.ReplaceAll(fn.String(), Mod+"/", "")]; ok && len(e[0]) == len(fn.Params) {
			for i, p := range fn.Params {
				if p == x && i < len(e[0]) {
					return e[0][i]
				}
			}
		}
		return x.Name()
	case *ssa.FreeVar:
		// the capture list of a closure changes with its body: positions are only meaningful when the list is the
		// pinned one up to renaming
		fn := x.Parent()
		if e, ok := frozenNames[strings.ReplaceAll(fn.String(), Mod+"/", "")]; ok {
			for _, n := range e[1] {
				if n == x.Name() {
					return x.Name()
				}
			}
			if len(e[1]) == len(fn.FreeVars) {
				for i, p := range fn.FreeVars {
					if p == x {
						return e[1][i]
					}
				}
			}
		}
		return x.Name()
	}
	return v.Name()
}

// ParamName is the frozen display name of parameter i of fn (what rules spell in expected terms).
func ParamName(fn *ssa.Function, i int) string {
	if i < len(fn.Params) {
		return canonicalName(fn.Params[i])
	}
	return ""
}
