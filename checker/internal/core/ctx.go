// Package core holds the loader, the obligation book-keeping and the SSA helpers shared by all rules.
package core

import (
	"fmt"
	"go/ast"
	"go/token"
	"go/types"
	"os"
	"path/filepath"
	"sort"
	"strings"

	"golang.org/x/tools/go/packages"
	"golang.org/x/tools/go/ssa"
	"golang.org/x/tools/go/ssa/ssautil"
)

const Mod = "github.com/agglayer/aggkit"

type Status int

const (
	Held Status = iota
	Violated
	Undecided
)

func (s Status) String() string {
	switch s {
	case Held:
		return "held"
	case Violated:
		return "violated"
	}
	return "undecided"
}

// Obligation is one rule instance. Key = Rule|Construct and never contains a line number.
type Obligation struct {
	Rule      string `json:"rule"`
	Construct string `json:"construct"`
	Status    string `json:"status"`
	Pos       string `json:"pos,omitempty"`
	Msg       string `json:"msg,omitempty"`
}

func (o Obligation) Key() string { return o.Rule + "|" + o.Construct }

type Ctx struct {
	// InlineLog: what the [INLINE] pre-pass did (empty on the pinned tree).
	InlineLog []string
	// RuleAlias, when set, replaces the rule id of every obligation recorded (a rule shared by another property).
	RuleAlias string
	RepoDir   string
	Fset      *token.FileSet
	Pkgs      []*packages.Package
	ByPath    map[string]*packages.Package
	Prog      *ssa.Program
	SSA       map[string]*ssa.Package
	Tier      string

	Obls      []Obligation
	FuncsSeen map[string]bool
	// Overlay sql files (path relative to repo -> content) for self-tests
	FileOverlay map[string][]byte
	allFuncs    []*ssa.Function
}

// Load type-checks the repository (deps from export data) and builds SSA for the repository's packages.
func Load(repo string, overlay map[string][]byte) (*Ctx, error) {
	goOverlay := map[string][]byte{}
	for k, v := range overlay {
		if strings.HasSuffix(k, ".go") {
			goOverlay[filepath.Join(repo, k)] = v
		}
	}
	cfg := &packages.Config{
		Mode:    packages.LoadSyntax,
		Dir:     repo,
		Tests:   false,
		Overlay: goOverlay,
		Env:     append(os.Environ(), "GOWORK=off", "GOFLAGS=-mod=mod", "GOPROXY=off", "GOTOOLCHAIN=local"),
	}
	loadOnce := func() ([]*packages.Package, error) {
		pkgs, err := packages.Load(cfg, "./...")
		if err != nil {
			return nil, fmt.Errorf("load: %w", err)
		}
		if len(pkgs) < 60 {
			return nil, fmt.Errorf("load: only %d packages loaded (expected the whole repository, >= 60)", len(pkgs))
		}
		var errs []string
		for _, p := range pkgs {
			for _, e := range p.Errors {
				errs = append(errs, e.Error())
			}
		}
		if len(errs) > 0 {
			if len(errs) > 10 {
				errs = errs[:10]
			}
			return nil, fmt.Errorf("load: type errors:\n%s", strings.Join(errs, "\n"))
		}
		return pkgs, nil
	}
	pkgs, err := loadOnce()
	if err != nil {
		return nil, err
	}
	// [INLINE] expand helpers that are not part of the pinned tree (see inline.go); at most 4 rounds (nested helpers)
	var inlineLog []string
	counter := 0
	readFile := func(abs string) ([]byte, error) {
		if b, ok := goOverlay[abs]; ok {
			return b, nil
		}
		return os.ReadFile(abs)
	}
	for round := 0; round < 8; round++ {
		files, log := inlineRound(pkgs, readFile, &counter)
		inlineLog = append(inlineLog, log...)
		if len(files) == 0 {
			break
		}
		saved := map[string][]byte{}
		for k, v := range files {
			if old, ok := goOverlay[k]; ok {
				saved[k] = old
			} else {
				saved[k] = nil
			}
			goOverlay[k] = v
		}
		pk2, err2 := loadOnce()
		if err2 != nil {
			// the expansion does not type-check: analyse the program as written
			inlineLog = append(inlineLog, "inline: expansion rejected, analysing the program as written: "+strings.SplitN(err2.Error(), "\n", 3)[min(1, len(strings.SplitN(err2.Error(), "\n", 3))-1)])
			for k, v := range saved {
				if v == nil {
					delete(goOverlay, k)
				} else {
					goOverlay[k] = v
				}
			}
			if os.Getenv("VERIF_INLINE_DEBUG") != "" {
				for k, v := range files {
					_ = os.WriteFile("/tmp/inline-debug-"+filepath.Base(k), v, 0o644)
				}
				fmt.Fprintln(os.Stderr, err2)
			}
			break
		}
		pkgs = pk2
	}
	// [SRA] locals of new struct types that are only used field by field become one local per field (see sra.go)
	if files, log := sraRound(pkgs, readFile); len(files) > 0 {
		saved := map[string][]byte{}
		for k, v := range files {
			if old, ok := goOverlay[k]; ok {
				saved[k] = old
			} else {
				saved[k] = nil
			}
			goOverlay[k] = v
		}
		if pk2, err2 := loadOnce(); err2 != nil {
			inlineLog = append(inlineLog, "sra: replacement rejected, analysing the program as written: "+strings.SplitN(err2.Error(), "\n", 3)[min(1, len(strings.SplitN(err2.Error(), "\n", 3))-1)])
			for k, v := range saved {
				if v == nil {
					delete(goOverlay, k)
				} else {
					goOverlay[k] = v
				}
			}
			if os.Getenv("VERIF_INLINE_DEBUG") != "" {
				for k, v := range files {
					_ = os.WriteFile("/tmp/sra-debug-"+filepath.Base(k), v, 0o644)
				}
				fmt.Fprintln(os.Stderr, err2)
			}
		} else {
			pkgs = pk2
			inlineLog = append(inlineLog, log...)
		}
	}
	if d := os.Getenv("VERIF_INLINE_DUMP"); d != "" {
		for k, v := range goOverlay {
			_ = os.WriteFile(filepath.Join(d, "dump-"+filepath.Base(k)), v, 0o644)
		}
	}
	prog, spkgs := ssautil.Packages(pkgs, ssa.InstantiateGenerics)
	prog.Build()
	c := &Ctx{InlineLog: inlineLog, RepoDir: repo, Pkgs: pkgs, ByPath: map[string]*packages.Package{}, Prog: prog,
		SSA: map[string]*ssa.Package{}, FuncsSeen: map[string]bool{}, FileOverlay: overlay}
	for i, p := range pkgs {
		c.ByPath[p.PkgPath] = p
		if spkgs[i] != nil {
			c.SSA[p.PkgPath] = spkgs[i]
		}
		c.Fset = p.Fset
	}
	return c, nil
}

// ReadFile reads a repository file honouring the overlay.
func (c *Ctx) ReadFile(rel string) ([]byte, error) {
	if b, ok := c.FileOverlay[rel]; ok {
		return b, nil
	}
	return os.ReadFile(filepath.Join(c.RepoDir, rel))
}

func (c *Ctx) add(rule, construct string, st Status, pos token.Pos, msg string) {
	if c.RuleAlias != "" {
		rule = c.RuleAlias
	}
	o := Obligation{Rule: rule, Construct: construct, Status: st.String(), Msg: msg}
	if pos.IsValid() {
		o.Pos = c.PosStr(pos)
	}
	c.Obls = append(c.Obls, o)
}

func (c *Ctx) PosStr(pos token.Pos) string {
	if !pos.IsValid() {
		return ""
	}
	p := c.Fset.Position(pos)
	rel, err := filepath.Rel(c.RepoDir, p.Filename)
	if err != nil {
		rel = p.Filename
	}
	return fmt.Sprintf("%s:%d", rel, p.Line)
}

func (c *Ctx) Hold(rule, construct, msg string) { c.add(rule, construct, Held, token.NoPos, msg) }
func (c *Ctx) Violate(rule, construct string, pos token.Pos, msg string) {
	c.add(rule, construct, Violated, pos, msg)
}
func (c *Ctx) Undecide(rule, construct string, pos token.Pos, msg string) {
	c.add(rule, construct, Undecided, pos, msg)
}

// Decide records held when ok, violated otherwise.
func (c *Ctx) Decide(ok bool, rule, construct string, pos token.Pos, msg string) {
	if ok {
		c.add(rule, construct, Held, pos, msg)
	} else {
		c.add(rule, construct, Violated, pos, msg)
	}
}

func P(sub string) string {
	if sub == "" {
		return Mod
	}
	return Mod + "/" + sub
}

// Pkg returns the types.Package for a repository sub path ("bridgesync"), or nil.
func (c *Ctx) Pkg(sub string) *packages.Package { return c.ByPath[P(sub)] }

// Named looks up a named type by repo-relative package and name.
func (c *Ctx) Named(sub, name string) *types.Named {
	p := c.Pkg(sub)
	if p == nil {
		return nil
	}
	o := p.Types.Scope().Lookup(name)
	if o == nil {
		return nil
	}
	n, _ := o.Type().(*types.Named)
	return n
}

// Fn resolves a function or method to its SSA function by object identity. recv=="" for package functions.
func (c *Ctx) Fn(sub, recv, name string) *ssa.Function {
	p := c.Pkg(sub)
	if p == nil {
		return nil
	}
	var obj *types.Func
	if recv == "" {
		obj, _ = p.Types.Scope().Lookup(name).(*types.Func)
	} else {
		n := c.Named(sub, recv)
		if n == nil {
			return nil
		}
		o, _, _ := types.LookupFieldOrMethod(types.NewPointer(n), true, p.Types, name)
		obj, _ = o.(*types.Func)
	}
	if obj == nil {
		return nil
	}
	f := c.Prog.FuncValue(obj)
	if f != nil {
		c.FuncsSeen[f.String()] = true
	}
	return f
}

// MustFn is Fn that records an unresolved-anchor obligation when missing.
func (c *Ctx) MustFn(rule, sub, recv, name string) *ssa.Function {
	f := c.Fn(sub, recv, name)
	if f == nil || f.Blocks == nil {
		c.Undecide(rule, fmt.Sprintf("anchor %s.%s.%s", sub, recv, name), token.NoPos,
			"anchor function does not resolve (renamed or removed?) — the rule cannot be decided")
		return nil
	}
	return f
}

// Field resolves a struct field object.
func (c *Ctx) Field(sub, typ, field string) *types.Var {
	n := c.Named(sub, typ)
	if n == nil {
		return nil
	}
	st, ok := n.Underlying().(*types.Struct)
	if !ok {
		return nil
	}
	for i := 0; i < st.NumFields(); i++ {
		if st.Field(i).Name() == field {
			return st.Field(i)
		}
	}
	return nil
}

// AllFuncs returns every function (incl. anonymous) of the repository's own packages, mocks excluded.
func (c *Ctx) AllFuncs() []*ssa.Function {
	if c.allFuncs != nil {
		return c.allFuncs
	}
	seen := map[*ssa.Function]bool{}
	var out []*ssa.Function
	var addFn func(f *ssa.Function)
	addFn = func(f *ssa.Function) {
		if f == nil || seen[f] {
			return
		}
		seen[f] = true
		if f.Blocks != nil {
			out = append(out, f)
		}
		for _, a := range f.AnonFuncs {
			addFn(a)
		}
	}
	for path, sp := range c.SSA {
		if IsMockPkg(path) {
			continue
		}
		for _, m := range sp.Members {
			switch m := m.(type) {
			case *ssa.Function:
				addFn(m)
			case *ssa.Type:
				for _, t := range []types.Type{m.Type(), types.NewPointer(m.Type())} {
					ms := c.Prog.MethodSets.MethodSet(t)
					for i := 0; i < ms.Len(); i++ {
						f := c.Prog.MethodValue(ms.At(i))
						if f != nil && f.Pkg == sp && f.Synthetic == "" {
							addFn(f)
						}
					}
				}
			}
		}
	}
	sort.Slice(out, func(i, j int) bool { return out[i].String() < out[j].String() })
	c.allFuncs = out
	return out
}

func IsMockPkg(path string) bool {
	return strings.HasSuffix(path, "/mocks") || strings.Contains(path, "/mocks/") || strings.HasPrefix(path, Mod+"/test") ||
		strings.HasPrefix(path, Mod+"/tools") || strings.HasPrefix(path, Mod+"/scripts")
}

// FileOf returns the syntax file containing pos.
func (c *Ctx) FileOf(pos token.Pos) *ast.File {
	for _, p := range c.Pkgs {
		for _, f := range p.Syntax {
			if f.FileStart <= pos && pos <= f.FileEnd {
				return f
			}
		}
	}
	return nil
}

// ShortFn renders an SSA function name without the module prefix.
func ShortFn(f *ssa.Function) string {
	if f == nil {
		return "<nil>"
	}
	return strings.ReplaceAll(f.String(), Mod+"/", "")
}
