module verif/checker

go 1.26.8

require (
	golang.org/x/crypto v0.39.0
	golang.org/x/tools v0.50.0
)

require (
	golang.org/x/mod v0.41.0 // indirect
	golang.org/x/sync v0.23.0 // indirect
	golang.org/x/sys v0.48.0 // indirect
)
