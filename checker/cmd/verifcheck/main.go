package main

import (
	"fmt"
	"os"
	"time"

	"golang.org/x/tools/go/packages"
	"golang.org/x/tools/go/ssa"
	"golang.org/x/tools/go/ssa/ssautil"
)

func main() {
	t0 := time.Now()
	cfg := &packages.Config{Mode: packages.LoadSyntax, Dir: "/repo", Tests: false}
	pkgs, err := packages.Load(cfg, "./...")
	if err != nil {
		fmt.Println(err)
		os.Exit(2)
	}
	n := 0
	for _, p := range pkgs {
		n += len(p.Errors)
	}
	fmt.Println(len(pkgs), "pkgs", n, "errs", time.Since(t0))
	prog, spkgs := ssautil.Packages(pkgs, ssa.InstantiateGenerics)
	prog.Build()
	fmt.Println(len(spkgs), time.Since(t0))
}
