// verifcheck decides the structural clauses of one property from /repo's current sources (static analysis only).
package main

import (
	"bufio"
	"encoding/json"
	"flag"
	"fmt"
	"os"
	"path/filepath"
	"runtime/debug"
	"sort"
	"strconv"
	"strings"
	"time"

	"verif/checker/internal/core"
	"verif/checker/internal/rules"
)

type finding struct{ prop, key, text string }

func loadFindings(path string) ([]finding, error) {
	f, err := os.Open(path)
	if err != nil {
		return nil, err
	}
	defer f.Close()
	var out []finding
	sc := bufio.NewScanner(f)
	sc.Buffer(make([]byte, 1<<20), 1<<20)
	for sc.Scan() {
		l := strings.TrimSpace(sc.Text())
		if !strings.HasPrefix(l, "finding:") {
			continue
		}
		rest := strings.TrimSpace(strings.TrimPrefix(l, "finding:"))
		parts := strings.SplitN(rest, " ", 3)
		if len(parts) < 3 || !strings.HasPrefix(parts[0], "property=") || !strings.HasPrefix(parts[1], "key=") {
			return nil, fmt.Errorf("malformed finding line: %s", l)
		}
		out = append(out, finding{strings.TrimPrefix(parts[0], "property="), strings.TrimPrefix(parts[1], "key="), parts[2]})
	}
	return out, sc.Err()
}

func writeReplay(verif, prop string, n *int, o core.Obligation, skip bool) string {
	*n++
	if skip {
		return "-"
	}
	dir := filepath.Join(verif, "evidence", "violations")
	_ = os.MkdirAll(dir, 0o755)
	replay := filepath.Join(dir, fmt.Sprintf("%s_%d.json", prop, *n))
	b, _ := json.MarshalIndent(o, "", " ")
	_ = os.WriteFile(replay, b, 0o644)
	return replay
}

func main() {
	prop := flag.String("prop", "", "property id (C01..C20)")
	tier := flag.String("tier", "quick", "quick|thorough")
	repo := flag.String("repo", "/repo", "repository root")
	verif := flag.String("verif", "/verif", "verification root")
	overlayF := flag.String("overlay", "", "JSON file {relpath: content} applied in memory (self-test mutants)")
	noEvidence := flag.Bool("no-evidence", false, "do not write evidence / violation files (self-test)")
	onlyRule := flag.String("rule", "", "run only this rule (self-test / explain)")
	list := flag.Bool("list", false, "list properties and rules")
	verbose := flag.Bool("v", false, "print every obligation")
	flag.Parse()

	if *list {
		ids := []string{}
		for id := range rules.Registry {
			ids = append(ids, id)
		}
		sort.Strings(ids)
		for _, id := range ids {
			for _, r := range rules.Registry[id].Rules {
				fmt.Printf("%s %s floor=%d\n", id, r.ID, r.Floor)
			}
		}
		return
	}
	p := rules.Registry[*prop]
	if p == nil {
		fmt.Fprintf(os.Stderr, "unknown property %q\n", *prop)
		os.Exit(2)
	}
	t0 := time.Now()
	seed := 0
	if s := os.Getenv("VERIF_SEED"); s != "" {
		seed, _ = strconv.Atoi(s)
	}
	var overlay map[string][]byte
	if *overlayF != "" {
		b, err := os.ReadFile(*overlayF)
		if err != nil {
			fmt.Fprintln(os.Stderr, err)
			os.Exit(2)
		}
		m := map[string]string{}
		if err := json.Unmarshal(b, &m); err != nil {
			fmt.Fprintln(os.Stderr, err)
			os.Exit(2)
		}
		overlay = map[string][]byte{}
		for k, v := range m {
			overlay[k] = []byte(v)
		}
	}

	fail := func(msg string) {
		fmt.Printf("CHECK-ERROR property=%s %s\n", p.ID, msg)
		os.Exit(2)
	}
	c, err := core.Load(*repo, overlay)
	if err != nil {
		fail(err.Error())
	}
	c.Tier = *tier

	type ruleStat struct {
		Rule        string `json:"rule"`
		Text        string `json:"text"`
		Floor       int    `json:"floor"`
		Obligations int    `json:"obligations"`
		Held        int    `json:"held"`
		Violated    int    `json:"violated"`
		Undecided   int    `json:"undecided"`
	}
	var stats []ruleStat
	var problems []string
	for _, r := range p.Rules {
		if *onlyRule != "" && r.ID != *onlyRule {
			continue
		}
		if r.Thorough && *tier != "thorough" {
			continue
		}
		before := len(c.Obls)
		func() {
			defer func() {
				if e := recover(); e != nil {
					c.Undecide(r.ID, "panic", 0, fmt.Sprintf("rule panicked: %v\n%s", e, debug.Stack()))
				}
			}()
			r.Run(c)
		}()
		st := ruleStat{Rule: r.ID, Text: r.Text, Floor: r.Floor}
		for _, o := range c.Obls[before:] {
			st.Obligations++
			switch o.Status {
			case "held":
				st.Held++
			case "violated":
				st.Violated++
			default:
				st.Undecided++
			}
		}
		if st.Obligations < r.Floor {
			problems = append(problems, fmt.Sprintf("rule %s matched %d instances, below the confirmed floor %d (vacuous)", r.ID, st.Obligations, r.Floor))
		}
		stats = append(stats, st)
	}

	known, err := loadFindings(filepath.Join(*verif, "known_findings.txt"))
	if err != nil {
		fail("known_findings.txt: " + err.Error())
	}
	isKnown := func(o core.Obligation) *finding {
		for i := range known {
			if known[i].prop == p.ID && known[i].key == o.Key() {
				return &known[i]
			}
		}
		return nil
	}

	total, held, viol, und, knownN, nrep := 0, 0, 0, 0, 0, 0
	distinct := map[string]bool{}
	var samples []core.Obligation
	var lines []string
	perRuleSample := map[string]int{}
	exit := 0
	for _, o := range c.Obls {
		if *verbose {
			fmt.Printf("  [%s] %s  %s  -- %s\n", o.Status, o.Key(), o.Pos, o.Msg)
		}
		total++
		distinct[o.Key()] = true
		switch o.Status {
		case "held":
			held++
			if perRuleSample[o.Rule] < 3 {
				perRuleSample[o.Rule]++
				samples = append(samples, o)
			}
		case "violated":
			if k := isKnown(o); k != nil {
				knownN++
				lines = append(lines, fmt.Sprintf("KNOWN-FINDING: property=%s %s at %s: %s", p.ID, o.Key(), o.Pos, k.text))
				samples = append(samples, o)
				continue
			}
			viol++
			samples = append(samples, o)
			replay := writeReplay(*verif, p.ID, &nrep, o, *noEvidence)
			lines = append(lines, fmt.Sprintf("  violated %s at %s: %s", o.Key(), o.Pos, o.Msg))
			lines = append(lines, fmt.Sprintf("VIOLATION property=%s replay=%s", p.ID, replay))
			exit = 1
		default:
			// An obligation the rule could not establish is not proven: the check fails (DESIGN.md section 7).
			und++
			samples = append(samples, o)
			lines = append(lines, fmt.Sprintf("  UNDECIDED %s at %s: %s", o.Key(), o.Pos, o.Msg))
			lines = append(lines, fmt.Sprintf("VIOLATION property=%s replay=%s", p.ID, writeReplay(*verif, p.ID, &nrep, o, *noEvidence)))
			exit = 1
		}
	}
	for _, pr := range problems {
		o := core.Obligation{Rule: "vacuity", Construct: pr, Status: "undecided", Msg: pr}
		lines = append(lines, fmt.Sprintf("  VACUOUS %s", pr))
		lines = append(lines, fmt.Sprintf("VIOLATION property=%s replay=%s", p.ID, writeReplay(*verif, p.ID, &nrep, o, *noEvidence)))
		exit = 1
	}
	for _, l := range lines {
		fmt.Println(l)
	}
	var selfRes []MutantResult
	if *tier == "thorough" && *overlayF == "" && *onlyRule == "" {
		self, _ := os.Executable()
		var ok bool
		selfRes, ok = runSelfTest(self, *repo, *verif, p.ID)
		caught := 0
		for _, r := range selfRes {
			if r.OK {
				caught++
			} else {
				fmt.Printf("  SELFTEST %s (%s): %s\n", r.ID, r.Rule, r.Detail)
			}
		}
		fmt.Printf("selftest: %d/%d seeded variants behave as expected\n", caught, len(selfRes))
		if !ok {
			// a rule that no longer fires on its seeded violation is not armed: the check itself is broken
			fmt.Printf("CHECK-ERROR property=%s armed-rule self-test failed\n", p.ID)
			os.Exit(2)
		}
	}
	funcs := make([]string, 0, len(c.FuncsSeen))
	for f := range c.FuncsSeen {
		funcs = append(funcs, strings.ReplaceAll(f, core.Mod+"/", ""))
	}
	sort.Strings(funcs)
	wall := time.Since(t0).Seconds()
	for _, l := range c.InlineLog {
		fmt.Println("  " + l)
	}
	fmt.Printf("property=%s tier=%s packages=%d rules=%d obligations=%d held=%d violated=%d known=%d undecided=%d wall=%.1fs\n",
		p.ID, *tier, len(c.Pkgs), len(stats), total, held, viol, knownN, und, wall)
	for _, s := range stats {
		fmt.Printf("  rule %-22s obligations=%-3d held=%-3d violated=%-2d undecided=%-2d floor=%d\n", s.Rule, s.Obligations, s.Held, s.Violated, s.Undecided, s.Floor)
	}

	if !*noEvidence {
		if p.Trusted == nil {
			p.Trusted = []string{"go/types + go/ssa construction (x/tools v0.50.0)", "the reachability / provenance engines in checker/internal/core", "SQL engine and go-ethereum semantics"}
		}
		if p.Assumptions == nil {
			p.Assumptions = []string{}
		}
		ev := map[string]any{
			"property_id": p.ID,
			"tier":        *tier,
			"seed":        seed,
			"level":       p.Level,
			"wall_s":      wall,
			"violations":  viol,
			"assumptions": p.Assumptions,
			"coverage": map[string]any{
				"explanation":         p.Explanation,
				"obligations":         total,
				"discharged":          held,
				"known_findings":      knownN,
				"undecided":           und,
				"checker_cmd":         fmt.Sprintf("/verif/run.sh %s %s", p.ID, *tier),
				"trusted_base":        p.Trusted,
				"evaluations":         total,
				"distinct_nontrivial": len(distinct),
				"rule":                "one obligation per rule instance (call site, method, store, table, field, path) found in /repo's current type-checked sources; distinct = distinct rule|construct keys; every obligation is non-trivial in that it is a construct of the real program matched by object identity",
				"samples":             samples,
				"rules":               stats,
				"packages_loaded":     len(c.Pkgs),
				"functions_analysed":  funcs,
				"exhaustive":          true,
				"selftest":            selfRes,
				"inline_prepass":      inlineNote(c.InlineLog),
			},
		}
		b, _ := json.MarshalIndent(ev, "", " ")
		dir := filepath.Join(*verif, "evidence")
		_ = os.MkdirAll(dir, 0o755)
		if err := os.WriteFile(filepath.Join(dir, p.ID+".json"), b, 0o644); err != nil {
			fail(err.Error())
		}
	}
	os.Exit(exit)
}

// inlineNote: what the [INLINE] pre-pass did on this run (helpers not part of the pinned tree expanded in place).
func inlineNote(log []string) any {
	if len(log) == 0 {
		return "no function outside the pinned function table: nothing expanded, /repo analysed as written"
	}
	return log
}
