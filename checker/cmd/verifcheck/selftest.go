package main

import (
	"encoding/json"
	"fmt"
	"os"
	"os/exec"
	"path/filepath"
	"regexp"
	"sort"
	"strings"
	"sync"
)

// Mutant is a seeded violation: a small search/replace edit of repository files applied in memory (overlay).
// The variant must still type-check and the named rule must report a violation whose key contains Expect.
type Mutant struct {
	ID     string `json:"id"`
	Prop   string `json:"prop"`
	Rule   string `json:"rule"`
	Expect string `json:"expect"`
	Note   string `json:"note"`
	Edits  []Edit `json:"edits"`
	// Benign marks a behaviour-preserving variant: the check must stay silent on it.
	Benign bool `json:"benign"`
	// Patch names a unified diff (relative to /verif): the sub-agent changes kept in /verif/seeded and /verif/benign. Edits given
	// together with a Patch are applied on top of the patched files (a behaviour-preserving refactoring plus a breaking edit:
	// the normalisations that keep the refactoring silent must not hide the break).
	Patch string `json:"patch"`
}

type Edit struct {
	File    string `json:"file"`
	Find    string `json:"find"`
	Replace string `json:"replace"`
	Nth     int    `json:"nth"` // 0 = the only occurrence (must be unique), n>0 = n-th occurrence
	// Regex: Find is a regular expression replaced everywhere between the markers Within (inclusive start) and
	// Until (first occurrence after Within); used for renames inside one function.
	Regex  bool   `json:"regex"`
	Within string `json:"within"`
	Until  string `json:"until"`
}

type MutantResult struct {
	ID       string `json:"id"`
	Rule     string `json:"rule"`
	Benign   bool   `json:"benign,omitempty"`
	OK       bool   `json:"ok"`
	Detail   string `json:"detail"`
	Reported string `json:"reported,omitempty"`
}

func loadMutants(verif, prop string) ([]Mutant, error) {
	files, _ := filepath.Glob(filepath.Join(verif, "selftest", prop, "*.json"))
	sort.Strings(files)
	var out []Mutant
	for _, f := range files {
		b, err := os.ReadFile(f)
		if err != nil {
			return nil, err
		}
		var ms []Mutant
		if err := json.Unmarshal(b, &ms); err != nil {
			var m Mutant
			if err2 := json.Unmarshal(b, &m); err2 != nil {
				return nil, fmt.Errorf("%s: %v", f, err)
			}
			ms = []Mutant{m}
		}
		for i := range ms {
			if ms[i].Prop == "" {
				ms[i].Prop = prop
			}
		}
		out = append(out, ms...)
	}
	return out, nil
}

var patchFileRe = regexp.MustCompile(`(?m)^\+\+\+ b/(\S+)`)

// patchOverlay applies a unified diff to copies of the touched files (GNU patch in a temp dir) and returns them.
func patchOverlay(repo, verif, patch string) (map[string]string, error) {
	b, err := os.ReadFile(filepath.Join(verif, patch))
	if err != nil {
		return nil, err
	}
	dir, err := os.MkdirTemp("", "verif-patch-*")
	if err != nil {
		return nil, err
	}
	defer os.RemoveAll(dir)
	var files []string
	for _, m := range patchFileRe.FindAllStringSubmatch(string(b), -1) {
		files = append(files, m[1])
		src, err := os.ReadFile(filepath.Join(repo, m[1]))
		if err != nil {
			return nil, err
		}
		dst := filepath.Join(dir, m[1])
		_ = os.MkdirAll(filepath.Dir(dst), 0o755)
		if err := os.WriteFile(dst, src, 0o644); err != nil {
			return nil, err
		}
	}
	cmd := exec.Command("patch", "-p1", "-s", "-d", dir, "-i", filepath.Join(verif, patch))
	if out, err := cmd.CombinedOutput(); err != nil {
		return nil, fmt.Errorf("patch does not apply to the current tree: %s", strings.TrimSpace(string(out)))
	}
	ov := map[string]string{}
	for _, f := range files {
		nb, err := os.ReadFile(filepath.Join(dir, f))
		if err != nil {
			return nil, err
		}
		ov[f] = string(nb)
	}
	return ov, nil
}

func buildOverlay(repo string, m Mutant, ov map[string]string) (map[string]string, error) {
	if ov == nil {
		ov = map[string]string{}
	}
	for _, e := range m.Edits {
		cur, ok := ov[e.File]
		if !ok {
			b, err := os.ReadFile(filepath.Join(repo, e.File))
			if err != nil {
				if e.Find == "" && os.IsNotExist(err) {
					ov[e.File] = e.Replace // a new file
					continue
				}
				return nil, err
			}
			cur = string(b)
		}
		if e.Regex {
			re, err := regexp.Compile(e.Find)
			if err != nil {
				return nil, err
			}
			a := 0
			b := len(cur)
			if e.Within != "" {
				a = strings.Index(cur, e.Within)
				if a < 0 {
					return nil, fmt.Errorf("marker %q not found in %s", e.Within, e.File)
				}
			}
			if e.Until != "" {
				j := strings.Index(cur[a+len(e.Within):], e.Until)
				if j < 0 {
					return nil, fmt.Errorf("marker %q not found after %q in %s", e.Until, e.Within, e.File)
				}
				b = a + len(e.Within) + j
			}
			seg := cur[a:b]
			if !re.MatchString(seg) {
				return nil, fmt.Errorf("regex %q matches nothing in the selected region of %s", e.Find, e.File)
			}
			ov[e.File] = cur[:a] + re.ReplaceAllString(seg, e.Replace) + cur[b:]
			continue
		}
		n := strings.Count(cur, e.Find)
		if n == 0 {
			return nil, fmt.Errorf("edit does not apply: %q not found in %s", e.Find, e.File)
		}
		if e.Nth == 0 {
			if n != 1 {
				return nil, fmt.Errorf("edit is ambiguous: %q occurs %d times in %s", e.Find, n, e.File)
			}
			cur = strings.Replace(cur, e.Find, e.Replace, 1)
		} else {
			idx := -1
			pos := 0
			for k := 0; k < e.Nth; k++ {
				j := strings.Index(cur[pos:], e.Find)
				if j < 0 {
					return nil, fmt.Errorf("edit does not apply: occurrence %d of %q not in %s", e.Nth, e.Find, e.File)
				}
				idx = pos + j
				pos = idx + len(e.Find)
			}
			cur = cur[:idx] + e.Replace + cur[idx+len(e.Find):]
		}
		ov[e.File] = cur
	}
	return ov, nil
}

// runSelfTest applies every mutant of the property through an in-memory overlay in a child process.
func runSelfTest(self, repo, verif, prop string) ([]MutantResult, bool) {
	ms, err := loadMutants(verif, prop)
	if err != nil {
		return []MutantResult{{ID: "load", Detail: err.Error()}}, false
	}
	res := make([]MutantResult, len(ms))
	var wg sync.WaitGroup
	sem := make(chan struct{}, 6)
	for i, m := range ms {
		wg.Add(1)
		go func(i int, m Mutant) {
			defer wg.Done()
			sem <- struct{}{}
			defer func() { <-sem }()
			r := MutantResult{ID: m.ID, Rule: m.Rule, Benign: m.Benign}
			var ov map[string]string
			var err error
			if m.Patch != "" {
				// a patch, optionally followed by edits on top of the patched files (a refactoring plus a breaking change)
				ov, err = patchOverlay(repo, verif, m.Patch)
				if err == nil && len(m.Edits) > 0 {
					ov, err = buildOverlay(repo, m, ov)
				}
			} else {
				ov, err = buildOverlay(repo, m, nil)
			}
			if err != nil {
				r.Detail = err.Error()
				res[i] = r
				return
			}
			tmp, err := os.CreateTemp("", "verif-ov-*.json")
			if err != nil {
				r.Detail = err.Error()
				res[i] = r
				return
			}
			defer os.Remove(tmp.Name())
			b, _ := json.Marshal(ov)
			_, _ = tmp.Write(b)
			tmp.Close()
			cmd := exec.Command(self, "-prop", prop, "-tier", "quick", "-repo", repo, "-verif", verif, "-overlay", tmp.Name(), "-no-evidence")
			out, _ := cmd.CombinedOutput()
			text := string(out)
			if strings.Contains(text, "CHECK-ERROR") {
				r.Detail = "variant does not load/type-check: " + firstLine(text, "CHECK-ERROR")
				res[i] = r
				return
			}
			want := "violated " + m.Rule + "|"
			hit := ""
			for _, l := range strings.Split(text, "\n") {
				if (strings.Contains(l, want) || strings.Contains(l, "UNDECIDED "+m.Rule+"|")) && strings.Contains(l, m.Expect) {
					hit = strings.TrimSpace(l)
					break
				}
			}
			if m.Benign {
				if strings.Contains(text, "VIOLATION ") {
					r.Detail = "false alarm on a behaviour-preserving variant: " + firstLine(text, "violated")
				} else {
					r.OK = true
					r.Detail = "silent, as required"
				}
			} else if hit != "" {
				r.OK = true
				r.Reported = hit
				r.Detail = "caught"
			} else {
				r.Detail = "NOT caught by " + m.Rule + "; output: " + firstLine(text, "VIOLATION")
			}
			res[i] = r
		}(i, m)
	}
	wg.Wait()
	ok := true
	for _, r := range res {
		if !r.OK {
			ok = false
		}
	}
	return res, ok
}

func firstLine(text, containing string) string {
	for _, l := range strings.Split(text, "\n") {
		if strings.Contains(l, containing) {
			if len(l) > 300 {
				l = l[:300]
			}
			return strings.TrimSpace(l)
		}
	}
	return "(none)"
}
