package main

import (
	"fmt"
	"strings"

	"verif/checker/internal/core"
)

// layoutDump prints the layout of every return value of matching functions.
func layoutDump(c *core.Ctx, want string) {
	lx := core.NewLayout()
	for _, fn := range c.AllFuncs() {
		if !strings.Contains(core.ShortFn(fn), want) {
			continue
		}
		for _, r := range core.Returns(fn) {
			for _, v := range r.Results {
				fmt.Printf("%s => %s\n", core.ShortFn(fn), lx.Of(v))
			}
		}
	}
}
