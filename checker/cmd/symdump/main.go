// symdump prints, for one function, each call/store/return/if with the symbolic terms of its operands (debug aid).
package main

import (
	"fmt"
	"os"
	"strings"

	"golang.org/x/tools/go/ssa"

	"verif/checker/internal/core"
)

func main() {
	c, err := core.Load("/repo", nil)
	if err != nil {
		fmt.Println(err)
		os.Exit(2)
	}
	want := os.Args[1]
	if want == "-layout" {
		for _, w := range os.Args[2:] {
			layoutDump(c, w)
		}
		return
	}
	sx := core.NewSymx()
	for _, fn := range c.AllFuncs() {
		if !strings.Contains(core.ShortFn(fn), want) {
			continue
		}
		fmt.Println("==", core.ShortFn(fn))
		for _, b := range fn.Blocks {
			fmt.Printf(" block %d (%s) preds=%d\n", b.Index, b.Comment, len(b.Preds))
			for _, i := range b.Instrs {
				switch x := i.(type) {
				case *ssa.Call:
					var as []string
					for _, a := range core.CallArgs(&x.Call) {
						as = append(as, sx.Of(a).String())
					}
					fmt.Printf("   %s = CALL %s(%s)\n", x.Name(), core.CallName(x), strings.Join(as, " ; "))
				case *ssa.Store:
					fmt.Printf("   STORE %s <- %s\n", sx.Of(x.Addr), sx.Of(x.Val))
				case *ssa.Return:
					var as []string
					for _, a := range x.Results {
						as = append(as, sx.Of(a).String())
					}
					fmt.Printf("   RETURN %s\n", strings.Join(as, " ; "))
				case *ssa.If:
					fmt.Printf("   IF %s -> %d else %d\n", sx.Of(x.Cond), b.Succs[0].Index, b.Succs[1].Index)
				case *ssa.Send:
					fmt.Printf("   SEND %s <- %s\n", sx.Of(x.Chan), sx.Of(x.X))
				case *ssa.Defer, *ssa.Go:
					fmt.Printf("   %s\n", i)
				case *ssa.Jump:
					fmt.Printf("   JUMP %d\n", b.Succs[0].Index)
				}
			}
		}
	}
}
