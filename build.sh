#!/bin/sh
# Build the static checker offline (go1.26.8 + golang.org/x/tools v0.50.0 from the module cache).
set -e
cd "$(dirname "$0")"
. ./env.sh
mkdir -p bin evidence
(cd checker && go build -o ../bin/verifcheck ./cmd/verifcheck)
