# Environment shared by build.sh and run.sh (offline, pinned toolchain).
export PATH=/opt/veriftools/go1.26.8/bin:$PATH
export GOTOOLCHAIN=local GOFLAGS=-mod=mod GOPROXY=off GOWORK=off GONOSUMCHECK=1 GONOSUMDB=* GOFLAGS=-mod=mod
unset GOSUMDB
export GONOSUMDB='*' GONOSUMCHECK=1 GONOSUMVERIFY=1
