#!/bin/sh
# usage: run.sh <property> [quick|thorough]
# Rebuilds the checker if its sources changed, then decides the property on /repo's current working tree.
cd "$(dirname "$0")"
. ./env.sh
if [ ! -x bin/verifcheck ] || [ -n "$(find checker -newer bin/verifcheck -type f 2>/dev/null | head -1)" ]; then
  ./build.sh || { echo "CHECK-ERROR build failed"; exit 2; }
fi
tier="${2:-${VERIF_TIER:-quick}}"
exec bin/verifcheck -prop "$1" -tier "$tier"
