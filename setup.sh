#!/bin/sh
# Build the static checker offline from files on disk.
set -e
cd "$(dirname "$0")"
exec ./build.sh
