#!/bin/sh
# Build the static checker offline from files on disk and warm the Go build cache for /repo's packages.
set -e
cd "$(dirname "$0")"
./build.sh
. ./env.sh
# one load of the repository compiles the export data of its dependencies into the build cache (cold: ~1-2 min)
bin/verifcheck -prop C14 -tier quick -no-evidence >/dev/null 2>&1 || true
