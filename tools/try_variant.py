#!/usr/bin/env python3
"""try_variant.py <prop> <patch|-> [file find replace]...  — applies a patch (relative to /verif, or '-') and search/replace
edits in memory (overlay; /repo is not touched), runs the quick check of <prop> and prints the report lines."""
import json, os, re, subprocess, sys, tempfile, shutil
prop, patch = sys.argv[1], sys.argv[2]
edits = sys.argv[3:]
ov = {}
if patch != '-':
    txt = open(os.path.join('/verif', patch)).read()
    files = re.findall(r'^\+\+\+ b/(\S+)', txt, re.M)
    d = tempfile.mkdtemp()
    for f in files:
        os.makedirs(os.path.dirname(os.path.join(d, f)), exist_ok=True)
        if os.path.exists(os.path.join('/repo', f)):
            shutil.copy(os.path.join('/repo', f), os.path.join(d, f))
    subprocess.run(['patch', '-p1', '-s', '-d', d, '-i', os.path.join('/verif', patch)], check=True)
    for f in files:
        ov[f] = open(os.path.join(d, f)).read()
    shutil.rmtree(d)
for i in range(0, len(edits), 3):
    f, a, b = edits[i:i+3]
    cur = ov.get(f) or open(os.path.join('/repo', f)).read()
    assert cur.count(a) == 1, (f, a, cur.count(a))
    ov[f] = cur.replace(a, b)
t = tempfile.NamedTemporaryFile('w', suffix='.json', delete=False)
json.dump(ov, t); t.close()
r = subprocess.run(f'. /verif/env.sh; /verif/bin/verifcheck -prop {prop} -tier quick -overlay {t.name} -no-evidence', shell=True, capture_output=True, text=True, cwd='/verif')
os.unlink(t.name)
for l in (r.stdout + r.stderr).splitlines():
    if l.strip().startswith(('violated', 'UNDECIDED', 'VACUOUS', 'CHECK-ERROR', 'property=')) or 'rejected' in l or 'type errors' in l or '.go:' in l and 'CHECK' in r.stdout:
        print(l.strip()[:1800])
