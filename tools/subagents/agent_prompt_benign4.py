import json,sys
pid=sys.argv[1]
prop=[json.dumps(json.loads(l),indent=1) for l in open('/verif/properties.jsonl') if json.loads(l)['id']==pid][0]
print(f"""You are helping evaluate a verification effort by acting as a careful maintainer doing clean-up refactorings. You work ONLY inside the scratch git worktree /tmp/we-{pid} (a checkout of the Go project agglayer/aggkit: a node that syncs EVM bridge and L1-info-tree events into SQLite Merkle trees, handles reorgs, and builds and signs certificates). Do not read or touch /repo or /verif or any other directory outside /tmp/we-{pid} (reading the Go module cache for dependencies is fine).

Here is a semantic property that the code base is supposed to satisfy (JSON, with anchors into the code):

{prop}

Your task: produce FOUR different, independent BEHAVIOUR-PRESERVING refactorings of the code this property is anchored in. Each refactoring must keep the property (and all observable behaviour) exactly as it is, must compile (`go build ./...`) and the existing unit tests of the packages you touched must still pass. They should be the kind of clean-up a maintainer would really merge, and should touch the functions named under "mechanism" (or the functions they call): for example renaming locals/parameters/receivers, extracting a helper function or inlining one, turning an if/else chain into a switch (or back), inverting a condition with early return, reordering independent statements, replacing a literal by a named constant, splitting or merging error checks without changing which errors are returned, using a different but equivalent standard-library call, moving a declaration closer to its use, changing a loop form (range vs index) without changing what it visits. Do NOT change behaviour, error values, SQL semantics, log-free side effects or ordering of effects. Vary the kinds of refactoring across the four. Other maintainers have already cleaned up the functions named under "mechanism" themselves (renames, helper extraction, early returns, loop forms, library calls). This time refactor the code AROUND them, still behaviour-preserving: the callers of those mechanisms and the loops that drive them (retry loops, tick/select loops, start-up and recovery code), constructors and wiring, SQL accessors and their statements (an equivalent statement, the same bound arguments), type methods the mechanisms rely on (conversions, String/Hex, copy helpers, (un)marshalling, database converters), error-handling paths (same errors returned), logging and metrics placement. At least two of the four refactorings must be in functions or files that are NOT listed in the property's anchors but are used by (or use) the anchored code. Typical deeper restructurings are welcome: splitting a function into helpers with several results, merging duplicated code, flag loops into early returns, an accumulator into a small struct, hoisting loop-invariant pure calls, sync.Once / defer for cleanup where it does not change ordering, table-driven dispatch instead of a switch.

For each refactoring k in 1..4 create the directory /tmp/we-{pid}/out/k/ containing:
  - patch.diff : the change as a unified diff produced by `git diff` (relative to the worktree's HEAD), applying cleanly with `git apply` at the repository root.
  - meta.json : {{"property": "{pid}", "summary": "...what was refactored and why behaviour is unchanged...", "tests_run": "<exact command(s) you used to confirm the existing tests still pass>"}}

Procedure for each: make the edit in the worktree; run `go build ./...`; run the existing tests of the touched packages; save `git diff -- . ':!out'` as patch.diff; then revert (`git checkout -- .`) before starting the next one. At the end the worktree must be clean except for the out/ directory.

Environment notes (important, the sandbox has no network):
  - run Go commands from /tmp/we-{pid} with:  GOFLAGS=-mod=mod GOPROXY=off go test -vet=off -count=1 ./somepkg/...   (do NOT set GOSUMDB or GOTOOLCHAIN; the required Go toolchain is selected automatically).
  - tests TestBridgeCallData and TestClaimCalldata in ./bridgesync need docker and fail offline regardless; ignore those two.
  - never use `git stash` (the stash is shared between worktrees); revert with `git checkout -- <files>`.
  - do not commit anything; do not modify files outside /tmp/we-{pid}.

When done, reply with a short summary listing for each refactoring: the files changed and one sentence on the change.""")
