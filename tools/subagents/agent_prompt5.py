import json,sys
pid=sys.argv[1]
prop=[json.dumps(json.loads(l),indent=1) for l in open('/verif/properties.jsonl') if json.loads(l)['id']==pid][0]
print(f"""You are helping evaluate a verification effort by acting as an adversarial developer. You work ONLY inside the scratch git worktree /tmp/w5-{pid} (a checkout of the Go project agglayer/aggkit: a node that syncs EVM bridge and L1-info-tree events into SQLite Merkle trees, handles reorgs, and builds and signs certificates). Do not read or touch /repo or /verif or any other directory outside /tmp/w5-{pid} (reading the Go module cache for dependencies is fine).

Here is a semantic property that the code base is supposed to satisfy (JSON, with anchors into the code):

{prop}

Note: four earlier rounds of developers have already produced mutants inside the functions named under "mechanism", in their direct helpers, in the storage queries they issue and in the constructors that wire them. To be useful you must come from further away and pick spots nobody would look at first. Ideas (previous rounds already used: schema column types and keys, the bootstrap block of a fresh store, log index vs tx index, foreign-key pragmas, shared buffers in loops, context timeouts around waits, swallowed errors in start-up recovery, NULL handling in a data-fix migration, the give-up condition of a retry loop, number parsing of HTTP query parameters, rows written by a sibling event handler — do NOT repeat those): a CALLER or other component that uses these mechanisms with slightly wrong arguments, in the wrong order, or under the wrong condition; a method of a data type the mechanism relies on (conversion, copy, equality, hashing, String/ordering, (un)marshalling); a SQL migration / schema / constraint / index; configuration parsing and defaults; concurrency (locks, channels, goroutine lifetime, context cancellation, shared slices or maps); retry/back-off and restart logic; or TWO small edits in different files that are each harmless alone and break the property only together. Your three changes must be in three different functions, and at least one of them must be outside the files listed under "anchors.files" (but still break THIS property observably).

Your task: produce THREE different, independent code changes ("mutants") to the project, each of which BREAKS this property while (a) the project still compiles (`go build ./...`), and (b) the existing unit tests of the packages you touched still pass. Each change should be realistic (the kind of bug a developer could plausibly introduce in a refactor or feature change), small (a few lines), and SUBTLE: it should need something specific to manifest — a particular interleaving, a crash/fault at a particular point, a multi-step sequence of operations, an unusual input, or two cooperating sites that each look fine alone — NOT something ordinary use or the existing tests would expose at once. Prefer changes to non-test production code in the anchored files/mechanisms, and make the three changes different in kind (different functions / different clauses of the property).

For each mutant k in 1..3 create the directory /tmp/w5-{pid}/out/k/ containing:
  - patch.diff : the change as a unified diff produced by `git diff` (relative to the worktree's HEAD), applying cleanly with `git apply` at the repository root. The patch must contain ONLY the production-code change (not the demonstration).
  - a demonstration: a Go test file (name it demo_test.go and say in meta.json in which package directory it must be placed) or a small program that FAILS with the change applied and PASSES without it, showing the property being violated at the level of observable behaviour. It may use the package's existing test helpers and mocks.
  - meta.json : {{"property": "{pid}", "summary": "...what was changed...", "needs": "...what specific condition is needed for the breakage to manifest...", "demo_dir": "<package dir for demo_test.go>", "demo_run": "<exact go test command to run the demo>", "tests_run": "<exact command(s) you used to confirm the existing tests still pass>"}}

Procedure for each mutant: make the edit in the worktree; run `go build ./...`; run the existing tests of the touched packages; write the demo and confirm it fails WITH the change; save `git diff -- . ':!out'` (production files only, exclude the demo) as patch.diff; then revert the production change (`git checkout -- <files>`), confirm the demo PASSES without the change; move the demo file into out/k/ (so the worktree is clean again apart from out/). If after a fair effort a candidate can't satisfy all conditions, discard it and try a different idea.

Environment notes (important, the sandbox has no network):
  - run Go commands from /tmp/w5-{pid} with:  GOFLAGS=-mod=mod GOPROXY=off go test -vet=off -count=1 ./somepkg/...   (do NOT set GOSUMDB or GOTOOLCHAIN; the required Go toolchain is selected automatically).
  - tests TestBridgeCallData and TestClaimCalldata in ./bridgesync need docker and fail offline regardless; ignore those two.
  - never use `git stash` (the stash is shared between worktrees); revert with `git checkout -- <files>`.
  - do not commit anything; do not modify files outside /tmp/w5-{pid}.

When done, reply with a short summary listing for each mutant: the files changed, one sentence on the change, and the demo command with its with/without outcome.""")
