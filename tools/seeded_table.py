#!/usr/bin/env python3
"""Prints the markdown table of sub-agent seeded changes (from /verif/seeded/*/meta.json and the self-test files)."""
import json, glob, os
rule_of = {}
for f in glob.glob('/verif/selftest/*/seeded.json') + glob.glob('/verif/selftest/*/mutants.json'):
    for m in json.load(open(f)):
        if m.get('patch'):
            sid = m['patch'].split('/')[1]
            rule_of.setdefault(sid, []).append(m['rule'] + ' (' + os.path.basename(os.path.dirname(f)) + ')')
print('| id | breaks | change (sub-agent summary) | needs | caught by rule (property check) |')
print('|---|---|---|---|---|')
for d in sorted(glob.glob('/verif/seeded/*')):
    sid = os.path.basename(d)
    m = json.load(open(d + '/meta.json'))
    v = m.get('verification', {})
    summ = ' '.join(m.get('summary', '').split())[:230]
    needs = ' '.join(m.get('needs', '').split())[:170]
    rules = ', '.join(sorted(set(rule_of.get(sid, [])))) or ('checks: ' + ', '.join(v.get('caught_by', [])) if v.get('caught_by') else 'NOT CAUGHT')
    print(f"| {sid} | {m.get('property')} | {summ} | {needs} | {rules} |")
