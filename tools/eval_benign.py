#!/usr/bin/env python3
"""eval_benign.py <worktree> <out/k> <id>
Confirms a behaviour-preserving refactoring (build + existing tests of the touched packages in the scratch worktree),
then applies it to /repo, runs every quick check without writing evidence, restores /repo and records the outcome in
/verif/benign/<id>/{patch.diff,meta.json}. Any report is a FALSE ALARM of the checker (or the refactoring is not
behaviour preserving — decide by reading)."""
import json, os, subprocess, sys, shutil, re
wt, sub, bid = sys.argv[1], sys.argv[2], sys.argv[3]
ENV = dict(os.environ, GOFLAGS="-mod=mod", GOPROXY="off")
for k in ("GOSUMDB", "GOTOOLCHAIN", "GOWORK"): ENV.pop(k, None)
def sh(cmd, cwd, env=ENV, timeout=2400):
    r = subprocess.run(cmd, shell=True, cwd=cwd, env=env, capture_output=True, text=True, timeout=timeout)
    return r.returncode, r.stdout + r.stderr
src = os.path.join(wt, sub)
patch = os.path.join(src, "patch.diff")
meta = json.load(open(os.path.join(src, "meta.json")))
res = {}
sh("git checkout -- .", wt)
rc, o = sh(f"git apply {patch}", wt); assert rc == 0, o
pk = sorted({os.path.dirname(l[6:]) for l in open(patch) if l.startswith("+++ b/") and l.strip().endswith(".go")})
old = {}
if os.environ.get("SKIP_TESTS") and os.path.exists(f"/verif/benign/{bid}/meta.json"):
    old = json.load(open(f"/verif/benign/{bid}/meta.json")).get("verification", {})
if old:
    res["build"], o = old.get("build"), ""
else:
    rc, o = sh("go build ./...", wt); res["build"] = "ok" if rc == 0 else o[-500:]
    rc, o = sh("go test -vet=off -count=1 " + " ".join("./" + p + "/" for p in pk), wt)
fails = [l for l in o.splitlines() if l.startswith("--- FAIL")]
fails = [l for l in fails if "TestBridgeCallData" not in l and "TestClaimCalldata" not in l]
res["tests"] = old.get("tests") if old else ("pass" if not fails else "FAIL: " + "; ".join(fails)[:400])
sh("git checkout -- .", wt)
assert sh("git status --porcelain", "/repo")[1].strip() == "", "/repo not clean"
rc, o = sh(f"git apply {patch}", "/repo"); assert rc == 0, o
props = [c["property_id"] for c in json.load(open("/verif/MANIFEST.json"))["checks"]]
verdicts = {}
try:
    for p in props:
        rc, o = sh(f". ./env.sh; bin/verifcheck -prop {p} -no-evidence", "/verif", env=os.environ)
        lines = [l.strip() for l in o.splitlines() if l.strip().startswith(("violated", "UNDECIDED", "VACUOUS", "CHECK-ERROR"))]
        if rc != 0: verdicts[p] = {"exit": rc, "reports": lines[:8]}
finally:
    sh("git checkout -- . && git clean -fdq", "/repo")
res["alarms"] = verdicts
dst = f"/verif/benign/{bid}"
os.makedirs(dst, exist_ok=True)
shutil.copy(patch, os.path.join(dst, "patch.diff"))
meta["verification"] = res
json.dump(meta, open(os.path.join(dst, "meta.json"), "w"), indent=1)
print(bid, "build:", res["build"], "tests:", res["tests"], "alarms:", list(verdicts))
for p, v in verdicts.items():
    for r in v["reports"][:4]: print("   ", p, r[:400])
