#!/bin/bash
# runs the thorough tier of every claimed property (3 at a time) and prints one line per property plus any problem lines
cd /verif
props=${@:-C01 C02 C03 C04 C05 C06 C07 C08 C09 C10 C11 C12 C13 C14 C15 C16 C17 C19 C20}
mkdir -p /tmp/thorough; rm -f /tmp/thorough/*.out
printf "%s\n" $props | xargs -P 3 -I{} sh -c './run.sh {} thorough > /tmp/thorough/{}.out 2>&1; echo "{} exit=$?" >> /tmp/thorough/{}.out'
for p in $props; do grep -h "SELFTEST\|^selftest\|VIOLATION\|CHECK-ERROR\|exit=" /tmp/thorough/$p.out | cut -c1-260 | tr '\n' ' ' ; echo; done
