#!/usr/bin/env python3
"""add_rb.py <prop> <id> <rule> <expect> <patch> <note> [file find replace]... — registers a refactoring+break variant."""
import json, sys
prop, vid, rule, expect, patch, note = sys.argv[1:7]
ed = sys.argv[7:]
edits = [{"file": ed[i], "find": ed[i+1], "replace": ed[i+2]} for i in range(0, len(ed), 3)]
f = f'/verif/selftest/{prop}/mutants.json'
d = json.load(open(f))
d = [e for e in d if e['id'] != vid]
d.append({"id": vid, "prop": prop, "rule": rule, "expect": expect, "note": note, "patch": patch, "edits": edits})
json.dump(d, open(f, 'w'), indent=1)
print('registered', vid)
