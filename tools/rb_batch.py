#!/usr/bin/env python3
"""rb_batch.py <file.json> — tries refactoring+break candidates [{prop, id, patch, file, find, replace, note}], registers the
caught ones under the first reporting rule, prints the misses."""
import json, os, re, subprocess, sys, tempfile, shutil
cands = eval(open(sys.argv[1]).read())
for c in cands:
    ov = {}
    patch = c['patch']
    txt = open(os.path.join('/verif', patch)).read()
    files = re.findall(r'^\+\+\+ b/(\S+)', txt, re.M)
    d = tempfile.mkdtemp()
    for f in files:
        os.makedirs(os.path.dirname(os.path.join(d, f)), exist_ok=True)
        if os.path.exists('/repo/' + f): shutil.copy('/repo/' + f, os.path.join(d, f))
    subprocess.run(['patch', '-p1', '-s', '-d', d, '-i', os.path.join('/verif', patch)], check=True)
    for f in files: ov[f] = open(os.path.join(d, f)).read()
    shutil.rmtree(d)
    cur = ov.get(c['file']) or open('/repo/' + c['file']).read()
    if cur.count(c['find']) != 1:
        print('BAD-EDIT', c['id'], cur.count(c['find'])); continue
    ov[c['file']] = cur.replace(c['find'], c['replace'])
    t = tempfile.NamedTemporaryFile('w', suffix='.json', delete=False); json.dump(ov, t); t.close()
    r = subprocess.run(f'. /verif/env.sh; /verif/bin/verifcheck -prop {c["prop"]} -tier quick -overlay {t.name} -no-evidence', shell=True, capture_output=True, text=True, cwd='/verif')
    os.unlink(t.name)
    out = r.stdout + r.stderr
    if 'CHECK-ERROR' in out:
        print('NO-COMPILE', c['id'], [l for l in out.splitlines() if '.go:' in l][:2]); continue
    hits = [l.strip() for l in out.splitlines() if l.strip().startswith(('violated', 'UNDECIDED'))]
    if not hits:
        print('MISS', c['id'], '|', c['note']); continue
    m = re.match(r'(?:violated|UNDECIDED) ([^|]+)\|(\S+)', hits[0])
    rule, construct = m.group(1), m.group(2)
    expect = c.get('expect') or construct[-60:]
    f = f'/verif/selftest/{c["prop"]}/mutants.json'
    dd = [e for e in json.load(open(f)) if e['id'] != c['id']]
    dd.append({"id": c['id'], "prop": c['prop'], "rule": rule, "expect": expect, "note": c['note'], "patch": patch,
               "edits": [{"file": c['file'], "find": c['find'], "replace": c['replace']}]})
    json.dump(dd, open(f, 'w'), indent=1)
    print('CAUGHT', c['id'], rule, construct[:90])
