#!/usr/bin/env python3
"""Confirm a sub-agent's seeded change and run the registered checks against it.

usage: eval_seeded.py <worktree> <outdir-in-worktree> <seeded-id> [props...]
 1. in the scratch worktree: apply patch, build, run the existing tests of the touched packages (must pass),
    run the demo (must FAIL); revert; run the demo again (must PASS).
 2. apply the patch to /repo, run the quick checks of the given properties (default: all claimed), undo.
 3. store patch.diff, demo, meta.json (with what was run and the verdicts) under /verif/seeded/<seeded-id>/.
"""
import json, os, subprocess, sys, shutil, re
wt, out, sid = sys.argv[1], sys.argv[2], sys.argv[3]
props = sys.argv[4:]
ENV = dict(os.environ, GOFLAGS="-mod=mod", GOPROXY="off")
def sh(cmd, cwd, env=ENV, timeout=1500):
    r = subprocess.run(cmd, shell=True, cwd=cwd, env=env, capture_output=True, text=True, timeout=timeout)
    return r.returncode, (r.stdout + r.stderr)
src = os.path.join(wt, out)
meta = json.load(open(os.path.join(src, "meta.json")))
patch = os.path.join(src, "patch.diff")
demo_files = [f for f in os.listdir(src) if f.endswith(".go")]
demo_dir = os.path.join(wt, meta["demo_dir"].strip("./"))
touched = sorted({os.path.dirname(m) for m in re.findall(r"^\+\+\+ b/(\S+)", open(patch).read(), re.M)})
res = {"seeded_id": sid}
assert sh("git status --porcelain -- . ':!out'", wt)[1].strip() == "", "worktree not clean"
rc, o = sh(f"git apply {patch}", wt); assert rc == 0, o
rc, o = sh("go build ./...", wt); res["build_with_change"] = "ok" if rc == 0 else o[-500:]
pk = " ".join("./" + t + "/..." for t in touched)
rc, o = sh(f"go test -vet=off -count=1 -skip 'TestBridgeCallData|TestClaimCalldata' {pk}", wt)
res["existing_tests_cmd"] = f"go test -vet=off -count=1 -skip 'TestBridgeCallData|TestClaimCalldata' {pk}"
res["existing_tests_with_change"] = "pass" if rc == 0 else "FAIL: " + "\n".join(l for l in o.splitlines() if l.startswith(("--- FAIL", "FAIL", "panic")))[:800]
for f in demo_files: shutil.copy(os.path.join(src, f), os.path.join(demo_dir, "zz_" + f if not f.endswith("_test.go") else "zz_" + f))
m = re.search(r"-run\s+(\S+)", meta["demo_run"]); runpat = m.group(1) if m else "Demo"
democmd = f"go test -vet=off -count=1 -run {runpat} ./{meta['demo_dir'].strip('./')}/"
rc1, o1 = sh(democmd, wt)
res["demo_cmd"] = democmd
res["demo_with_change"] = "fails (as required)" if rc1 != 0 else "PASSES (demo does not show the breakage)"
sh("git checkout -- .", wt)
rc2, o2 = sh(democmd, wt)
res["demo_without_change"] = "passes (as required)" if rc2 == 0 else "FAILS without the change: " + o2[-600:]
for f in demo_files: os.remove(os.path.join(demo_dir, "zz_" + f))
confirmed = rc1 != 0 and rc2 == 0 and res["existing_tests_with_change"] == "pass" and res["build_with_change"] == "ok"
res["confirmed"] = confirmed
# checks against /repo
assert sh("git status --porcelain", "/repo")[1].strip() == "", "/repo not clean"
rc, o = sh(f"git apply {patch}", "/repo"); assert rc == 0, o
if not props:
    props = [c["property_id"] for c in json.load(open("/verif/MANIFEST.json"))["checks"]]
verdicts = {}
try:
    for p in props:
        rc, o = sh(f"./run.sh {p} quick", "/verif", env=os.environ)
        lines = [l.strip() for l in o.splitlines() if l.strip().startswith(("violated", "UNDECIDED", "VACUOUS", "CHECK-ERROR"))]
        verdicts[p] = {"exit": rc, "reports": lines[:6]}
finally:
    sh("git checkout -- . && git clean -fdq", "/repo")
    # evidence files were rewritten by the runs against the mutated tree: restore them
    sh("git checkout -- evidence", "/verif")
res["checks"] = verdicts
res["caught_by"] = [p for p, v in verdicts.items() if v["exit"] == 1]
dst = f"/verif/seeded/{sid}"
os.makedirs(dst, exist_ok=True)
shutil.copy(patch, os.path.join(dst, "patch.diff"))
for f in demo_files: shutil.copy(os.path.join(src, f), os.path.join(dst, f + ".txt"))
meta.update({"breaks_property": meta.get("property"), "verification": res})
json.dump(meta, open(os.path.join(dst, "meta.json"), "w"), indent=1)
print(json.dumps({"id": sid, "confirmed": confirmed, "caught_by": res["caught_by"], "demo_with": res["demo_with_change"], "demo_without": res["demo_without_change"][:80], "tests": res["existing_tests_with_change"][:200]}, indent=1))
for p, v in verdicts.items():
    if v["exit"] != 0: print(" ", p, v["reports"][:2])
