#!/usr/bin/env python3
"""Regenerates /verif/MANIFEST.json from the table below (claimed checks + not_applicable)."""
import json, os, sys
HERE = os.path.dirname(os.path.dirname(os.path.abspath(__file__)))
props = [json.loads(l)["id"] for l in open(os.path.join(HERE, "properties.jsonl"))]

NOTE_COMMON = ("Trusted: go/types and go/ssa (x/tools v0.50.0) construction for /repo's packages, the checker's own "
               "dominance / reachability / provenance engines, and the semantics of the SQL engine and go-ethereum. "
               "Decides the structural clauses listed in DESIGN.md section 4 for this property on every path of the "
               "code; value-level clauses named there as 'not decided' are not covered.")

claimed = {
 "C01": dict(category="other",
   text="Decides structural necessary conditions of root equality with the bridge contract: the leaf hash's byte layout, extracted symbolically from the SSA, equals the contract's getLeafValue encoding; append/rebuild orientation, level indexing, node hash and zero-hash recurrence follow the contract's convention; every Bridge event feeds the leaf {DepositCount, Hash()} of that same event before its row is stored; downloader field map; frontier sentinel / writer / rebuild discipline. Functional equality of the frontier algorithm with the contract's for every index is an induction over indices and is not decided. Also: the fields of Bridge / Claim events are written only while the downloader builds them (no 'normalisation' between download and leaf hash).",
   ref="4 C01", technique="static analysis: symbolic byte-layout extraction vs contract spec term, Merkle-step orientation rule, provenance and dominance on SSA"),
 "C02": dict(category="other",
   text="Decides the local gates and derivations that the gap-free certificate chain rests on, on every path of the code: send only behind a fresh !ExistPendingCerts; the status check fails closed on every error and for every certificate still open after refresh (boolean accumulator tracked path-sensitively); a single submission site; every producing return of the next-height/previous-LER and last-block/retry functions matched with its dominating branch facts against the case table; build-parameter provenance; retry keeps its first block and passes VerifyBuildParams; stored header fields. The global exactly-once-over-all-schedules statement is a protocol property over interleavings of five actors and is not decided, hence level 'other'. Shared rules: the record rebuilt from an Agglayer header keeps the real block range (C13-recover), a cut copies every parameter incl. RetryCount (C17-filter), the new local exit root follows from the range's exits (C03-newler).",
   ref="4 C02", technique="static analysis: SSA dominance with boolean/nil path facts, guarded-return case matching, provenance, who-may-call"),
 "C03": dict(category="other",
   text="Decides structural necessary conditions: the Agglayer-side exit leaf layout composed with the node's field map and metadata hashing equals the node's own leaf layout (sibling agreement); conversions are order-preserving over an ordered, bounded range query; new LER by highest deposit count (last bridge) or previous LER; certificate literal provenance; metadata arguments and codec slot agreement. Root values and range choice are not decided here. Shared rules: previous LER derivation (C02-next), cut/clamp keep exactly the events of the range (C17), querier/flow objects keep no chain data between calls (C09).",
   ref="4 C03", technique="static analysis: symbolic byte-layout extraction, field-map provenance, SQL token checks"),
 "C04": dict(category="other",
   text="Decides structural necessary conditions of reorg cleanliness: the schema of each store is computed from the embedded migrations and every synced table cascades from block(num); the single sql.Open enables foreign keys; every Reorg binds the block deletion and the rewind of every tree-typed field to the same tx and block number on every committing path; Reorg is atomic; the in-memory frontier is rewritten from the database on every successful rebuild. Observational equivalence of all queries for all histories is value-level and not decided; SQLite's cascade semantics are trusted.",
   ref="4 C04", technique="static analysis: DDL reader over embedded migrations, who-may-call, provenance and must-pass-through on SSA"),
 "C05": dict(category="other",
   text="Decides structural necessary conditions of exactly-once in-order delivery on every path of downloader and driver: a nil fetch result (treated by the caller as 'no events', cursor moves on) only under cancellation (one known finding, D3, is listed); block creation only after the header/log hash cross-check, fields from the same log; removed/foreign logs dropped; the driver never abandons a block except on success, cancellation or ErrInconsistentState (boolean-flag retry loops analysed path-sensitively); download restarts at lastProcessed+1 and after each reorg; the lower bound of every range fetch is the loop-carried cursor. Range arithmetic over chunk size, finality and tip movement is value-level and not decided, hence level 'other'.",
   ref="4 C05", technique="static analysis: SSA must-pass-through with boolean jump threading, value provenance, cursor (loop-carried Phi) discipline"),
 "C06": dict(category="other",
   text="Decides structural necessary conditions of reorg detection and rewind on every path: process only after tracking succeeded (or finalized); single notifier, only on tracked-vs-current hash mismatch for the same number, first mismatching block in ascending order, unchanged blocks dropped only when finalized; driver cancels before rewinding, passes the notified block unchanged, retries Reorg until nil, acknowledges only then, and restarts from the re-read last processed block. Convergence over all fork shapes / interleavings / restart points is a protocol-level property that static analysis does not decide.",
   ref="4 C06", technique="static analysis: SSA must-pass-through, who-may-send enumeration, value provenance"),
 "C07": dict(category="other",
   text="Decides, on every path of the current source, the structural necessary conditions of all-or-nothing block processing: transaction pairing (commit / rollback / deferred rollback with a flag cleared only after a nil Commit) in every ProcessBlock and Reorg of the three stores; every SQL write in the transaction scope and its callee cone goes through the transaction; every in-memory frontier write is dominated by the registration of a rollback callback that invalidates the frontier; the computed set of post-construction field writes of the long-lived store objects is accounted for; ErrInconsistentState leaves ProcessBlock only with a halt; block row first, nothing after Commit. Level 'other': these are necessary conditions that hold for all faults and crash points because they do not depend on them; the value-level claim (state after retry equals the fault-free run) is not decided.",
   ref="4 C07", technique="static analysis: SSA transaction-discipline rules (must-pass-through, handle provenance over the callee cone, who-may-write)"),
 "C16": dict(category="other",
   text="Decides structural necessary conditions of the injected-GER index: the PP downloader fetches from its loop-carried cursor (the pinned tree fetched only the tip: fixed); watched topics are the ABI signatures of the events their handlers parse (oracle: the contract binding's ABI); handler and processor field maps; delete-by-GER only for removals, on the block's transaction; the lookup statement returns the minimum index >= X. FEP state polling and liveness are not decided.",
   ref="4 C16", technique="static analysis: cursor (loop-carried Phi) discipline, ABI cross-check, provenance, SQL token checks"),
 "C08": dict(category="other",
   text="Decides the orientation agreement of all six functions that walk the 32-level tree (builders, walkers and the verifier) with the contracts' convention, their level ranges, sibling bookkeeping, and that callers pass index and root of one root object. That the proof values recompute the root for all tree contents is an induction over contents and is not decided.",
   ref="4 C08", technique="static analysis: Merkle-step orientation rule over SSA (bit-test recognition, per-edge operand roles), provenance"),
 "C09": dict(category="other",
   text="Decides structural necessary conditions: claim-data literals of both kinds take root, proof, leaf and exit-root fields from the right sources of the same claim and the same proof call; leaf count and root come from one object; leaf-hash and GER layouts match the contract and each other; GER mismatches are rejected before a build. That the proofs obtained verify is not decided (C08 decides orientation only).",
   ref="4 C09", technique="static analysis: field-map provenance with bound values, symbolic byte-layout extraction, dominance"),
 "C13": dict(category="other",
   text="Decides structural necessary conditions of crash-safe certificate bookkeeping: primary keys computed from the embedded migrations; every storage transaction paired, written through and error-checked; replace-at-height inside one transaction; reconciliation before the first send and refusal on contradictions; the record rebuilt from an Agglayer header field by field; every deciding return of the reconciliation matched with its dominating branch facts against the case table (constant +1 only). The end-to-end crash/restart behaviour is not decided.",
   ref="4 C13", technique="static analysis: DDL reader, transaction-discipline rules, guarded-return case matching, field-map provenance"),
 "C14": dict(category="proof",
   text="Static proof, over all paths of the current source, of the fail-stop structure: every exported data query of both syncers (enumerated from the method sets, so later additions are included) is dominated by the !isHalted() edge and returns ErrInconsistentState on the halted edge; ProcessBlock tests the flag before opening a transaction and the driver stops on that error; halting sites latch the flag; the only clearing store is in UnhaltIfAffectedRows under rowsAffected>0, reached only from Reorg after a nil Commit with the DELETE's RowsAffected. Proof level is right because the property is a universally quantified statement about entry points and flag writes, which is exactly what dominance and who-may-write analyses decide.",
   ref="4 C14", technique="static analysis: SSA dominance / path-sensitive reachability, who-may-write enumeration, value provenance",
   note="Trusted base: go/ssa construction, the reachability engine, absence of reflection/unsafe writes to the flag; the inherent window between reading the flag and running the query is outside the claim (queries that start after the halt)."),
}

not_applicable = {
}
claimed.update({
 "C10": dict(category="other",
   text="Decides structural necessary conditions: the stored signature is the configured signer's SignHash over the commitment of the very certificate object that is returned, sent and serialised, with no covered field written after hashing and no successful return that bypasses SignHash; the byte layout of Hash / PPHashToSign / FEPHashToSign including their per-exit lists (one element per exit, whole range, in order, each in storage of its own) and the agreement of the global-index integer between both commitments and the wire; the computed set of fields entering the commitment / identity hashes is forwarded on the wire, has JSON keys and is restored; every proto field takes its same-named source (both claim kinds agree); hand-written JSON codecs agree key path by key path per field; every Hash() covers its struct except a reasoned table. Collision-freeness ('changing a field changes the commitment') beyond 'the field is read into the hash input at a fixed-width position' is not decided.",
   ref="4 C10", technique="static analysis: provenance / mod-set rules on SSA, computed read sets, field-map and JSON key-path agreement"),
 "C11": dict(category="other",
   text="Decides structural necessary conditions of mirroring the L1 contracts: topic constants are the ABI signatures (from the contract bindings) of the events their handlers parse; handler and ProcessBlock field maps; hash/GER layouts against the contract; index = initial + counter with +1 only after a successful append; announced-root / leaf-count mismatch latches the halt; rollup exit tree updated with {RollupID-1, ExitRoot} only for a non-zero changed root and the returned root recorded; UNIQUE GER and bound lookups; first/last accessors order by chain position. Value equality with the contracts for all histories is not decided.",
   ref="4 C11", technique="static analysis: ABI cross-check, field-map provenance, layout extraction, dominance, DDL reader"),
 "C12": dict(category="other",
   text="Decides the proof-assembly half structurally: one info leaf by leaf_index; L1 branch proves against its MainnetExitRoot; L2 branch proves against the local exit root looked up under its RollupExitRoot; rollup proof for (network, RollupExitRoot); response carries those and the same leaf; every lookup error ends the handler before the 200 answer. Safety of the two index searches is decided: every record that can become the answer was compared (root.Index >= depositCount for the root of its own exit root) on the path that selects it, the root facade hands out only the store's answer, tree node storage/lookup rules shared with C08. Minimality of the answer (binary-search arithmetic) is not part of the property and not checked.",
   ref="4 C12", technique="static analysis: value provenance with bound SSA values, dominance"),
 "C15": dict(category="other",
   text="Decides structural necessary conditions: the single InjectGER call is reachable only after IsGERInjected of the same value returned (false, nil); that value is GetLatestInfoUntilBlock(sampled finalized block).GlobalExitRoot of a successful query; finality sampled with the configured block tag whose only writer is the constructor; success returns retry target 0 (next tick samples again) and the target is stored only on the success edge or for ErrBlockNotProcessed; the store's 'latest info until block n' is the last leaf in chain order with block_num <= n, bound to n, asked only once block n was processed. Liveness under arbitrary relative speeds is not decided.",
   ref="4 C15", technique="static analysis: dominance, provenance, who-may-call/write"),
 "C17": dict(category="other",
   text="Decides the comparison-only part exactly: both Range filters keep an element iff fromBlock <= BlockNum <= toBlock (all written forms of the comparisons recognised), append the element itself in source order, copy every other field; sub-range precondition; every cut keeps the first block; shrink step, loop variable and exit conditions of limitCertSize; last-block clamp; the shape of BlockRange.Gap's touch test (no wrapping arithmetic in conditions, saturating predecessor, empty iff touching). Maximality, size monotonicity (float) and the numeric values of non-empty gaps are declined.",
   ref="4 C17", technique="static analysis: exact comparison/guard analysis on SSA, provenance"),
 "C19": dict(category="other",
   text="Decides 'the same value everywhere' structurally: at each of the four encoding sites the encoder's arguments are MainnetFlag, RollupIndex, LeafIndex of one object in order; the decoder's results go to the same-named fields; each carrier uses the encoding its consumer expects; any new encoder call site or hand-rolled composition is reported. The bit layout is decided through its premises: the bytes the encoder builds on each edge of the mainnet flag (01|0000|leaf, rollup|leaf), no reuse of the scratch buffer before it is copied, the decoder's flag edge / slices in recognised forms, the left-padded big-endian helper; both signed commitments carry one element per claim built from that claim's own index. The arithmetic step from these premises to decode(encode(x)) = x is a pen-and-paper argument in DESIGN, not machine-checked.",
   ref="4 C19", technique="static analysis: who-may-call enumeration, argument provenance, per-edge byte-layout evaluation, list construction analysis"),
 "C20": dict(category="other",
   text="Decides structural necessary conditions: data[i] positions and method selectors agree with the bridge ABI read from the binding packages; found only on index equality, no write before it, IsMessage only when found; findCall offers / returns / expands a frame only past its own Err == nil test (inductive non-reverted traversal) and only bridge frames; exhausted search is an error; the claim is recorded only after its calldata was found. ABI decoding (go-ethereum) is trusted.",
   ref="4 C20", technique="static analysis: ABI cross-check (selectors via keccak of ABI signatures), dominance, provenance"),
})
not_applicable.update({
 "C18": "the whole statement is integer/float arithmetic (percentage threshold, rounding, epoch numbering) over arbitrary increasing block sequences; no clause is visible in the shape of the code beyond 'the counter advances when an event is emitted', which the tests already pin and which does not imply the property — declined rather than claimed through a proxy (DESIGN.md section 6)",
})

DEFAULT_NA = "check not built yet (work in progress; see DESIGN.md section 8)"

checks = []
for pid in props:
    if pid not in claimed: continue
    c = claimed[pid]
    checks.append({
        "property_id": pid,
        "quick_cmd": f"./run.sh {pid} quick",
        "thorough_cmd": f"./run.sh {pid} thorough",
        "evidence_file": f"/verif/evidence/{pid}.json",
        "replay_cmd_template": "cat {path}",
        "engine": "verifcheck",
        "level_claimed": {"category": c["category"], "text": c["text"], "design_ref": c["ref"]},
        "level_note": c.get("note", NOTE_COMMON),
        "technique": c["technique"],
    })
m = {
 "version": 1,
 "setup_cmd": "./setup.sh",
 "hooks": {"guard": "verif",
           "enable": "none needed: static analysis reads the unmodified sources; there are no hook commits",
           "baseline_off_cmd": "cd /repo && GOFLAGS=-mod=mod GOPROXY=off go test -vet=off -count=1 -timeout 25m ./...",
           "source_commits": [], "add_only": True},
 "engines": [{"name": "verifcheck", "path": "/verif/checker", "serves_properties": sorted(claimed),
              "kind_free_text": "repository-specific static analyser (go/packages + go/ssa): dominance, provenance, who-may-call/write, schema and layout rules; one obligation per rule instance"}],
 "checks": checks,
 "not_applicable": [{"property_id": p, "reason": not_applicable.get(p, DEFAULT_NA)} for p in props if p not in claimed],
 "notes": "All checks are static: they load and type-check /repo's current working tree on every run and decide rule obligations on SSA/AST/DDL. Thorough tier additionally applies the seeded variants in /verif/selftest through an in-memory overlay and requires each rule to fire on its variants (and stay silent on benign ones). fix: commits in /repo: 385179f, a84dd4a, 6642a29, cf2d626 (see known_findings.txt).",
}
json.dump(m, open(os.path.join(HERE, "MANIFEST.json"), "w"), indent=1)
print("claimed:", sorted(claimed), "n/a:", len(m["not_applicable"]))
